(* Order independence of the expression language (C33 / C15): evaluating an expression over environments whose
   datasets hold the same datapoints in a different order gives the same datapoints (in some order). *)
From Coq Require Import ZArith QArith String List Bool Permutation.
Import ListNotations.
From VTL Require Import Base.Val Model.Table Model.Scalar Model.Expr Proofs.TableP Proofs.MonadP Proofs.ExprP.
Open Scope string_scope.
Open Scope list_scope.

Definition dequiv (d d' : dset) : Prop :=
  d_ids d = d_ids d' /\ d_ms d = d_ms d' /\ Permutation (d_rows d) (d_rows d').
Definition wfd (d : dset) : Prop := uniq_keys (d_rows d) = true.

Lemma dequiv_form d d' : dequiv d d' -> d' = mkD (d_ids d) (d_ms d) (d_rows d').
Proof. intros [H1 [H2 _]]. destruct d'. simpl in *. congruence. Qed.

Lemma dequiv_refl d : dequiv d d.
Proof. repeat split; auto. Qed.

Lemma dequiv_wfd d d' : dequiv d d' -> wfd d -> wfd d'.
Proof. intros [_ [_ P]] H. unfold wfd in *. rewrite <- (uniq_keys_perm _ _ P). exact H. Qed.

Lemma uniq_keys_same_keys (a b : list (list val * list val)) : map fst a = map fst b -> uniq_keys a = uniq_keys b.
Proof.
  revert b. induction a as [|x a IH]; intros [|y b] H; simpl in *; try discriminate; auto.
  injection H as Hk Ht. rewrite (IH b Ht). f_equal. f_equal. rewrite Hk.
  unfold has_key. clear -Ht. revert b Ht. induction a as [|z a IH]; intros [|w b] Ht; simpl in *; try discriminate; auto.
  injection Ht as H1 H2. rewrite H1, (IH b H2). reflexivity.
Qed.

(* ---- well-formedness (one datapoint per key) is preserved by every operator *)
Lemma d_filter_wfd d c d' : d_filter d c = Ok d' -> wfd d -> wfd d'.
Proof.
  unfold d_filter, wfd. intros H Hu. apply bind_ok in H. destruct H as [l [Hl H]]. injection H as <-. simpl.
  assert (map fst l = d_rows d) as Hm.
  { apply mapM_ok_iff in Hl. clear -Hl. induction Hl as [|r p t t' Hp _ IH]; simpl; auto.
    apply bind_ok in Hp. destruct Hp as [v [_ Hp]]. injection Hp as <-. simpl. congruence. }
  rewrite <- Hm in Hu. clear -Hu. induction l as [|[r v] t IH]; simpl in *; auto.
  apply andb_true_iff in Hu. destruct Hu as [Hn Hu]. destruct (is_true v); simpl; auto.
  rewrite IH by exact Hu. rewrite andb_true_r. rewrite negb_true_iff in *.
  destruct (has_key (fst r) (map fst (filter (fun p => is_true (snd p)) t))) eqn:E; auto.
  apply has_key_In in E. destruct E as [x [Hx He]]. apply in_map_iff in Hx. destruct Hx as [[x' v'] [<- Hx]].
  apply filter_In in Hx. destruct Hx as [Hx _].
  assert (has_key (fst r) (map fst t) = true); [|congruence].
  apply has_key_In. exists x'. split; [apply in_map_iff; exists (x', v'); auto | exact He].
Qed.

Lemma d_calc_wfd d defs d' : d_calc d defs = Ok d' -> wfd d -> wfd d'.
Proof.
  intros H Hu. destruct (d_calc_spec _ _ _ H) as [_ [_ [_ Hk]]]. unfold wfd in *.
  rewrite (uniq_keys_same_keys _ _ Hk). exact Hu.
Qed.

Lemma d_map_wfd d body d' : d_map d body = Ok d' -> wfd d -> wfd d'.
Proof.
  intros H Hu. destruct (d_map_spec _ _ _ H) as [_ [_ F]]. unfold wfd in *.
  assert (map fst (d_rows d') = map fst (d_rows d)) as Hk.
  { clear -F. induction F as [|r r' l l' [Hr _] _ IH]; simpl; congruence. }
  rewrite (uniq_keys_same_keys _ _ Hk). exact Hu.
Qed.

Lemma d_project_wfd d f : wfd d -> wfd (d_project d f).
Proof.
  unfold wfd. intros Hu. destruct (d_project_frame d f) as [_ [Hk _]].
  rewrite (uniq_keys_same_keys _ _ Hk). exact Hu.
Qed.

Lemma d_rename_wfd d l : wfd d -> wfd (d_rename d l).
Proof. unfold wfd, d_rename. simpl. auto. Qed.

Lemma flat_some_keys_uniq (rows : list (list val * list val)) (l : list (option (list val * list val))) :
  Forall2 (fun r o => match o with Some r' => fst r' = fst r | None => True end) rows l ->
  uniq_keys rows = true ->
  uniq_keys (flat_map (fun o => match o with Some r => [r] | None => [] end) l) = true.
Proof.
  intros F. induction F as [|r o rows l Hro F IH]; simpl; auto. intros Hu.
  apply andb_true_iff in Hu. destruct Hu as [Hn Hu]. specialize (IH Hu). rewrite negb_true_iff in Hn.
  destruct o as [r'|]; simpl; auto. rewrite IH, andb_true_r, negb_true_iff.
  destruct (has_key (fst r') _) eqn:E; auto. exfalso.
  apply has_key_In in E. destruct E as [x [Hx He]]. apply flat_some_In in Hx.
  clear IH Hu. induction F as [|r2 o2 rows l Hro2 F IH2]; [destruct Hx|].
  simpl in Hn. apply orb_false_iff in Hn. destruct Hn as [Hn1 Hn2].
  destruct Hx as [->|Hx]; [|apply IH2; auto].
  rewrite Hro, Hro2 in He. unfold has_key in Hn1. congruence.
Qed.

Lemma d_binop_wfd op a b res : d_binop op a b = Ok res -> wfd a -> wfd b -> wfd res.
Proof.
  unfold d_binop, wfd. destruct (negb _); [discriminate|]. intros H Ha Hb.
  destruct (subset_s (d_ids b) (d_ids a)).
  - apply bind_ok in H. destruct H as [l [Hl H]]. injection H as <-. simpl.
    apply flat_some_keys_uniq with (rows := d_rows a); auto.
    apply mapM_ok_iff in Hl. clear -Hl. induction Hl as [|r o t t' Hro _ IH]; constructor; auto.
    destruct (proj_key _ _ _); [|discriminate]. destruct (find_key _ _); [|injection Hro as <-; exact I].
    apply bind_ok in Hro. destruct Hro as [ms [_ Hro]]. injection Hro as <-. reflexivity.
  - destruct (subset_s (d_ids a) (d_ids b)); [|discriminate].
    apply bind_ok in H. destruct H as [l [Hl H]]. injection H as <-. simpl.
    apply flat_some_keys_uniq with (rows := d_rows b); auto.
    apply mapM_ok_iff in Hl. clear -Hl. induction Hl as [|r o t t' Hro _ IH]; constructor; auto.
    destruct (proj_key _ _ _); [|discriminate]. destruct (find_key _ _); [|injection Hro as <-; exact I].
    apply bind_ok in Hro. destruct Hro as [ms [_ Hro]]. injection Hro as <-. reflexivity.
Qed.

(* ---- dataset ∘ dataset, both driving sides *)
Lemma d_binop_perm op a b a' b' res :
  wfd a -> wfd b -> dequiv a a' -> dequiv b b' ->
  d_binop op a b = Ok res -> exists res', d_binop op a' b' = Ok res' /\ dequiv res res'.
Proof.
  intros Ha Hb Ea Eb H. rewrite (dequiv_form _ _ Ea), (dequiv_form _ _ Eb).
  destruct Ea as [_ [_ Pa]]. destruct Eb as [_ [_ Pb]].
  destruct (subset_s (d_ids b) (d_ids a)) eqn:Hsub.
  - destruct (d_binop_perm_left op a b (d_rows a') (d_rows b') res Hsub Hb Pa Pb H) as [res' [H1 H2]].
    exists res'. split; [exact H1|]. 
    destruct (d_binop_matches_left _ _ _ _ Hsub Hb H) as [I1 [I2 _]].
    assert (uniq_keys (d_rows (mkD (d_ids b) (d_ms b) (d_rows b'))) = true) as Hb'
      by (simpl; rewrite <- (uniq_keys_perm _ _ Pb); exact Hb).
    destruct (d_binop_matches_left op (mkD (d_ids a) (d_ms a) (d_rows a')) (mkD (d_ids b) (d_ms b) (d_rows b')) res' Hsub Hb' H1)
      as [J1 [J2 _]].
    simpl in *. repeat split; congruence.
  - revert H. unfold d_binop. simpl. destruct (negb _); [discriminate|]. rewrite Hsub.
    destruct (subset_s (d_ids a) (d_ids b)) eqn:Hsub2; [|discriminate].
    intros H. apply bind_ok in H. destruct H as [l [Hl H]]. injection H as <-. simpl.
    destruct (mapM_perm _ _ _ _ Pb Hl) as [l' [Hl' Pl]].
    exists (mkD (d_ids b) (d_ms a) (flat_map (fun o => match o with Some r => [r] | None => [] end) l')). split.
    + erewrite mapM_ext_res; [rewrite Hl'; reflexivity|]. intros r. simpl.
      destruct (proj_key (d_ids b) (fst r) (d_ids a)); auto. rewrite (find_key_perm _ _ _ Ha Pa). reflexivity.
    + repeat split; simpl; auto. apply flat_some_perm. exact Pl.
Qed.

(* ---- set operators of the core language: one datapoint per key is preserved (alignment by name is injective on keys),
   and the result depends only on the SETS of datapoints of the operands *)
Lemma d_setop_wfd op a b r : d_setop op a b = Ok r -> wfd a -> wfd b -> wfd r.
Proof.
  intros H Ha Hb. destruct (d_setop_spec _ _ _ _ H) as [Hc [_ [_ [rb [Hrb Hr]]]]].
  destruct (set_compat_spec _ _ Hc) as [Hi [_ Hnd]]. unfold wfd in *. rewrite Hr.
  apply set_rows_uniq; [exact Ha|].
  apply (align_rows_uniq (d_ids b) (d_ms b) (d_ids a) (d_ms a) (d_rows b) rb Hnd); [intros n Hn; apply Hi; exact Hn | exact Hrb | exact Hb].
Qed.

Lemma d_setop_perm op a b a' b' r :
  wfd a -> wfd b -> dequiv a a' -> dequiv b b' ->
  d_setop op a b = Ok r -> exists r', d_setop op a' b' = Ok r' /\ dequiv r r'.
Proof.
  intros _ _ Ea Eb H. rewrite (dequiv_form _ _ Ea), (dequiv_form _ _ Eb).
  destruct Ea as [_ [_ Pa]]. destruct Eb as [_ [_ Pb]].
  unfold d_setop in *. unfold set_compat in *. simpl.
  destruct (negb _); [discriminate|]. apply bind_ok in H. destruct H as [rb [Hrb H]]. injection H as <-.
  destruct (mapM_perm _ _ _ _ Pb Hrb) as [rb' [Hrb' Prb]]. rewrite Hrb'. simpl.
  eexists. split; [reflexivity|]. repeat split; simpl; auto. apply set_rows_perm; assumption.
Qed.

(* ---- the composite theorem over the expression language (DSub excluded: see C33 notes) *)
Fixpoint no_sub (x : dexpr) : bool :=
  match x with
  | DVar _ => true
  | DBin _ a b | DSet _ a b => no_sub a && no_sub b
  | DMap a _ | DFilter a _ | DCalc a _ | DKeep a _ | DDrop a _ | DRename a _ => no_sub a
  | DSub _ _ => false
  end.

Definition env_equiv (e e' : denv) : Prop :=
  forall n, match dlook n e, dlook n e' with
            | Some d, Some d' => dequiv d d' /\ wfd d
            | None, None => True
            | _, _ => False
            end.

Lemma unary_step (f f' : dset -> res dset) :
  (forall d d' r, wfd d -> dequiv d d' -> f d = Ok r -> exists r', f' d' = Ok r' /\ dequiv r r' /\ wfd r) ->
  forall ra ra' r, (forall d, ra = Ok d -> exists d', ra' = Ok d' /\ dequiv d d' /\ wfd d) ->
  bind ra f = Ok r -> exists r', bind ra' f' = Ok r' /\ dequiv r r' /\ wfd r.
Proof.
  intros Hf ra ra' r Hra H. apply bind_ok in H. destruct H as [d [Hd H]].
  destruct (Hra d Hd) as [d' [Hd' [E W]]]. rewrite Hd'. simpl. eapply Hf; eauto.
Qed.

Theorem deval_perm x : no_sub x = true ->
  forall e e' r, env_equiv e e' -> deval e x = Ok r ->
  exists r', deval e' x = Ok r' /\ dequiv r r' /\ wfd r.
Proof.
  induction x as [n|op a IHa b IHb|op a IHa b IHb|a IH body|a IH c|a IH defs|a IH l|a IH l|a IH l|a IH l]; simpl; intros Hs e e' r Ee H;
    try discriminate.
  - specialize (Ee n). destruct (dlook n e) as [d|], (dlook n e') as [d'|]; try discriminate; try contradiction.
    injection H as <-. destruct Ee as [E W]. exists d'. auto.
  - apply andb_true_iff in Hs. destruct Hs as [Hsa Hsb].
    apply bind_ok in H. destruct H as [da [Hda H]]. apply bind_ok in H. destruct H as [db [Hdb H]].
    destruct (IHa Hsa e e' da Ee Hda) as [da' [Hda' [Ea Wa]]].
    destruct (IHb Hsb e e' db Ee Hdb) as [db' [Hdb' [Eb Wb]]].
    rewrite Hda', Hdb'. simpl.
    destruct (d_binop_perm op da db da' db' r Wa Wb Ea Eb H) as [r' [H1 H2]].
    exists r'. repeat split; auto; try apply H2. eapply d_binop_wfd; eauto.
  - apply andb_true_iff in Hs. destruct Hs as [Hsa Hsb].
    apply bind_ok in H. destruct H as [da [Hda H]]. apply bind_ok in H. destruct H as [db [Hdb H]].
    destruct (IHa Hsa e e' da Ee Hda) as [da' [Hda' [Ea Wa]]].
    destruct (IHb Hsb e e' db Ee Hdb) as [db' [Hdb' [Eb Wb]]].
    rewrite Hda', Hdb'. simpl.
    destruct (d_setop_perm op da db da' db' r Wa Wb Ea Eb H) as [r' [H1 H2]].
    exists r'. repeat split; auto; try apply H2. eapply d_setop_wfd; eauto.
  - eapply unary_step; [|intros d Hd; exact (IH Hs e e' d Ee Hd)|exact H].
    intros d d' r0 W E Hr. rewrite (dequiv_form _ _ E). destruct E as [_ [_ P]].
    destruct (d_map_perm d body (d_rows d') r0 P Hr) as [r' [H1 H2]]. exists r'. split; [exact H1|].
    destruct (d_map_spec _ _ _ Hr) as [I1 [I2 _]]. destruct (d_map_spec _ _ _ H1) as [J1 [J2 _]]. simpl in *.
    split; [repeat split; congruence | eapply d_map_wfd; eauto].
  - eapply unary_step; [|intros d Hd; exact (IH Hs e e' d Ee Hd)|exact H].
    intros d d' r0 W E Hr. rewrite (dequiv_form _ _ E). destruct E as [_ [_ P]].
    destruct (d_filter_perm d c (d_rows d') r0 P Hr) as [r' [H1 H2]]. exists r'. split; [exact H1|].
    destruct (d_filter_spec _ _ _ Hr) as [I1 [I2 _]]. destruct (d_filter_spec _ _ _ H1) as [J1 [J2 _]]. simpl in *.
    split; [repeat split; congruence | eapply d_filter_wfd; eauto].
  - eapply unary_step; [|intros d Hd; exact (IH Hs e e' d Ee Hd)|exact H].
    intros d d' r0 W E Hr. rewrite (dequiv_form _ _ E). destruct E as [_ [_ P]].
    destruct (d_calc_perm d defs (d_rows d') r0 P Hr) as [r' [H1 H2]]. exists r'. split; [exact H1|].
    destruct (d_calc_spec _ _ _ Hr) as [I1 [I2 _]]. destruct (d_calc_spec _ _ _ H1) as [J1 [J2 _]]. simpl in *.
    split; [repeat split; congruence | eapply d_calc_wfd; eauto].
  - eapply unary_step; [|intros d Hd; exact (IH Hs e e' d Ee Hd)|exact H].
    intros d d' r0 W E Hr. injection Hr as <-. rewrite (dequiv_form _ _ E). destruct E as [_ [_ P]].
    eexists. split; [reflexivity|]. split; [|apply d_project_wfd; exact W].
    repeat split; simpl; auto. apply (d_project_perm d _ _ P).
  - eapply unary_step; [|intros d Hd; exact (IH Hs e e' d Ee Hd)|exact H].
    intros d d' r0 W E Hr. injection Hr as <-. rewrite (dequiv_form _ _ E). destruct E as [_ [_ P]].
    eexists. split; [reflexivity|]. split; [|apply d_project_wfd; exact W].
    repeat split; simpl; auto. apply (d_project_perm d _ _ P).
  - eapply unary_step; [|intros d Hd; exact (IH Hs e e' d Ee Hd)|exact H].
    intros d d' r0 W E Hr. injection Hr as <-. rewrite (dequiv_form _ _ E). destruct E as [_ [_ P]].
    eexists. split; [reflexivity|]. split; [|apply d_rename_wfd; exact W].
    repeat split; simpl; auto.
Qed.

(* ---- C15: an executor that may reorder the datapoints of every intermediate result (parallel, non order-preserving
   execution, spilling, a different storage backend) is modelled by an arbitrary reordering oracle `w` applied after
   every operator. *)
Section Nondet.
  Variable w : dset -> dset.
  Hypothesis w_reorders : forall d, dequiv d (w d).

  Fixpoint deval_nd (e : denv) (x : dexpr) : res dset :=
    match x with
    | DVar n => match dlook n e with Some d => Ok (w d) | None => Err "1-2-2" end
    | DBin op a b => bind (deval_nd e a) (fun da => bind (deval_nd e b) (fun db => bind (d_binop op da db) (fun r => Ok (w r))))
    | DSet op a b => bind (deval_nd e a) (fun da => bind (deval_nd e b) (fun db => bind (d_setop op da db) (fun r => Ok (w r))))
    | DMap a body => bind (deval_nd e a) (fun d => bind (d_map d body) (fun r => Ok (w r)))
    | DFilter a c => bind (deval_nd e a) (fun d => bind (d_filter d c) (fun r => Ok (w r)))
    | DCalc a defs => bind (deval_nd e a) (fun d => bind (d_calc d defs) (fun r => Ok (w r)))
    | DKeep a l => bind (deval_nd e a) (fun d => Ok (w (d_keep d l)))
    | DDrop a l => bind (deval_nd e a) (fun d => Ok (w (d_drop d l)))
    | DRename a l => bind (deval_nd e a) (fun d => Ok (w (d_rename d l)))
    | DSub a l => bind (deval_nd e a) (fun d => Ok (w (d_sub d l)))
    end.

  Lemma dequiv_trans a b c : dequiv a b -> dequiv b c -> dequiv a c.
  Proof. intros [A1 [A2 A3]] [B1 [B2 B3]]. repeat split; try congruence. eapply perm_trans; eauto. Qed.

  Definition env_wf (e : denv) : Prop := forall n d, dlook n e = Some d -> wfd d.

  Lemma env_equiv_self e : env_wf e -> env_equiv e e.
  Proof. intros H n. destruct (dlook n e) as [d|] eqn:E; auto. split; [apply dequiv_refl | eapply H; eauto]. Qed.

  Theorem deval_nd_equiv x : no_sub x = true ->
    forall e r, env_wf e -> deval e x = Ok r ->
    exists r', deval_nd e x = Ok r' /\ dequiv r r' /\ wfd r.
  Proof.
    induction x as [n|op a IHa b IHb|op a IHa b IHb|a IH body|a IH c|a IH defs|a IH l|a IH l|a IH l|a IH l]; simpl; intros Hs e r We H;
      try discriminate.
    - destruct (dlook n e) as [d|] eqn:E; [|discriminate]. injection H as <-. exists (w d). split; auto. split; auto. eapply We; eauto.
    - apply andb_true_iff in Hs. destruct Hs as [Hsa Hsb].
      apply bind_ok in H. destruct H as [da [Hda H]]. apply bind_ok in H. destruct H as [db [Hdb H]].
      destruct (IHa Hsa e da We Hda) as [da' [Hda' [Ea Wa]]]. destruct (IHb Hsb e db We Hdb) as [db' [Hdb' [Eb Wb]]].
      rewrite Hda', Hdb'. simpl. destruct (d_binop_perm op da db da' db' r Wa Wb Ea Eb H) as [r' [H1 H2]].
      rewrite H1. simpl. exists (w r'). split; auto. split; [eapply dequiv_trans; eauto | eapply d_binop_wfd; eauto].
    - apply andb_true_iff in Hs. destruct Hs as [Hsa Hsb].
      apply bind_ok in H. destruct H as [da [Hda H]]. apply bind_ok in H. destruct H as [db [Hdb H]].
      destruct (IHa Hsa e da We Hda) as [da' [Hda' [Ea Wa]]]. destruct (IHb Hsb e db We Hdb) as [db' [Hdb' [Eb Wb]]].
      rewrite Hda', Hdb'. simpl. destruct (d_setop_perm op da db da' db' r Wa Wb Ea Eb H) as [r' [H1 H2]].
      rewrite H1. simpl. exists (w r'). split; auto. split; [eapply dequiv_trans; eauto | eapply d_setop_wfd; eauto].
    - apply bind_ok in H. destruct H as [d [Hd H]]. destruct (IH Hs e d We Hd) as [d' [Hd' [E W]]]. rewrite Hd'. simpl.
      rewrite (dequiv_form _ _ E). destruct E as [_ [_ P]].
      destruct (d_map_perm d body (d_rows d') r P H) as [r' [H1 H2]]. rewrite H1. simpl. exists (w r'). split; auto.
      destruct (d_map_spec _ _ _ H) as [I1 [I2 _]]. destruct (d_map_spec _ _ _ H1) as [J1 [J2 _]]. simpl in *.
      split; [eapply dequiv_trans; [|apply w_reorders]; repeat split; congruence | eapply d_map_wfd; eauto].
    - apply bind_ok in H. destruct H as [d [Hd H]]. destruct (IH Hs e d We Hd) as [d' [Hd' [E W]]]. rewrite Hd'. simpl.
      rewrite (dequiv_form _ _ E). destruct E as [_ [_ P]].
      destruct (d_filter_perm d c (d_rows d') r P H) as [r' [H1 H2]]. rewrite H1. simpl. exists (w r'). split; auto.
      destruct (d_filter_spec _ _ _ H) as [I1 [I2 _]]. destruct (d_filter_spec _ _ _ H1) as [J1 [J2 _]]. simpl in *.
      split; [eapply dequiv_trans; [|apply w_reorders]; repeat split; congruence | eapply d_filter_wfd; eauto].
    - apply bind_ok in H. destruct H as [d [Hd H]]. destruct (IH Hs e d We Hd) as [d' [Hd' [E W]]]. rewrite Hd'. simpl.
      rewrite (dequiv_form _ _ E). destruct E as [_ [_ P]].
      destruct (d_calc_perm d defs (d_rows d') r P H) as [r' [H1 H2]]. rewrite H1. simpl. exists (w r'). split; auto.
      destruct (d_calc_spec _ _ _ H) as [I1 [I2 _]]. destruct (d_calc_spec _ _ _ H1) as [J1 [J2 _]]. simpl in *.
      split; [eapply dequiv_trans; [|apply w_reorders]; repeat split; congruence | eapply d_calc_wfd; eauto].
    - apply bind_ok in H. destruct H as [d [Hd H]]. injection H as <-. destruct (IH Hs e d We Hd) as [d' [Hd' [E W]]]. rewrite Hd'. simpl.
      eexists. split; [reflexivity|]. split; [|apply d_project_wfd; exact W].
      eapply dequiv_trans; [|apply w_reorders]. rewrite (dequiv_form _ _ E). destruct E as [_ [_ P]].
      repeat split; simpl; auto. apply (d_project_perm d _ _ P).
    - apply bind_ok in H. destruct H as [d [Hd H]]. injection H as <-. destruct (IH Hs e d We Hd) as [d' [Hd' [E W]]]. rewrite Hd'. simpl.
      eexists. split; [reflexivity|]. split; [|apply d_project_wfd; exact W].
      eapply dequiv_trans; [|apply w_reorders]. rewrite (dequiv_form _ _ E). destruct E as [_ [_ P]].
      repeat split; simpl; auto. apply (d_project_perm d _ _ P).
    - apply bind_ok in H. destruct H as [d [Hd H]]. injection H as <-. destruct (IH Hs e d We Hd) as [d' [Hd' [E W]]]. rewrite Hd'. simpl.
      eexists. split; [reflexivity|]. split; [|apply d_rename_wfd; exact W].
      eapply dequiv_trans; [|apply w_reorders]. rewrite (dequiv_form _ _ E). destruct E as [_ [_ P]].
      repeat split; simpl; auto.
  Qed.
End Nondet.
