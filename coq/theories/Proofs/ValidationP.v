(* Lemmas about Model/Validation.v (C07): check, check_datapoint, check_hierarchy, hierarchy. *)
From Coq Require Import ZArith QArith String List Bool Permutation Lia.
Import ListNotations.
From VTL Require Import Base.Val Model.Table Model.Scalar Model.Expr Model.Validation Proofs.TableP Proofs.MonadP Proofs.ExprP.
Open Scope string_scope.
Open Scope list_scope.

(* =============================================================== generic helpers *)
Lemma is_false_iff v : is_false v = true <-> v = VBool false.
Proof. destruct v as [| | | |[]]; simpl; split; congruence. Qed.

Lemma err_if_false_false e : err_if_false (VBool false) e = e.
Proof. reflexivity. Qed.

Lemma err_if_false_other b e : b <> VBool false -> err_if_false b e = VNull.
Proof.
  intros H. unfold err_if_false. destruct (is_false b) eqn:E; [|reflexivity].
  apply is_false_iff in E. contradiction.
Qed.

(* errorcode / errorlevel carry the rule's (non-null) value exactly where the outcome is FALSE *)
Lemma err_if_false_iff b e : e <> VNull -> (err_if_false b e <> VNull <-> b = VBool false).
Proof.
  intros He. unfold err_if_false. destruct (is_false b) eqn:E.
  - apply is_false_iff in E. tauto.
  - split; [congruence|]. intros ->. discriminate.
Qed.

Lemma in_concat_iff {A} (l : list (list A)) x : In x (concat l) <-> exists y, In y l /\ In x y.
Proof. rewrite in_concat. split; intros [y H]; exists y; tauto. Qed.

Lemma flat_map_singleton {A B} (f : A -> list B) (g : A -> B) l : (forall x, f x = [g x]) -> flat_map f l = map g l.
Proof. intros H. induction l as [|x t IH]; [reflexivity|]. cbn [flat_map map]. rewrite H, IH. reflexivity. Qed.

Lemma filter_flat_map {A B} (p : B -> bool) (f : A -> list B) l :
  filter p (flat_map f l) = flat_map (fun x => filter p (f x)) l.
Proof. induction l as [|x t IH]; [reflexivity|]. cbn [flat_map]. rewrite filter_app, IH. reflexivity. Qed.

(* =============================================================== check *)
Definition imbv (imb : option dset) (k : list val) : val :=
  match imb_of imb k with Some v => v | None => VNull end.

Lemma d_check_gen_shape ku op imb ec el inv res :
  d_check_gen ku op imb ec el inv = Ok res ->
  d_ids res = d_ids op /\ d_ms res = CHECK_MS /\
  d_rows res = flat_map (fun r =>
               let b := first_val (snd r) in
               if inv && negb (is_false b) then [] else
               match imb_of imb (fst r) with
               | Some v => [check_row ec el (fst r) b v]
               | None => if ku then [check_row ec el (fst r) b VNull] else []
               end) (d_rows op).
Proof.
  unfold d_check_gen. destruct (d_ms op) as [|m [|m' t]]; try discriminate.
  destruct (match imb with Some _ => _ | None => false end); [discriminate|].
  intros H. injection H as <-. simpl. auto.
Qed.

(* invalid: exactly the datapoints of the operand whose boolean value is FALSE, with the rule's errorcode / errorlevel *)
Lemma check_invalid_exact op imb ec el res :
  d_check op imb ec el true = Ok res ->
  forall x, In x (d_rows res) <->
    exists r, In r (d_rows op) /\ first_val (snd r) = VBool false /\
              x = (fst r, [VBool false; imbv imb (fst r); ec; el]).
Proof.
  intros H x. destruct (d_check_gen_shape _ _ _ _ _ _ _ H) as [_ [_ ->]]. rewrite in_flat_map. split.
  - intros [r [Hr Hx]]. cbn zeta in Hx. cbn [andb] in Hx.
    destruct (is_false (first_val (snd r))) eqn:Eb; cbn [negb] in Hx; [|destruct Hx].
    apply is_false_iff in Eb. exists r. split; [exact Hr|]. split; [exact Eb|].
    unfold imbv. destruct (imb_of imb (fst r)); destruct Hx as [<-|[]]; rewrite Eb; reflexivity.
  - intros [r [Hr [Eb ->]]]. exists r. split; [exact Hr|]. cbn zeta. rewrite Eb. cbn.
    unfold imbv. destruct (imb_of imb (fst r)); left; reflexivity.
Qed.

(* all: one result datapoint per datapoint of the operand, in order, with the operand's boolean value *)
Lemma check_all_complete op imb ec el res :
  d_check op imb ec el false = Ok res ->
  d_rows res = map (fun r => check_row ec el (fst r) (first_val (snd r)) (imbv imb (fst r))) (d_rows op).
Proof.
  intros H. destruct (d_check_gen_shape _ _ _ _ _ _ _ H) as [_ [_ ->]].
  apply flat_map_singleton. intros r. cbn zeta. cbn [andb].
  unfold imbv. destruct (imb_of imb (fst r)); reflexivity.
Qed.

Lemma check_all_keys op imb ec el res :
  d_check op imb ec el false = Ok res -> map fst (d_rows res) = map fst (d_rows op).
Proof. intros H. rewrite (check_all_complete _ _ _ _ _ H), map_map. reflexivity. Qed.

(* every result datapoint, in either output and either variant: errorcode / errorlevel are the rule's values exactly where
   bool_var is FALSE, null elsewhere *)
Lemma check_row_shape ku op imb ec el inv res x :
  d_check_gen ku op imb ec el inv = Ok res -> In x (d_rows res) ->
  exists r i, In r (d_rows op) /\
    x = (fst r, [first_val (snd r); i; err_if_false (first_val (snd r)) ec; err_if_false (first_val (snd r)) el]).
Proof.
  intros H Hx. destruct (d_check_gen_shape _ _ _ _ _ _ _ H) as [_ [_ E]]. rewrite E in Hx.
  apply in_flat_map in Hx. destruct Hx as [r [Hr Hx]]. cbn zeta in Hx.
  destruct (inv && negb (is_false (first_val (snd r)))); [destruct Hx|].
  destruct (imb_of imb (fst r)) as [v|].
  - destruct Hx as [<-|[]]. exists r, v. auto.
  - destruct ku; [|destruct Hx]. destruct Hx as [<-|[]]. exists r, VNull. auto.
Qed.

Lemma check_invalid_is_filter_of_all ku op imb ec el r1 r2 :
  d_check_gen ku op imb ec el true = Ok r1 -> d_check_gen ku op imb ec el false = Ok r2 ->
  d_rows r1 = filter (fun x => is_false (first_val (snd x))) (d_rows r2).
Proof.
  intros H1 H2. destruct (d_check_gen_shape _ _ _ _ _ _ _ H1) as [_ [_ ->]].
  destruct (d_check_gen_shape _ _ _ _ _ _ _ H2) as [_ [_ ->]].
  rewrite filter_flat_map. apply flat_map_ext. intros r.
  cbn zeta. cbn [andb]. destruct (is_false (first_val (snd r))) eqn:Eb; cbn [negb].
  - destruct (imb_of imb (fst r)); [|destruct ku]; cbn; rewrite ?Eb; reflexivity.
  - destruct (imb_of imb (fst r)); [|destruct ku]; cbn; rewrite ?Eb; reflexivity.
Qed.

(* the engine follows the manual *)
Lemma check_impl_eq_spec op imb ec el inv : d_check_impl op imb ec el inv = d_check op imb ec el inv.
Proof. reflexivity. Qed.

(* the behaviour before the repair coincided with the manual's only when every datapoint of the operand has a partner *)
Lemma check_before_fix_eq_spec op imb ec el inv :
  (forall r, In r (d_rows op) -> imb_of imb (fst r) <> None) ->
  d_check_before_fix op imb ec el inv = d_check op imb ec el inv.
Proof.
  intros Hm. unfold d_check_before_fix, d_check, d_check_gen. destruct (d_ms op) as [|m [|m' t]]; try reflexivity.
  destruct (match imb with Some _ => _ | None => false end); [reflexivity|]. f_equal. f_equal.
  revert Hm. induction (d_rows op) as [|r t IH]; intros Hm; [reflexivity|].
  change (flat_map ?f (r :: t)) with (f r ++ flat_map f t).
  rewrite IH by (intros r' Hr'; apply Hm; right; exact Hr'). f_equal.
  specialize (Hm r (or_introl eq_refl)). cbn zeta. destruct (imb_of imb (fst r)); [reflexivity | contradiction].
Qed.

(* imbalance = left - right: check(A cmp B imbalance A - B) over mono-measure operands *)
Lemma pair_measures_single op m x n y l :
  pair_measures op [m] [x] [n] [y] = Ok l -> String.eqb m n = true -> exists v, binop_val op x y = Ok v /\ l = [v].
Proof.
  unfold pair_measures. cbn. intros H E. rewrite E in H.
  destruct (binop_val op x y) as [v|] eqn:Ev; cbn in H; [|discriminate]. injection H as <-. eauto.
Qed.

Lemma pair_measures_single_eq op m x y :
  pair_measures op [m] [x] [m] [y] = bind (binop_val op x y) (fun v => Ok [v]).
Proof.
  unfold pair_measures. cbn [combine mapM elook fst snd]. rewrite String.eqb_refl.
  destruct (binop_val op x y); reflexivity.
Qed.

Lemma check_imbalance_is_diff cmp a b o i ec el inv res m :
  d_ms a = [m] -> d_ms b = [m] ->
  subset_s (d_ids b) (d_ids a) = true -> uniq_keys (d_rows a) = true -> uniq_keys (d_rows b) = true ->
  (forall r, In r (d_rows a) -> exists x, snd r = [x]) -> (forall r, In r (d_rows b) -> exists y, snd r = [y]) ->
  d_binop cmp a b = Ok o -> d_binop Sub a b = Ok i ->
  d_check o (Some i) ec el inv = Ok res ->
  forall r, In r (d_rows res) ->
    exists ra rb k x y bv iv, In ra (d_rows a) /\ In rb (d_rows b) /\ fst r = fst ra /\
      proj_key (d_ids a) (fst ra) (d_ids b) = Some k /\ key_eqb k (fst rb) = true /\
      snd ra = [x] /\ snd rb = [y] /\
      binop_val cmp x y = Ok bv /\ binop_val Sub x y = Ok iv /\
      snd r = [bv; iv; err_if_false bv ec; err_if_false bv el].
Proof.
  intros Ma Mb Hsub Hua Hub Ha Hb Ho Hi H r Hr.
  destruct (d_binop_matches_left _ _ _ _ Hsub Hub Ho) as [Io [Mo So]].
  destruct (d_binop_matches_left _ _ _ _ Hsub Hub Hi) as [Ii [Mi Si]].
  destruct (check_row_shape _ _ _ _ _ _ _ _ H Hr) as [ro [iv [Hro ->]]].
  pose proof Hro as Hro'. apply So in Hro'. destruct Hro' as [ra [rb [k [ms [Hra [Hrb [Ek [He [Hms ->]]]]]]]]].
  destruct (Ha _ Hra) as [x Ex]. destruct (Hb _ Hrb) as [y Ey].
  rewrite Ma, Mb, Ex, Ey in Hms. destruct (pair_measures_single _ _ _ _ _ _ Hms (String.eqb_refl m)) as [bv [Hbv ->]].
  (* the imbalance value of this key *)
  assert (exists v, In (fst ra, [v]) (d_rows i) /\ binop_val Sub x y = Ok v) as [v [Hiv Hv]].
  { destruct (binop_val Sub x y) as [v|c] eqn:Ev.
    - exists v. split; [|reflexivity]. apply Si. exists ra, rb, k, [v]. repeat split; auto.
      rewrite Ma, Mb, Ex, Ey, pair_measures_single_eq, Ev. reflexivity.
    - exfalso. eapply (d_binop_error_if_pair_fails Sub a b ra rb k c); eauto.
      rewrite Ma, Mb, Ex, Ey, pair_measures_single_eq, Ev. reflexivity. }
  exists ra, rb, k, x, y, bv, v. cbn [fst snd first_val]. repeat split; auto.
  (* the row's imbalance is the value found under this key *)
  destruct (d_check_gen_shape _ _ _ _ _ _ _ H) as [_ [_ E]]. rewrite E in Hr.
  apply in_flat_map in Hr. destruct Hr as [r0 [Hr0 Hx]]. cbn zeta in Hx.
  destruct (inv && negb (is_false (first_val (snd r0)))); [destruct Hx|].
  assert (uniq_keys (d_rows i) = true) as Hui.
  { (* keys of i are keys of distinct rows of a *)
    clear -Si Hua Hi Hsub Hub.
    assert (forall r, In r (d_rows i) -> exists ra, In ra (d_rows a) /\ fst r = fst ra) as K.
    { intros r Hr. apply Si in Hr. destruct Hr as [ra [rb [k [ms [H1 [_ [_ [_ [_ ->]]]]]]]]]. eauto. }
    revert Hi. unfold d_binop. destruct (negb _); [discriminate|]. rewrite Hsub. intros Hi.
    apply bind_ok in Hi. destruct Hi as [l [Hl Hi]]. injection Hi as <-. cbn [d_rows] in *.
    clear K Si. revert l Hl. induction (d_rows a) as [|r t IH]; intros l Hl.
    - cbn in Hl. injection Hl as <-. reflexivity.
    - cbn [mapM] in Hl. apply bind_ok in Hl. destruct Hl as [y [Hy Hl]]. apply bind_ok in Hl. destruct Hl as [ys [Hys Hl]].
      injection Hl as <-. cbn [uniq_keys] in Hua. apply andb_true_iff in Hua. destruct Hua as [Hn Hut].
      cbn [flat_map]. rewrite uniq_keys_app. rewrite (IH Hut _ Hys).
      assert (forall z, In z (flat_map (fun o => match o with Some r => [r] | None => [] end) ys) -> exists rt, In rt t /\ fst z = fst rt) as Kt.
      { intros z Hz. apply flat_some_In in Hz. destruct (mapM_ok_inv _ _ _ Hys _ Hz) as [rt [Hrt Hf]]. exists rt. split; [exact Hrt|].
        destruct (proj_key (d_ids a) (fst rt) (d_ids b)); [|discriminate]. destruct (find_key l (d_rows b)); [|discriminate].
        apply bind_ok in Hf. destruct Hf as [ms [_ Hf]]. injection Hf as <-. reflexivity. }
      destruct y as [z|]; cbn; [|reflexivity]. rewrite andb_true_r.
      assert (fst z = fst r) as Ez.
      { destruct (proj_key (d_ids a) (fst r) (d_ids b)); [|discriminate]. destruct (find_key l (d_rows b)); [|discriminate].
        apply bind_ok in Hy. destruct Hy as [ms [_ Hy]]. injection Hy as <-. reflexivity. }
      rewrite Ez. apply negb_true_iff in Hn. apply negb_true_iff. apply has_key_false. intros z' Hz'.
      destruct (Kt _ Hz') as [rt [Hrt ->]]. rewrite has_key_false in Hn. apply Hn. exact Hrt. }
  assert (find_key (fst r0) (d_rows i) = Some (fst ra, [v]) \/ True) as _ by auto.
  cbn [imb_of] in Hx.
  destruct (find_key (fst r0) (d_rows i)) as [ri|] eqn:Ef.
  - destruct Hx as [Hx|[]]. unfold check_row in Hx. injection Hx as Hk Hb' Hi'.
    apply (find_key_spec _ _ _ Hui) in Ef. destruct Ef as [Hri Hke].
    assert (ri = (fst ra, [v])) as ->.
    { eapply uniq_keys_same_row; eauto. cbn [fst]. rewrite Hk in Hke. rewrite key_eqb_sym. exact Hke. }
    cbn [snd first_val] in Hi'. subst iv. reflexivity.
  - (* d_check keeps the datapoint with a null imbalance — but a partner exists, contradiction *)
    exfalso. apply find_key_none in Ef. rewrite has_key_false in Ef. specialize (Ef _ Hiv). cbn [fst] in Ef.
    destruct Hx as [Hx|[]]. unfold check_row in Hx. injection Hx as Hk _ _. rewrite Hk in Ef.
    rewrite key_eqb_refl in Ef. discriminate.
Qed.

(* =============================================================== check_datapoint *)
Lemma rule_bool_false_iff w t :
  rule_bool w t = VBool false <-> (w = None \/ w = Some (VBool true)) /\ t = VBool false.
Proof.
  destruct w as [[| | | |[]]|]; simpl; split; try (intros [[H|H] _]; discriminate); try discriminate; try tauto.
Qed.

(* a rule FAILS on a datapoint iff its antecedent (if any) is TRUE and its condition is FALSE *)
Lemma rule_fails_iff sig d rl r :
  rule_outcome sig d rl r = Ok (VBool false) <->
  exists e, sig_env sig (row_env d r) = Ok e /\ ceval e (r_then rl) = Ok (VBool false) /\
            match r_when rl with None => True | Some wc => ceval e wc = Ok (VBool true) end.
Proof.
  unfold rule_outcome. split.
  - intros H. apply bind_ok in H. destruct H as [e [He H]]. apply bind_ok in H. destruct H as [t [Ht H]].
    exists e. split; [exact He|]. destruct (r_when rl) as [wc|].
    + apply bind_ok in H. destruct H as [w [Hw H]].
      assert (H' : rule_bool (Some w) t = VBool false) by (injection H as H; exact H).
      apply rule_bool_false_iff in H'. destruct H' as [[H'|H'] ->]; [discriminate|]. injection H' as ->. auto.
    + injection H as H. cbn in H. subst t. auto.
  - intros [e [He [Ht Hw]]]. rewrite He. cbn [bind]. rewrite Ht. cbn [bind].
    destruct (r_when rl) as [wc|]; [rewrite Hw|]; reflexivity.
Qed.

(* a rule whose antecedent is FALSE holds (TRUE); a null antecedent gives a null outcome *)
Lemma rule_when_false sig d rl r e wc t :
  sig_env sig (row_env d r) = Ok e -> r_when rl = Some wc -> ceval e (r_then rl) = Ok t ->
  (ceval e wc = Ok (VBool false) -> rule_outcome sig d rl r = Ok (VBool true)) /\
  (ceval e wc = Ok VNull -> rule_outcome sig d rl r = Ok VNull).
Proof.
  intros He Hw Ht. unfold rule_outcome. rewrite He, Hw. cbn [bind]. rewrite Ht. cbn [bind].
  split; intros ->; reflexivity.
Qed.

Lemma dp_rule_rows_spec sig d o rl l :
  dp_rule_rows sig d o rl = Ok l ->
  (forall r, In r (d_rows d) -> exists b, rule_outcome sig d rl r = Ok b) /\
  forall x, In x l <-> exists r b, In r (d_rows d) /\ rule_outcome sig d rl r = Ok b /\ In x (dp_row o rl r b).
Proof.
  unfold dp_rule_rows. intros H. apply bind_ok in H. destruct H as [ll [Hll H]]. injection H as <-. split.
  - intros r Hr. destruct (mapM_ok_all _ _ _ Hll _ Hr) as [y [Hy _]]. apply bind_ok in Hy. destruct Hy as [b [Hb _]]. eauto.
  - intros x. rewrite in_concat_iff. split.
    + intros [y [Hy Hx]]. destruct (mapM_ok_inv _ _ _ Hll _ Hy) as [r [Hr Hf]]. apply bind_ok in Hf.
      destruct Hf as [b [Hb Hf]]. injection Hf as <-. eauto.
    + intros [r [b [Hr [Hb Hx]]]]. destruct (mapM_ok_all _ _ _ Hll _ Hr) as [y [Hy Hin]]. rewrite Hb in Hy. cbn in Hy.
      injection Hy as <-. eauto.
Qed.

(* every output: the result holds exactly the rows produced by (rule, datapoint) pairs; every pair is evaluated *)
Lemma dp_spec d sig rules o res :
  d_check_datapoint d sig rules o = Ok res ->
  d_ids res = d_ids d ++ ["ruleid"] /\ d_ms res = dp_ms (d_ms d) o /\
  (forall rl r, In rl rules -> In r (d_rows d) -> exists b, rule_outcome sig d rl r = Ok b) /\
  forall x, In x (d_rows res) <->
    exists rl r b, In rl rules /\ In r (d_rows d) /\ rule_outcome sig d rl r = Ok b /\ In x (dp_row o rl r b).
Proof.
  unfold d_check_datapoint. intros H. apply bind_ok in H. destruct H as [ll [Hll H]]. injection H as <-. cbn [d_ids d_ms d_rows].
  split; [reflexivity|]. split; [reflexivity|]. split.
  - intros rl r Hrl Hr. destruct (mapM_ok_all _ _ _ Hll _ Hrl) as [l [Hl _]].
    destruct (dp_rule_rows_spec _ _ _ _ _ Hl) as [Ht _]. auto.
  - intros x. rewrite in_concat_iff. split.
    + intros [l [Hl Hx]]. destruct (mapM_ok_inv _ _ _ Hll _ Hl) as [rl [Hrl Hf]].
      destruct (dp_rule_rows_spec _ _ _ _ _ Hf) as [_ Hs]. apply Hs in Hx. destruct Hx as [r [b [Hr [Hb Hx]]]].
      exists rl, r, b. auto.
    + intros [rl [r [b [Hrl [Hr [Hb Hx]]]]]]. destruct (mapM_ok_all _ _ _ Hll _ Hrl) as [l [Hl Hin]].
      exists l. split; [exact Hin|]. destruct (dp_rule_rows_spec _ _ _ _ _ Hl) as [_ Hs]. apply Hs. eauto.
Qed.

Lemma dp_invalid_exact d sig rules res :
  d_check_datapoint d sig rules OInvalid = Ok res ->
  forall x, In x (d_rows res) <->
    exists rl r, In rl rules /\ In r (d_rows d) /\ rule_outcome sig d rl r = Ok (VBool false) /\
                 x = (fst r ++ [VStr (r_name rl)], snd r ++ [r_ec rl; r_el rl]).
Proof.
  intros H x. destruct (dp_spec _ _ _ _ _ H) as [_ [_ [_ Hs]]]. rewrite Hs. split.
  - intros [rl [r [b [Hrl [Hr [Hb Hx]]]]]]. cbn in Hx. destruct (is_false b) eqn:Eb; [|destruct Hx].
    apply is_false_iff in Eb. subst b. destruct Hx as [<-|[]]. exists rl, r. auto.
  - intros [rl [r [Hrl [Hr [Hb ->]]]]]. exists rl, r, (VBool false). repeat split; auto. cbn. auto.
Qed.

Lemma dp_all_complete d sig rules res :
  d_check_datapoint d sig rules OAll = Ok res ->
  (forall rl r, In rl rules -> In r (d_rows d) -> exists b, rule_outcome sig d rl r = Ok b /\
     In (fst r ++ [VStr (r_name rl)], [b; err_if_false b (r_ec rl); err_if_false b (r_el rl)]) (d_rows res)) /\
  (forall x, In x (d_rows res) ->
     exists rl r b, In rl rules /\ In r (d_rows d) /\ rule_outcome sig d rl r = Ok b /\
       x = (fst r ++ [VStr (r_name rl)], [b; err_if_false b (r_ec rl); err_if_false b (r_el rl)])).
Proof.
  intros H. destruct (dp_spec _ _ _ _ _ H) as [_ [_ [Ht Hs]]]. split.
  - intros rl r Hrl Hr. destruct (Ht rl r Hrl Hr) as [b Hb]. exists b. split; [exact Hb|]. apply Hs.
    exists rl, r, b. repeat split; auto. cbn. auto.
  - intros x Hx. apply Hs in Hx. destruct Hx as [rl [r [b [Hrl [Hr [Hb Hx]]]]]]. cbn in Hx. destruct Hx as [<-|[]].
    exists rl, r, b. auto.
Qed.

Lemma concat_length_const {A} (ll : list (list A)) n : (forall l, In l ll -> List.length l = n) -> List.length (concat ll) = (List.length ll * n)%nat.
Proof.
  induction ll as [|l t IH]; intros H; [reflexivity|]. cbn [concat]. rewrite app_length.
  rewrite IH by (intros l' Hl'; apply H; simpl; auto). rewrite (H l) by (simpl; auto). reflexivity.
Qed.

Lemma mapM_Forall2_length {A B} (f : A -> res B) l ys : mapM f l = Ok ys -> List.length ys = List.length l.
Proof. apply mapM_length. Qed.

(* all / all_measures: exactly |datapoints| x |rules| result datapoints *)
Lemma dp_all_count d sig rules o res :
  o <> OInvalid -> d_check_datapoint d sig rules o = Ok res ->
  List.length (d_rows res) = (List.length rules * List.length (d_rows d))%nat.
Proof.
  intros Ho. unfold d_check_datapoint. intros H. apply bind_ok in H. destruct H as [ll [Hll H]]. injection H as <-. cbn [d_rows].
  rewrite (concat_length_const ll (List.length (d_rows d))).
  - rewrite (mapM_length _ _ _ Hll). reflexivity.
  - intros l Hl. destruct (mapM_ok_inv _ _ _ Hll _ Hl) as [rl [_ Hf]]. unfold dp_rule_rows in Hf.
    apply bind_ok in Hf. destruct Hf as [l2 [Hl2 Hf]]. injection Hf as <-.
    rewrite (concat_length_const l2 1%nat).
    + rewrite (mapM_length _ _ _ Hl2). lia.
    + intros y Hy. destruct (mapM_ok_inv _ _ _ Hl2 _ Hy) as [r [_ Hr]]. apply bind_ok in Hr. destruct Hr as [b [_ Hr]].
      injection Hr as <-. destruct o; [contradiction| |]; reflexivity.
Qed.

(* the invalid output is the FALSE part of the all output *)
Lemma dp_invalid_is_all_false d sig rules r1 r2 :
  d_check_datapoint d sig rules OInvalid = Ok r1 -> d_check_datapoint d sig rules OAll = Ok r2 ->
  forall k, (exists m, In (k, m) (d_rows r1)) <-> (exists e l, In (k, [VBool false; e; l]) (d_rows r2)).
Proof.
  intros H1 H2 k. destruct (dp_spec _ _ _ _ _ H2) as [_ [_ [_ Hs2]]]. split.
  - intros [m Hm]. apply (dp_invalid_exact _ _ _ _ H1) in Hm. destruct Hm as [rl [r [Hrl [Hr [Hb E]]]]]. injection E as -> ->.
    exists (r_ec rl), (r_el rl). apply Hs2. exists rl, r, (VBool false). repeat split; auto. cbn. auto.
  - intros [e [l Hx]]. apply Hs2 in Hx. destruct Hx as [rl [r [b [Hrl [Hr [Hb Hx]]]]]]. cbn in Hx. destruct Hx as [Hx|[]].
    injection Hx as <- -> _ _. eexists. apply (dp_invalid_exact _ _ _ _ H1). exists rl, r. eauto.
Qed.

(* =============================================================== hierarchical rulesets: the pivot *)
Lemma group_keys_sound pts g : In g (group_keys pts) -> exists p, In p pts /\ fst (fst p) = g.
Proof.
  induction pts as [|[[g0 c] v] t IH]; cbn [group_keys]; [intros []|].
  destruct (existsb (key_eqb g0) (group_keys t)).
  - intros H. destruct (IH H) as [p [Hp E]]. exists p. split; [right; exact Hp | exact E].
  - intros [<-|H].
    + exists (g0, c, v). split; [left; reflexivity | reflexivity].
    + destruct (IH H) as [p [Hp E]]. exists p. split; [right; exact Hp | exact E].
Qed.

(* every datapoint belongs to exactly one group of the pivot *)
Lemma group_keys_complete pts p : In p pts -> exists g, In g (group_keys pts) /\ key_eqb g (fst (fst p)) = true.
Proof.
  induction pts as [|[[g0 c] v] t IH]; cbn [group_keys]; [intros []|].
  intros [<-|Hp]; cbn [fst].
  - destruct (existsb (key_eqb g0) (group_keys t)) eqn:E.
    + apply existsb_exists in E. destruct E as [g [Hg He]]. exists g. split; [exact Hg|]. rewrite key_eqb_sym. exact He.
    + exists g0. split; [left; reflexivity | apply key_eqb_refl].
  - destruct (IH Hp) as [g [Hg He]]. exists g. split; [|exact He].
    destruct (existsb (key_eqb g0) (group_keys t)); [exact Hg | right; exact Hg].
Qed.

Lemma group_keys_distinct pts : ForallOrdPairs (fun a b => key_eqb a b = false) (group_keys pts).
Proof.
  induction pts as [|[[g0 c] v] t IH]; cbn [group_keys]; [constructor|].
  destruct (existsb (key_eqb g0) (group_keys t)) eqn:E; [exact IH|]. constructor; [|exact IH].
  apply Forall_forall. intros g Hg. destruct (key_eqb g0 g) eqn:E2; [|reflexivity].
  assert (existsb (key_eqb g0) (group_keys t) = true) by (apply existsb_exists; eauto). congruence.
Qed.

Lemma group_state_spec g pts c v :
  In (c, v) (group_state g pts) <-> exists gp, In (gp, c, v) pts /\ key_eqb g gp = true.
Proof.
  unfold group_state. rewrite in_map_iff. split.
  - intros [[[gp c'] v'] [E Hin]]. cbn [fst snd] in E. injection E as -> ->. apply filter_In in Hin. cbn [fst] in Hin.
    exists gp. tauto.
  - intros [gp [Hin He]]. exists (gp, c, v). split; [reflexivity|]. apply filter_In. cbn [fst]. tauto.
Qed.

(* =============================================================== check_hierarchy *)
Lemma chk_row_invalid m g st rl x :
  In x (chk_row m CInvalid g st rl) <->
  chk_applicable m st rl = true /\ chk_bool m st rl = VBool false /\
  x = (g ++ [VStr (h_left rl); VStr (h_name rl)],
       [item_val m st (h_left rl); chk_imbalance m st rl; h_ec rl; h_el rl]).
Proof.
  unfold chk_row. destruct (chk_applicable m st rl); cbn [negb].
  - destruct (is_false (chk_bool m st rl)) eqn:Eb.
    + apply is_false_iff in Eb. cbn [In]. split; [intros [<-|[]]; auto | intros [_ [_ ->]]; auto].
    + cbn [In]. split; [intros [] | intros [_ [Hb _]]]. apply is_false_iff in Hb. congruence.
  - cbn [In]. split; [intros [] | intros [H _]; discriminate].
Qed.

Lemma chk_row_all m g st rl x :
  In x (chk_row m CAll g st rl) <->
  chk_applicable m st rl = true /\
  x = (g ++ [VStr (h_left rl); VStr (h_name rl)],
       [chk_bool m st rl; chk_imbalance m st rl;
        err_if_false (chk_bool m st rl) (h_ec rl); err_if_false (chk_bool m st rl) (h_el rl)]).
Proof.
  unfold chk_row. destruct (chk_applicable m st rl); cbn [negb In].
  - split; [intros [<-|[]]; auto | intros [_ ->]; auto].
  - split; [intros [] | intros [H _]; discriminate].
Qed.

Lemma chk_row_all_measures m g st rl x :
  In x (chk_row m CAllMeasures g st rl) <->
  chk_applicable m st rl = true /\
  x = (g ++ [VStr (h_left rl); VStr (h_name rl)],
       [item_val m st (h_left rl); chk_bool m st rl; chk_imbalance m st rl;
        err_if_false (chk_bool m st rl) (h_ec rl); err_if_false (chk_bool m st rl) (h_el rl)]).
Proof.
  unfold chk_row. destruct (chk_applicable m st rl); cbn [negb In].
  - split; [intros [<-|[]]; auto | intros [_ ->]; auto].
  - split; [intros [] | intros [H _]; discriminate].
Qed.

Lemma d_check_hierarchy_spec d rules m o res :
  d_check_hierarchy d rules m o = Ok res ->
  exists me pts, d_ms d = [me] /\ hpoints d = Ok pts /\
    d_ids res = d_ids d ++ ["ruleid"] /\ d_ms res = chk_ms me o /\
    forall x, In x (d_rows res) <->
      exists rl g, In rl rules /\ In g (group_keys pts) /\ In x (chk_row m o g (group_state g pts) rl).
Proof.
  unfold d_check_hierarchy. destruct (d_ms d) as [|me [|m' t]]; try discriminate.
  intros H. apply bind_ok in H. destruct H as [pts [Hp H]]. injection H as <-. exists me, pts. cbn [d_ids d_ms d_rows].
  repeat split; auto.
  - intros Hx. apply in_flat_map in Hx. destruct Hx as [rl [Hrl Hx]]. apply in_flat_map in Hx. destruct Hx as [g [Hg Hx]]. eauto.
  - intros [rl [g [Hrl [Hg Hx]]]]. apply in_flat_map. exists rl. split; [exact Hrl|]. apply in_flat_map. eauto.
Qed.

(* the validation modes as conditions on the items of the rule *)
Lemma present_nn_iff st c : present_nn st c = true <-> exists v, elook c st = Some v /\ v <> VNull.
Proof.
  unfold present_nn. destruct (elook c st) as [v|].
  - destruct v; cbn; split; try (intros _; eexists; split; [reflexivity | discriminate]); try discriminate.
    + intros [v [E Hv]]. injection E as <-. contradiction.
    + intros _. reflexivity. 
    + intros _. reflexivity.
    + intros _. reflexivity.
    + intros _. reflexivity.
  - split; [discriminate | intros [v [E _]]; discriminate].
Qed.

Lemma present_iff st c : present st c = true <-> exists v, elook c st = Some v.
Proof. unfold present. destruct (elook c st); split; eauto; try discriminate. intros [v E]. discriminate. Qed.

Lemma applicable_non_null st rl :
  chk_applicable NonNull st rl = true <->
  forall c, In c (h_left rl :: hitems (h_right rl)) -> exists v, elook c st = Some v /\ v <> VNull.
Proof.
  unfold chk_applicable. rewrite forallb_forall. split; intros H c Hc; apply present_nn_iff; auto.
Qed.

Lemma applicable_non_zero st rl :
  chk_applicable NonZero st rl = true <->
  ~ (is_zero (item_val NonZero st (h_left rl)) = true /\ is_zero (heval NonZero st (h_right rl)) = true).
Proof.
  unfold chk_applicable. rewrite negb_true_iff, andb_false_iff.
  destruct (is_zero (item_val NonZero st (h_left rl))), (is_zero (heval NonZero st (h_right rl))); intuition congruence.
Qed.

Lemma applicable_partial m st rl : m = PartialNull \/ m = PartialZero ->
  (chk_applicable m st rl = true <->
   exists c v, In c (h_left rl :: hitems (h_right rl)) /\ elook c st = Some v /\ v <> VNull).
Proof.
  intros [-> | ->]; unfold chk_applicable; rewrite existsb_exists; split.
  - intros [c [Hc H]]. apply present_nn_iff in H. destruct H as [v H]. exists c, v. tauto.
  - intros [c [v [Hc H]]]. exists c. split; [exact Hc|]. apply present_nn_iff. eauto.
  - intros [c [Hc H]]. apply present_nn_iff in H. destruct H as [v H]. exists c, v. tauto.
  - intros [c [v [Hc H]]]. exists c. split; [exact Hc|]. apply present_nn_iff. eauto.
Qed.

Lemma applicable_always m st rl : m = AlwaysNull \/ m = AlwaysZero ->
  (chk_applicable m st rl = true <-> exists c v, In c (h_left rl :: hitems (h_right rl)) /\ elook c st = Some v).
Proof.
  intros [-> | ->]; unfold chk_applicable; rewrite existsb_exists; split.
  - intros [c [Hc H]]. apply present_iff in H. destruct H as [v H]. eauto.
  - intros [c [v [Hc H]]]. exists c. split; [exact Hc|]. apply present_iff. eauto.
  - intros [c [Hc H]]. apply present_iff in H. destruct H as [v H]. eauto.
  - intros [c [v [Hc H]]]. exists c. split; [exact Hc|]. apply present_iff. eauto.
Qed.

(* =============================================================== hierarchy *)
Definition hier_src (chain : bool) (st0 st : hstate) : hstate := if chain then st else st0.

Definition hier_step (m : hmode) (im : hinput) (chain : bool) (st0 st : hstate) (rl : hrule) : hstate :=
  if hier_applicable m (hier_src chain st0 st) rl
  then hier_update im st (h_left rl) (heval m (hier_src chain st0 st) (h_right rl)) else st.

Definition hier_out (m : hmode) (chain : bool) (st0 st : hstate) (rl : hrule) : list (string * val) :=
  let v := heval m (hier_src chain st0 st) (h_right rl) in
  if hier_applicable m (hier_src chain st0 st) rl && hier_emit m v then [(h_left rl, v)] else [].

Lemma hier_group_cons m im chain st0 st rl t :
  hier_group m im chain st0 st (rl :: t) =
  (fst (hier_group m im chain st0 (hier_step m im chain st0 st rl) t),
   hier_out m chain st0 st rl ++ snd (hier_group m im chain st0 (hier_step m im chain st0 st rl) t)).
Proof.
  cbn [hier_group]. unfold hier_step, hier_out, hier_src.
  destruct (hier_applicable m (if chain then st else st0) rl); cbn [andb].
  - destruct (hier_emit m (heval m (if chain then st else st0) (h_right rl))); reflexivity.
  - destruct (hier_group m im chain st0 st t); reflexivity.
Qed.

Lemma hier_group_app m im chain st0 pre : forall st post,
  hier_group m im chain st0 st (pre ++ post) =
  (fst (hier_group m im chain st0 (fst (hier_group m im chain st0 st pre)) post),
   snd (hier_group m im chain st0 st pre) ++ snd (hier_group m im chain st0 (fst (hier_group m im chain st0 st pre)) post)).
Proof.
  induction pre as [|rl t IH]; intros st post.
  - cbn [app hier_group fst snd]. destruct (hier_group m im chain st0 st post); reflexivity.
  - rewrite <- app_comm_cons, !hier_group_cons, IH. cbn [fst snd]. rewrite app_assoc. reflexivity.
Qed.

(* each computed item = its rule's expression over the state left by the rules evaluated before it *)
Lemma hier_group_value m im chain st0 rules : forall st c v,
  In (c, v) (snd (hier_group m im chain st0 st rules)) <->
  exists pre rl post, rules = pre ++ rl :: post /\ c = h_left rl /\
    hier_applicable m (hier_src chain st0 (fst (hier_group m im chain st0 st pre))) rl = true /\
    v = heval m (hier_src chain st0 (fst (hier_group m im chain st0 st pre))) (h_right rl) /\
    hier_emit m v = true.
Proof.
  induction rules as [|rl0 t IH]; intros st c v.
  - cbn [hier_group snd In]. split; [intros [] | intros [pre [rl [post [E _]]]]; destruct pre; discriminate].
  - rewrite hier_group_cons. cbn [snd]. rewrite in_app_iff, IH. split.
    + intros [H|[pre [rl [post [E [Hc [Ha [Hv He]]]]]]]].
      * unfold hier_out in H. destruct (hier_applicable m (hier_src chain st0 st) rl0) eqn:Ea; cbn [andb] in H; [|destruct H].
        destruct (hier_emit m (heval m (hier_src chain st0 st) (h_right rl0))) eqn:Ee; [|destruct H].
        destruct H as [H|[]]. injection H as <- <-. exists [], rl0, t. cbn [app hier_group fst]. auto.
      * exists (rl0 :: pre), rl, post. rewrite E. split; [reflexivity|]. split; [exact Hc|].
        rewrite hier_group_cons. cbn [fst]. auto.
    + intros [pre [rl [post [E [Hc [Ha [Hv He]]]]]]]. destruct pre as [|p pre].
      * cbn [app] in E. injection E as <- <-. left. cbn [hier_group fst] in Ha, Hv. unfold hier_out.
        rewrite Ha. cbn [andb]. rewrite <- Hv, He. left. rewrite Hc. reflexivity.
      * rewrite <- app_comm_cons in E. injection E as <- ->. right. exists pre, rl, post. split; [reflexivity|]. split; [exact Hc|].
        rewrite hier_group_cons in Ha, Hv. cbn [fst] in Ha, Hv. auto.
Qed.

(* the computed value is what the following rules read (input mode rule); other items are untouched *)
Lemma set_item_lookup c v st c' : elook c' (set_item c v st) = if String.eqb c' c then Some v else elook c' st.
Proof.
  induction st as [|[k x] t IH]; cbn [set_item elook].
  - destruct (String.eqb c' c); reflexivity.
  - destruct (String.eqb c k) eqn:E; cbn [elook].
    + apply String.eqb_eq in E. subst k. destruct (String.eqb c' c); reflexivity.
    + rewrite IH. destruct (String.eqb c' k) eqn:E2; [|reflexivity].
      apply String.eqb_eq in E2. subst k. destruct (String.eqb c' c) eqn:E3; [|reflexivity].
      apply String.eqb_eq in E3. subst c'. rewrite String.eqb_refl in E. discriminate.
Qed.

Lemma hier_update_lookup im st c v c' :
  elook c' (hier_update im st c v) =
  if String.eqb c' c then
    match im with
    | IRulePriority => if is_null v then (match elook c st with Some x => Some x | None => Some VNull end) else Some v
    | _ => Some v
    end
  else elook c' st.
Proof.
  destruct im; cbn [hier_update]; try apply set_item_lookup.
  destruct (is_null v); [|apply set_item_lookup]. unfold present.
  destruct (elook c st) as [x|] eqn:E.
  - destruct (String.eqb c' c) eqn:E2; [|reflexivity]. apply String.eqb_eq in E2. subst c'. exact E.
  - rewrite set_item_lookup. destruct (String.eqb c' c); reflexivity.
Qed.

Lemma hier_step_lookup m im chain st0 st rl c' :
  elook c' (hier_step m im chain st0 st rl) =
  if hier_applicable m (hier_src chain st0 st) rl && String.eqb c' (h_left rl) then
    let v := heval m (hier_src chain st0 st) (h_right rl) in
    match im with
    | IRulePriority => if is_null v then (match elook (h_left rl) st with Some x => Some x | None => Some VNull end) else Some v
    | _ => Some v
    end
  else elook c' st.
Proof.
  unfold hier_step. destruct (hier_applicable m (hier_src chain st0 st) rl); cbn [andb]; [|reflexivity].
  apply hier_update_lookup.
Qed.

Lemma hier_computed_spec m im chain pts rules x :
  In x (hier_computed m im chain pts rules) <->
  exists g c v, In g (group_keys pts) /\
    In (c, v) (snd (hier_group m im chain (group_state g pts) (group_state g pts) rules)) /\ x = (g ++ [VStr c], [v]).
Proof.
  unfold hier_computed. rewrite in_flat_map. split.
  - intros [g [Hg Hx]]. apply in_map_iff in Hx. destruct Hx as [[c v] [<- Hin]]. exists g, c, v. auto.
  - intros [g [c [v [Hg [Hin ->]]]]]. exists g. split; [exact Hg|]. apply in_map_iff. exists (c, v). auto.
Qed.

Lemma d_hierarchy_spec impl d rules m im o res :
  d_hierarchy_gen impl d rules m im o = Ok res ->
  exists pts, hpoints d = Ok pts /\ d_ids res = d_ids d /\ d_ms res = d_ms d /\
    let sorted := hr_sort (List.length (filter is_eq_rule rules)) (filter is_eq_rule rules) in
    let chain := match im with IDataset => impl | _ => true end in
    let comp := hier_computed m im chain pts sorted in
    (o = HComputed -> d_rows res = comp) /\
    (o = HAll -> forall x, In x (d_rows res) <-> In x comp \/ (In x (d_rows d) /\ has_key (fst x) comp = false)).
Proof.
  unfold d_hierarchy_gen. destruct (d_ms d) as [|me [|m' t]]; try discriminate.
  intros H. apply bind_ok in H. destruct H as [pts [Hp H]]. injection H as <-. exists pts. cbn [d_ids d_ms d_rows].
  repeat split; auto.
  - intros ->. reflexivity.
  - subst o. intros Hx. apply in_app_iff in Hx. destruct Hx as [Hx|Hx]; [right|left; exact Hx].
    apply filter_In in Hx. destruct Hx as [H1 H2]. apply negb_true_iff in H2. auto.
  - subst o. intros [Hx|[H1 H2]]; apply in_app_iff; [right; exact Hx | left]. apply filter_In. rewrite H2. auto.
Qed.

(* ---- the dependency order *)
Lemma take_first_spec {A} (f : A -> bool) l x l' :
  take_first f l = Some (x, l') -> f x = true /\ exists a b, l = a ++ x :: b /\ l' = a ++ b.
Proof.
  revert x l'. induction l as [|y t IH]; intros x l'; cbn [take_first]; [discriminate|].
  destruct (f y) eqn:E.
  - intros H. injection H as <- <-. split; [exact E|]. exists [], t. auto.
  - destruct (take_first f t) as [[z t']|]; [|discriminate]. intros H. injection H as <- <-.
    destruct (IH z t' eq_refl) as [Hz [a [b [-> ->]]]]. split; [exact Hz|]. exists (y :: a), b. auto.
Qed.

Lemma hr_sort_subperm n : forall l, exists rest, Permutation l (hr_sort n l ++ rest).
Proof.
  induction n as [|k IH]; intros l; cbn [hr_sort]; [exists l; reflexivity|].
  destruct (take_first (ready l) l) as [[x l']|] eqn:E; [|exists l; reflexivity].
  destruct (take_first_spec _ _ _ _ E) as [_ [a [b [-> ->]]]]. destruct (IH (a ++ b)) as [rest P].
  exists rest. cbn [app]. etransitivity; [symmetry; apply Permutation_middle|]. constructor. exact P.
Qed.

Lemma hr_sort_incl n l : incl (hr_sort n l) l.
Proof.
  destruct (hr_sort_subperm n l) as [rest P]. intros x Hx. eapply Permutation_in; [symmetry; exact P|].
  apply in_app_iff. auto.
Qed.

(* when no rule is left out (acyclic rule graph) the order is a permutation of the rules: each is evaluated exactly once *)
Lemma hr_sort_perm n l : List.length (hr_sort n l) = List.length l -> Permutation l (hr_sort n l).
Proof.
  intros H. destruct (hr_sort_subperm n l) as [rest P]. pose proof (Permutation_length P) as L.
  rewrite app_length in L. destruct rest; [rewrite app_nil_r in P; exact P | cbn in L; lia].
Qed.

(* no rule is evaluated before a (different) rule that computes one of its right-side items *)
Lemma hr_sort_deps n : forall l pre rl post,
  hr_sort n l = pre ++ rl :: post ->
  forall c r2, In c (hitems (h_right rl)) -> In r2 post -> h_left r2 = c -> h_name r2 = h_name rl.
Proof.
  induction n as [|k IH]; intros l pre rl post; cbn [hr_sort]; [destruct pre; discriminate|].
  destruct (take_first (ready l) l) as [[x l']|] eqn:E; [|destruct pre; discriminate].
  destruct (take_first_spec _ _ _ _ E) as [Hx [a [b [El El']]]]. intros H c r2 Hc Hr2 Hl.
  destruct pre as [|p pre]; cbn [app] in H; injection H as -> H.
  - subst post. assert (In r2 l) as Hin.
    { apply (hr_sort_incl k l') in Hr2. subst l l'. apply in_app_iff in Hr2. apply in_app_iff. cbn [In]. tauto. }
    unfold ready in Hx. rewrite forallb_forall in Hx. specialize (Hx c Hc). apply negb_true_iff in Hx.
    destruct (String.eqb (h_name r2) (h_name rl)) eqn:En; [apply String.eqb_eq; exact En|]. exfalso.
    assert (existsb (fun r0 => String.eqb c (h_left r0) && negb (String.eqb (h_name r0) (h_name rl))) l = true); [|congruence].
    apply existsb_exists. exists r2. split; [exact Hin|]. rewrite Hl, String.eqb_refl, En. reflexivity.
  - eapply IH; eauto.
Qed.

(* engine variant = manual variant except for input mode `dataset` *)
Lemma hierarchy_impl_eq_spec d rules m im o : im <> IDataset -> d_hierarchy_impl d rules m im o = d_hierarchy d rules m im o.
Proof. intros H. unfold d_hierarchy_impl, d_hierarchy, d_hierarchy_gen. destruct im; [reflexivity | reflexivity | contradiction]. Qed.

(* =============================================================== independence of the order of independent rules *)
(* states are compared by their content (the order in which items were inserted is immaterial) *)
Definition st_eq (a b : hstate) : Prop := forall c, elook c a = elook c b.

Lemma forallb_ext_in {A} (f g : A -> bool) l : (forall x, In x l -> f x = g x) -> forallb f l = forallb g l.
Proof.
  induction l as [|x t IH]; intros H; [reflexivity|]. cbn. rewrite (H x (or_introl eq_refl)), IH; [reflexivity|].
  intros y Hy. apply H. right. exact Hy.
Qed.
Lemma existsb_ext_in {A} (f g : A -> bool) l : (forall x, In x l -> f x = g x) -> existsb f l = existsb g l.
Proof.
  induction l as [|x t IH]; intros H; [reflexivity|]. cbn. rewrite (H x (or_introl eq_refl)), IH; [reflexivity|].
  intros y Hy. apply H. right. exact Hy.
Qed.

Lemma item_val_ext m a b c : elook c a = elook c b -> item_val m a c = item_val m b c.
Proof. unfold item_val. intros ->. reflexivity. Qed.

Lemma heval_ext m a b e : (forall c, In c (hitems e) -> elook c a = elook c b) -> heval m a e = heval m b e.
Proof.
  induction e as [c|x IHx y IHy|x IHx y IHy|x IHx|x IHx]; cbn [heval hitems]; intros H.
  - apply item_val_ext. apply H. left. reflexivity.
  - rewrite IHx, IHy; auto; intros c Hc; apply H; apply in_app_iff; auto.
  - rewrite IHx, IHy; auto; intros c Hc; apply H; apply in_app_iff; auto.
  - rewrite IHx; auto.
  - apply IHx; auto.
Qed.

Lemma hier_applicable_ext m a b rl :
  (forall c, In c (hitems (h_right rl)) -> elook c a = elook c b) -> hier_applicable m a rl = hier_applicable m b rl.
Proof.
  intros H. unfold hier_applicable.
  rewrite (existsb_ext_in (present a) (present b)) by (intros c Hc; unfold present; rewrite (H c Hc); reflexivity).
  f_equal. destruct m.
  - apply forallb_ext_in. intros c Hc. unfold present_nn. rewrite (H c Hc). reflexivity.
  - f_equal. apply forallb_ext_in. intros c Hc. rewrite (item_val_ext _ a b c (H c Hc)). reflexivity.
  - apply existsb_ext_in. intros c Hc. unfold present_nn. rewrite (H c Hc). reflexivity.
  - apply existsb_ext_in. intros c Hc. unfold present_nn. rewrite (H c Hc). reflexivity.
  - reflexivity.
  - reflexivity.
Qed.

Lemma hier_src_ext chain st0 a b : st_eq a b -> st_eq (hier_src chain st0 a) (hier_src chain st0 b).
Proof. intros H. unfold hier_src. destruct chain; [exact H | intros c; reflexivity]. Qed.

Lemma hier_step_ext m im chain st0 a b rl : st_eq a b -> st_eq (hier_step m im chain st0 a rl) (hier_step m im chain st0 b rl).
Proof.
  intros H c. rewrite !hier_step_lookup. pose proof (hier_src_ext chain st0 a b H) as Hs.
  rewrite (hier_applicable_ext m _ _ rl (fun c _ => Hs c)), (heval_ext m _ _ (h_right rl) (fun c _ => Hs c)), (H (h_left rl)), (H c).
  reflexivity.
Qed.

Lemma hier_out_ext m chain st0 a b rl : st_eq a b -> hier_out m chain st0 a rl = hier_out m chain st0 b rl.
Proof.
  intros H. unfold hier_out. pose proof (hier_src_ext chain st0 a b H) as Hs.
  rewrite (hier_applicable_ext m _ _ rl (fun c _ => Hs c)), (heval_ext m _ _ (h_right rl) (fun c _ => Hs c)). reflexivity.
Qed.

Lemma hier_group_ext m im chain st0 rules : forall a b, st_eq a b ->
  st_eq (fst (hier_group m im chain st0 a rules)) (fst (hier_group m im chain st0 b rules)) /\
  snd (hier_group m im chain st0 a rules) = snd (hier_group m im chain st0 b rules).
Proof.
  induction rules as [|rl t IH]; intros a b H; [split; [exact H | reflexivity]|].
  rewrite !hier_group_cons. cbn [fst snd].
  destruct (IH _ _ (hier_step_ext m im chain st0 a b rl H)) as [H1 H2]. split; [exact H1|].
  rewrite H2, (hier_out_ext m chain st0 a b rl H). reflexivity.
Qed.

(* two rules are independent when they compute different items and neither reads the item the other computes *)
Definition indep (r1 r2 : hrule) : Prop :=
  h_left r1 <> h_left r2 /\ ~ In (h_left r1) (hitems (h_right r2)) /\ ~ In (h_left r2) (hitems (h_right r1)).

Lemma step_keeps_items m im chain st0 st r1 r2 :
  ~ In (h_left r1) (hitems (h_right r2)) ->
  forall c, In c (hitems (h_right r2)) ->
    elook c (hier_src chain st0 (hier_step m im chain st0 st r1)) = elook c (hier_src chain st0 st).
Proof.
  intros Hn c Hc. unfold hier_src. destruct chain; [|reflexivity]. rewrite hier_step_lookup.
  destruct (String.eqb c (h_left r1)) eqn:E; [apply String.eqb_eq in E; subst c; contradiction|].
  rewrite andb_false_r. reflexivity.
Qed.

Lemma hier_step_commute m im chain st0 st r1 r2 : indep r1 r2 ->
  st_eq (hier_step m im chain st0 (hier_step m im chain st0 st r1) r2)
        (hier_step m im chain st0 (hier_step m im chain st0 st r2) r1) /\
  hier_out m chain st0 (hier_step m im chain st0 st r1) r2 = hier_out m chain st0 st r2 /\
  hier_out m chain st0 (hier_step m im chain st0 st r2) r1 = hier_out m chain st0 st r1.
Proof.
  intros [Hne [H12 H21]].
  pose proof (step_keeps_items m im chain st0 st r1 r2 H12) as K2.
  pose proof (step_keeps_items m im chain st0 st r2 r1 H21) as K1.
  split; [|split].
  - intros c. rewrite !hier_step_lookup.
    rewrite (hier_applicable_ext m _ _ r2 K2), (heval_ext m _ _ (h_right r2) K2).
    rewrite (hier_applicable_ext m _ _ r1 K1), (heval_ext m _ _ (h_right r1) K1).
    assert (String.eqb (h_left r2) (h_left r1) = false) as E21 by (apply String.eqb_neq; congruence).
    assert (String.eqb (h_left r1) (h_left r2) = false) as E12 by (apply String.eqb_neq; congruence).
    rewrite E21, E12, !andb_false_r.
    destruct (String.eqb c (h_left r2)) eqn:Ec2, (String.eqb c (h_left r1)) eqn:Ec1; rewrite ?andb_false_r, ?andb_true_r; try reflexivity.
    apply String.eqb_eq in Ec2. apply String.eqb_eq in Ec1. exfalso. congruence.
  - unfold hier_out. rewrite (hier_applicable_ext m _ _ r2 K2), (heval_ext m _ _ (h_right r2) K2). reflexivity.
  - unfold hier_out. rewrite (hier_applicable_ext m _ _ r1 K1), (heval_ext m _ _ (h_right r1) K1). reflexivity.
Qed.

(* swapping two adjacent independent rules changes neither the computed datapoints nor the final state *)
Lemma hier_group_swap m im chain st0 st pre r1 r2 post : indep r1 r2 ->
  st_eq (fst (hier_group m im chain st0 st (pre ++ r1 :: r2 :: post)))
        (fst (hier_group m im chain st0 st (pre ++ r2 :: r1 :: post))) /\
  Permutation (snd (hier_group m im chain st0 st (pre ++ r1 :: r2 :: post)))
              (snd (hier_group m im chain st0 st (pre ++ r2 :: r1 :: post))).
Proof.
  intros Hi. rewrite !hier_group_app. cbn [fst snd]. set (s1 := fst (hier_group m im chain st0 st pre)).
  rewrite !hier_group_cons. cbn [fst snd].
  destruct (hier_step_commute m im chain st0 s1 r1 r2 Hi) as [Hs [Ho2 Ho1]].
  destruct (hier_group_ext m im chain st0 post _ _ Hs) as [Hf Hsn]. split; [exact Hf|].
  rewrite Ho2, Ho1, Hsn. apply Permutation_app_head. rewrite !app_assoc. apply Permutation_app_tail. apply Permutation_app_comm.
Qed.
