From Coq Require Import ZArith String List Bool Permutation.
Import ListNotations.
From VTL Require Import Base.Val Model.Table Model.SetOps Proofs.TableP.

(* ---------- intersect / setdiff / symdiff : membership characterisations *)
Lemma intersect_spec a rest r :
  In r (intersect (a :: rest)) <-> In r a /\ forall d, In d rest -> has_key (fst r) d = true.
Proof. unfold intersect. rewrite filter_In, forallb_forall. tauto. Qed.

Lemma setdiff_spec a b r : In r (setdiff a b) <-> In r a /\ has_key (fst r) b = false.
Proof. unfold setdiff. rewrite filter_In, negb_true_iff. tauto. Qed.

Lemma symdiff_spec a b r :
  In r (symdiff a b) <-> (In r a /\ has_key (fst r) b = false) \/ (In r b /\ has_key (fst r) a = false).
Proof. unfold symdiff. rewrite in_app_iff, !setdiff_spec. tauto. Qed.

Lemma intersect_uniq a rest : uniq_keys a = true -> uniq_keys (intersect (a :: rest)) = true.
Proof. apply uniq_keys_filter. Qed.

Lemma setdiff_uniq a b : uniq_keys a = true -> uniq_keys (setdiff a b) = true.
Proof. apply uniq_keys_filter. Qed.

Lemma symdiff_uniq a b : uniq_keys a = true -> uniq_keys b = true -> uniq_keys (symdiff a b) = true.
Proof.
  intros Ha Hb. unfold symdiff. rewrite uniq_keys_app, !setdiff_uniq by assumption. simpl.
  apply forallb_forall. intros r Hr. apply setdiff_spec in Hr. destruct Hr as [Hr Hn].
  rewrite negb_true_iff. destruct (has_key (fst r) (setdiff b a)) eqn:E; auto.
  apply has_key_filter in E. congruence.
Qed.

(* the key sets: a key is in the result exactly when the operator says so *)
Lemma intersect_keys a rest k :
  has_key k (intersect (a :: rest)) = has_key k a && forallb (has_key k) rest.
Proof.
  destruct (has_key k (intersect (a :: rest))) eqn:E.
  - apply has_key_In in E. destruct E as [r [Hr He]]. apply intersect_spec in Hr. destruct Hr as [Ha Hall].
    symmetry. apply andb_true_iff. split.
    + apply has_key_In. eauto.
    + apply forallb_forall. intros d Hd. rewrite (has_key_congr _ _ _ He). auto.
  - symmetry. destruct (has_key k a) eqn:Ea; auto. simpl.
    destruct (forallb (has_key k) rest) eqn:Ef; auto. exfalso.
    apply has_key_In in Ea. destruct Ea as [r [Hr He]].
    assert (has_key k (intersect (a :: rest)) = true); [|congruence].
    apply has_key_In. exists r. split; auto. apply intersect_spec. split; auto.
    intros d Hd. rewrite forallb_forall in Ef. rewrite <- (has_key_congr _ _ _ He). auto.
Qed.

Lemma setdiff_keys a b k : has_key k (setdiff a b) = has_key k a && negb (has_key k b).
Proof.
  destruct (has_key k (setdiff a b)) eqn:E.
  - apply has_key_In in E. destruct E as [r [Hr He]]. apply setdiff_spec in Hr. destruct Hr as [Ha Hn].
    symmetry. apply andb_true_iff. split; [apply has_key_In; eauto|].
    rewrite (has_key_congr _ _ _ He), Hn. reflexivity.
  - symmetry. destruct (has_key k a) eqn:Ea; auto. simpl. destruct (has_key k b) eqn:Eb; auto. exfalso.
    apply has_key_In in Ea. destruct Ea as [r [Hr He]].
    assert (has_key k (setdiff a b) = true); [|congruence].
    apply has_key_In. exists r. split; auto. apply setdiff_spec. split; auto.
    rewrite <- (has_key_congr _ _ _ He). exact Eb.
Qed.

Lemma symdiff_keys a b k : has_key k (symdiff a b) = xorb (has_key k a) (has_key k b).
Proof.
  unfold symdiff. rewrite has_key_app, !setdiff_keys.
  destruct (has_key k a), (has_key k b); reflexivity.
Qed.

(* ---------- union *)
Lemma union_step_keys acc d k : has_key k (union_step acc d) = has_key k acc || has_key k d.
Proof.
  unfold union_step. rewrite has_key_app. destruct (has_key k acc) eqn:Ea; simpl; auto.
  destruct (has_key k d) eqn:Ed.
  - apply has_key_In in Ed. destruct Ed as [r [Hr He]]. apply has_key_In. exists r. split; auto.
    apply filter_In. split; auto. rewrite <- (has_key_congr _ _ _ He), Ea. reflexivity.
  - destruct (has_key k (filter _ d)) eqn:E; auto. apply has_key_filter in E. congruence.
Qed.

Lemma fold_union_keys ops acc k :
  has_key k (fold_left union_step ops acc) = has_key k acc || existsb (has_key k) ops.
Proof.
  revert acc. induction ops as [|d t IH]; intros acc; simpl; [rewrite orb_false_r; reflexivity|].
  rewrite IH, union_step_keys, orb_assoc. reflexivity.
Qed.

(* one datapoint per key present in any operand *)
Lemma union_keys ops k : has_key k (union ops) = existsb (has_key k) ops.
Proof. unfold union. rewrite fold_union_keys. reflexivity. Qed.

Lemma union_step_uniq acc d : uniq_keys acc = true -> uniq_keys d = true -> uniq_keys (union_step acc d) = true.
Proof.
  intros Ha Hd. unfold union_step. rewrite uniq_keys_app, Ha, (uniq_keys_filter _ _ Hd). simpl.
  apply forallb_forall. intros r Hr. rewrite negb_true_iff.
  destruct (has_key (fst r) (filter _ d)) eqn:E; auto.
  apply has_key_In in E. destruct E as [r' [Hr' He]]. apply filter_In in Hr'. destruct Hr' as [_ Hn].
  rewrite negb_true_iff in Hn. rewrite key_eqb_sym in He.
  rewrite (has_key_congr _ _ _ He), (has_key_self _ _ Hr) in Hn. discriminate.
Qed.

Lemma fold_union_uniq ops acc :
  uniq_keys acc = true -> forallb uniq_keys ops = true -> uniq_keys (fold_left union_step ops acc) = true.
Proof.
  revert acc. induction ops as [|d t IH]; intros acc Ha Ho; simpl; auto.
  simpl in Ho. apply andb_true_iff in Ho. destruct Ho as [Hd Ht].
  apply IH; auto. apply union_step_uniq; auto.
Qed.

Lemma union_uniq ops : forallb uniq_keys ops = true -> uniq_keys (union ops) = true.
Proof. apply fold_union_uniq. reflexivity. Qed.

(* which datapoint: r is in the union iff it comes from an operand d such that no EARLIER operand has its key *)
Lemma fold_union_In ops acc r :
  In r (fold_left union_step ops acc) <->
  In r acc \/ (has_key (fst r) acc = false /\
               exists pre d post, ops = pre ++ d :: post /\ In r d /\ forall d', In d' pre -> has_key (fst r) d' = false).
Proof.
  revert acc. induction ops as [|d t IH]; intros acc; simpl.
  - split; [auto|]. intros [H|[_ [pre [d [post [H _]]]]]]; auto. destruct pre; discriminate.
  - rewrite IH. unfold union_step at 1. rewrite in_app_iff, filter_In, negb_true_iff. split.
    + intros [[H|[Hd Hn]]|[Hn [pre [d' [post [Heq [Hin Hpre]]]]]]].
      * auto.
      * right. split; auto. exists [], d, t. simpl. repeat split; auto. intros ? [].
      * rewrite union_step_keys in Hn. apply orb_false_iff in Hn. destruct Hn as [Hna Hnd].
        right. split; auto. exists (d :: pre), d', post. simpl. split; [congruence|]. split; auto.
        intros x [Hx|Hx]; subst; auto.
    + intros [H|[Hn [pre [d' [post [Heq [Hin Hpre]]]]]]]; auto.
      destruct pre as [|p pre]; simpl in Heq; injection Heq as -> ->.
      * left. right. auto.
      * right. split.
        -- rewrite union_step_keys, Hn. simpl. apply Hpre. simpl. auto.
        -- exists pre, d', post. split; auto. split; auto. intros x Hx. apply Hpre. simpl. auto.
Qed.

Lemma union_spec ops r :
  In r (union ops) <->
  exists pre d post, ops = pre ++ d :: post /\ In r d /\ forall d', In d' pre -> has_key (fst r) d' = false.
Proof.
  unfold union. rewrite fold_union_In. simpl. split.
  - intros [[]|[_ H]]. exact H.
  - intros H. right. split; [reflexivity | exact H].
Qed.

(* ---------- the engine's formulation (first physical row of the concatenation) coincides with the specification
   when each operand is well-formed *)
Lemma has_key_cons k (r : list val * list val) l : has_key k (r :: l) = key_eqb k (fst r) || has_key k l.
Proof. reflexivity. Qed.

Lemma first_per_key_ext seen seen' rows :
  (forall k, has_key k seen = has_key k seen') -> first_per_key seen rows = first_per_key seen' rows.
Proof.
  revert seen seen'. induction rows as [|r t IH]; intros seen seen' H; simpl; auto.
  rewrite <- H. destruct (has_key (fst r) seen); [apply IH; exact H|].
  f_equal. apply IH. intros k. rewrite !has_key_cons, H. reflexivity.
Qed.

Lemma first_per_key_uniq seen d :
  uniq_keys d = true -> first_per_key seen d = filter (fun r => negb (has_key (fst r) seen)) d.
Proof.
  revert seen. induction d as [|r t IH]; intros seen Hu; simpl; auto.
  simpl in Hu. apply andb_true_iff in Hu. destruct Hu as [Hn Hu]. rewrite negb_true_iff in Hn.
  destruct (has_key (fst r) seen) eqn:E; simpl; [apply IH; exact Hu|].
  f_equal. rewrite IH by exact Hu. apply filter_ext_in. intros x Hx.
  rewrite has_key_cons.
  destruct (key_eqb (fst x) (fst r)) eqn:Ex; simpl; auto.
  exfalso. rewrite key_eqb_sym in Ex. assert (has_key (fst r) t = true) by (apply has_key_In; eauto). congruence.
Qed.

Lemma first_per_key_app seen a b :
  first_per_key seen (a ++ b) = first_per_key seen a ++ first_per_key (first_per_key seen a ++ seen) b.
Proof.
  revert seen. induction a as [|r t IH]; intros seen; simpl; auto.
  destruct (has_key (fst r) seen) eqn:E; [apply IH|].
  simpl. f_equal. rewrite IH. f_equal. apply first_per_key_ext. intros k.
  rewrite has_key_app, !has_key_cons, has_key_app.
  destruct (key_eqb k (fst r)), (has_key k (first_per_key (r :: seen) t)), (has_key k seen); reflexivity.
Qed.

Lemma union_concat_fold ops acc :
  forallb uniq_keys ops = true ->
  acc ++ first_per_key acc (concat ops) = fold_left union_step ops acc.
Proof.
  revert acc. induction ops as [|d t IH]; intros acc Hu; simpl; [apply app_nil_r|].
  simpl in Hu. apply andb_true_iff in Hu. destruct Hu as [Hd Ht].
  rewrite first_per_key_app, (first_per_key_uniq _ _ Hd), app_assoc.
  fold (union_step acc d). rewrite <- IH by exact Ht. f_equal.
  apply first_per_key_ext. intros k. unfold union_step. rewrite !has_key_app. apply orb_comm.
Qed.

Lemma union_concat_is_union ops : forallb uniq_keys ops = true -> union_concat ops = union ops.
Proof. intros H. unfold union_concat, union. rewrite <- (union_concat_fold ops [] H). reflexivity. Qed.

(* ---------- results depend only on the SET of rows of each operand *)
Lemma has_key_fun_perm a a' : Permutation a a' -> forall k, has_key k a = has_key k a'.
Proof. intros P k. apply has_key_perm. exact P. Qed.

Lemma intersect_perm a a' rest rest' :
  Permutation a a' -> Forall2 (@Permutation _) rest rest' ->
  Permutation (intersect (a :: rest)) (intersect (a' :: rest')).
Proof.
  intros Pa Pr. unfold intersect. apply filter_ext_perm; auto. intros r.
  induction Pr as [|d d' t t' Pd Pt IH]; simpl; auto. rewrite IH, (has_key_perm _ _ _ Pd). reflexivity.
Qed.

Lemma setdiff_perm a a' b b' : Permutation a a' -> Permutation b b' -> Permutation (setdiff a b) (setdiff a' b').
Proof.
  intros Pa Pb. unfold setdiff. apply filter_ext_perm; auto. intros r. rewrite (has_key_perm _ _ _ Pb). reflexivity.
Qed.

Lemma symdiff_perm a a' b b' : Permutation a a' -> Permutation b b' -> Permutation (symdiff a b) (symdiff a' b').
Proof. intros Pa Pb. unfold symdiff. apply Permutation_app; apply setdiff_perm; auto. Qed.

Lemma union_step_perm acc acc' d d' :
  Permutation acc acc' -> Permutation d d' -> Permutation (union_step acc d) (union_step acc' d').
Proof.
  intros Pa Pd. unfold union_step. apply Permutation_app; auto.
  apply filter_ext_perm; auto. intros r. rewrite (has_key_perm _ _ _ Pa). reflexivity.
Qed.

Lemma fold_union_perm ops ops' acc acc' :
  Permutation acc acc' -> Forall2 (@Permutation _) ops ops' ->
  Permutation (fold_left union_step ops acc) (fold_left union_step ops' acc').
Proof.
  intros Pa Po. revert acc acc' Pa. induction Po as [|d d' t t' Pd Pt IH]; intros acc acc' Pa; simpl; auto.
  apply IH. apply union_step_perm; auto.
Qed.

Lemma union_perm ops ops' : Forall2 (@Permutation _) ops ops' -> Permutation (union ops) (union ops').
Proof. intros H. unfold union. apply fold_union_perm; auto. Qed.

(* ---------- n-ary union / intersect are the left folds of the binary forms: the text union(A, B, C) is faithfully
   translated by the left-nested binary nodes of the core language (Model/Expr.v: DSet) *)
Lemma filter_all_true {A} (f : A -> bool) l : (forall x, f x = true) -> filter f l = l.
Proof. intros H. induction l as [|x t IH]; simpl; auto. rewrite H, IH. reflexivity. Qed.

Lemma filter_filter {A} (f g : A -> bool) l : filter g (filter f l) = filter (fun x => f x && g x) l.
Proof.
  induction l as [|x t IH]; simpl; auto. destruct (f x); simpl; [destruct (g x); simpl; congruence | exact IH].
Qed.

Lemma union_single a : union [a] = a.
Proof. unfold union, union_step. simpl. apply filter_all_true. reflexivity. Qed.

Lemma union_binary a b : union [a; b] = union_step a b.
Proof. unfold union. simpl. change (union_step [] a) with (union [a]). rewrite union_single. reflexivity. Qed.

Lemma fold_union_step_binary rest acc :
  fold_left union_step rest acc = fold_left (fun x d => union [x; d]) rest acc.
Proof. revert acc. induction rest as [|d t IH]; intros acc; simpl; auto. rewrite union_binary. apply IH. Qed.

Theorem union_left_nested a rest : union (a :: rest) = fold_left (fun acc d => union [acc; d]) rest a.
Proof.
  unfold union at 1. simpl. change (union_step [] a) with (union [a]). rewrite union_single.
  apply fold_union_step_binary.
Qed.

Lemma intersect_binary a b : intersect [a; b] = filter (fun r => has_key (fst r) b) a.
Proof. unfold intersect. apply filter_ext. intros r. simpl. apply andb_true_r. Qed.

Theorem intersect_left_nested a rest : intersect (a :: rest) = fold_left (fun acc d => intersect [acc; d]) rest a.
Proof.
  revert a. induction rest as [|d t IH]; intros a; cbn [fold_left].
  - unfold intersect. apply filter_all_true. reflexivity.
  - rewrite <- IH, intersect_binary. unfold intersect. rewrite filter_filter. reflexivity.
Qed.

(* the three-operand instances, as written in scripts *)
Corollary union_three a b c : union [a; b; c] = union [union [a; b]; c].
Proof. rewrite (union_left_nested a [b; c]). reflexivity. Qed.
Corollary intersect_three a b c : intersect [a; b; c] = intersect [intersect [a; b]; c].
Proof. rewrite (intersect_left_nested a [b; c]). reflexivity. Qed.
