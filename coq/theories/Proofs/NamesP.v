(* C29: the case-insensitive catalog of Model/Names.v characterised exactly.  Proofs only. *)
From Coq Require Import String Ascii List Bool.
Import ListNotations.
From VTL Require Import Base.Val Model.Scalar Model.Names.

Lemma same_upto_case_refl a : same_upto_case a a = true.
Proof. unfold same_upto_case. apply String.eqb_refl. Qed.

Lemma eqb_same_upto_case a b : String.eqb a b = true -> same_upto_case a b = true.
Proof. intros H. apply String.eqb_eq in H. subst. apply same_upto_case_refl. Qed.

(* the catalog refuses a column list exactly when two of its names are equal up to case *)
Lemma has_ci_dup_iff cols :
  has_ci_dup cols = true <->
  exists pre a mid b post, cols = (pre ++ a :: mid ++ b :: post)%list /\ same_upto_case a b = true.
Proof.
  split.
  - induction cols as [|n t IH]; simpl; intros H; [discriminate|].
    apply orb_true_iff in H. destruct H as [H|H].
    + apply existsb_exists in H. destruct H as [b [Hb Hs]].
      apply in_split in Hb. destruct Hb as [mid [post ->]].
      exists [], n, mid, b, post. split; [reflexivity | exact Hs].
    + destruct (IH H) as [pre [a [mid [b [post [-> Hs]]]]]].
      exists (n :: pre), a, mid, b, post. split; [reflexivity | exact Hs].
  - intros [pre [a [mid [b [post [-> Hs]]]]]].
    induction pre as [|p pre IH]; simpl.
    + apply orb_true_iff. left. apply existsb_exists. exists b.
      split; [apply in_or_app; right; left; reflexivity | exact Hs].
    + rewrite IH. apply orb_true_r.
Qed.

(* exact duplicates collide in the catalog too: the catalog refuses at least what the specification refuses *)
Lemma has_dup_ci cols : has_dup cols = true -> has_ci_dup cols = true.
Proof.
  induction cols as [|n t IH]; simpl; intros H; [discriminate|].
  apply orb_true_iff in H. apply orb_true_iff. destruct H as [H|H].
  - left. apply existsb_exists in H. destruct H as [b [Hb He]].
    apply existsb_exists. exists b. split; [exact Hb | apply eqb_same_upto_case; exact He].
  - right. apply IH. exact H.
Qed.

(* … and on structures WITHOUT two names equal up to case the catalog behaves exactly like the specification store *)
Lemma catalog_agrees_without_case_variants cols :
  has_ci_dup cols = false -> create_table_ci cols = create_table_exact cols.
Proof.
  intros H. unfold create_table_ci, create_table_exact. rewrite H.
  destruct (has_dup cols) eqn:E; [|reflexivity].
  apply has_dup_ci in E. congruence.
Qed.

Lemma catalog_error_only_on_case_collision cols :
  create_table_ci cols = CatalogError ->
  exists pre a mid b post, cols = (pre ++ a :: mid ++ b :: post)%list /\ same_upto_case a b = true.
Proof.
  unfold create_table_ci. destruct (has_ci_dup cols) eqn:E; [|discriminate].
  intros _. apply has_ci_dup_iff. exact E.
Qed.
