(* Proofs/RegexP.v — the derivative matcher of Model/Regex.v decides the denotational language of a regex
   (for every regex and every string: induction, no bound). *)
From Coq Require Import Ascii String List Bool Arith Lia.
Import ListNotations.
From VTL Require Import Model.Regex.

Inductive lang : re -> str -> Prop :=
| LEps : lang REps []
| LChr c : lang (RChr c) [c]
| LCls neg rs c : cls_mem neg rs c = true -> lang (RCls neg rs) [c]
| LCat a b s t : lang a s -> lang b t -> lang (RCat a b) (s ++ t)
| LAltL a b s : lang a s -> lang (RAlt a b) s
| LAltR a b s : lang b s -> lang (RAlt a b) s
| LStar0 a : lang (RStar a) []
| LStarS a s t : lang a s -> lang (RStar a) t -> lang (RStar a) (s ++ t).

Lemma nullable_lang : forall r, nullable r = true <-> lang r [].
Proof.
  induction r; simpl; split; intro H; try discriminate; try (now constructor).
  - inversion H.
  - inversion H.
  - inversion H.
  - apply andb_true_iff in H. destruct H as [Ha Hb].
    change (@nil ascii) with (@nil ascii ++ []). constructor; [apply IHr1 | apply IHr2]; assumption.
  - inversion H; subst. apply app_eq_nil in H0. destruct H0; subst.
    apply andb_true_iff; split; [apply IHr1 | apply IHr2]; assumption.
  - apply orb_true_iff in H. destruct H; [apply LAltL, IHr1 | apply LAltR, IHr2]; assumption.
  - apply orb_true_iff. inversion H; subst; [left; apply IHr1 | right; apply IHr2]; assumption.
Qed.

Lemma mkcat_lang : forall a b s, lang (mkcat a b) s <-> lang (RCat a b) s.
Proof.
  intros a b s. unfold mkcat.
  destruct a; destruct b; try tauto;
    try (split; intro H; [inversion H | inversion H; subst; match goal with X : lang REmp _ |- _ => inversion X end]; fail).
  all: try (split; intro H;
            [ change s with ([] ++ s); constructor; [constructor | exact H]
            | inversion H; subst; match goal with X : lang REps _ |- _ => inversion X; subst end; simpl; assumption ]).
Qed.

Lemma mkalt_lang : forall a b s, lang (mkalt a b) s <-> lang (RAlt a b) s.
Proof.
  intros a b s. unfold mkalt.
  destruct a; destruct b; try tauto;
    try (split; intro H; [now apply LAltR | inversion H; subst; [match goal with X : lang REmp _ |- _ => inversion X end | assumption]]; fail);
    try (split; intro H; [now apply LAltL | inversion H; subst; [assumption | match goal with X : lang REmp _ |- _ => inversion X end]]; fail).
Qed.

(* a non-empty word of a* splits into a non-empty first factor *)
Lemma star_cons : forall a c s, lang (RStar a) (c :: s) ->
  exists s1 s2, s = s1 ++ s2 /\ lang a (c :: s1) /\ lang (RStar a) s2.
Proof.
  intros a c s H. remember (RStar a) as r eqn:Er. remember (c :: s) as w eqn:Ew.
  revert a c s Er Ew. induction H; intros; try discriminate.
  inversion Er; subst. destruct s as [|c' s'].
  - simpl in Ew. subst. eapply IHlang2; reflexivity.
  - simpl in Ew. inversion Ew; subst. exists s', t. auto.
Qed.

Lemma deriv_lang : forall r c s, lang (deriv c r) s <-> lang r (c :: s).
Proof.
  induction r; intros c s; simpl.
  - split; intro H; inversion H.
  - split; intro H; inversion H.
  - destruct (Ascii.eqb c c0) eqn:E.
    + apply Ascii.eqb_eq in E. subst. split; intro H; inversion H; subst; constructor.
    + split; intro H; [inversion H|]. inversion H; subst. rewrite Ascii.eqb_refl in E. discriminate.
  - destruct (cls_mem neg ranges c) eqn:E.
    + split; intro H; inversion H; subst; [now constructor | constructor].
    + split; intro H; [inversion H|]. inversion H; subst. congruence.
  - destruct (nullable r1) eqn:N.
    + rewrite mkalt_lang. split; intro H.
      * inversion H; subst.
        -- apply mkcat_lang in H2. inversion H2; subst. apply IHr1 in H3.
           change (c :: s0 ++ t) with ((c :: s0) ++ t). now constructor.
        -- apply IHr2 in H2. change (c :: s) with ([] ++ c :: s). constructor; [now apply nullable_lang | assumption].
      * inversion H; subst. destruct s0 as [|c' s0'].
        -- simpl in H1. subst. apply LAltR. now apply IHr2.
        -- simpl in H1. inversion H1; subst. apply LAltL. apply mkcat_lang. constructor; [now apply IHr1 | assumption].
    + rewrite mkcat_lang. split; intro H.
      * inversion H; subst. apply IHr1 in H2. change (c :: s0 ++ t) with ((c :: s0) ++ t). now constructor.
      * inversion H; subst. destruct s0 as [|c' s0'].
        -- apply nullable_lang in H2. congruence.
        -- simpl in H1. inversion H1; subst. constructor; [now apply IHr1 | assumption].
  - rewrite mkalt_lang. split; intro H.
    + inversion H; subst; [apply LAltL, IHr1 | apply LAltR, IHr2]; assumption.
    + inversion H; subst; [apply LAltL, IHr1 | apply LAltR, IHr2]; assumption.
  - rewrite mkcat_lang. split; intro H.
    + inversion H; subst. apply IHr in H2. change (c :: s0 ++ t) with ((c :: s0) ++ t). now constructor.
    + apply star_cons in H. destruct H as (s1 & s2 & E & H1 & H2). subst. constructor; [now apply IHr | assumption].
Qed.

Theorem matches_iff_lang : forall s r, matches r s = true <-> lang r s.
Proof.
  induction s as [|c s IH]; intro r; simpl.
  - apply nullable_lang.
  - rewrite IH. apply deriv_lang.
Qed.

(* consequences used by the loader proofs *)
Lemma matches_alt : forall a b s, matches (RAlt a b) s = matches a s || matches b s.
Proof.
  intros. apply eq_true_iff_eq. rewrite orb_true_iff, !matches_iff_lang.
  split; intro H; [inversion H; auto | destruct H; [now apply LAltL | now apply LAltR]].
Qed.

Lemma matches_emp : forall s, matches REmp s = false.
Proof. induction s; simpl; auto. Qed.

Lemma matches_eps : forall s, matches REps s = match s with [] => true | _ => false end.
Proof. destruct s; simpl; auto. apply matches_emp. Qed.
