(* Proofs/RegexP.v — the derivative matcher of Model/Regex.v decides the denotational language of a regex
   (for every regex and every string: induction, no bound). *)
From Coq Require Import Ascii String List Bool Arith Lia.
Import ListNotations.
From VTL Require Import Model.Regex.

Inductive lang : re -> str -> Prop :=
| LEps : lang REps []
| LChr c : lang (RChr c) [c]
| LCls neg rs c : cls_mem neg rs c = true -> lang (RCls neg rs) [c]
| LCat a b s t : lang a s -> lang b t -> lang (RCat a b) (s ++ t)
| LAltL a b s : lang a s -> lang (RAlt a b) s
| LAltR a b s : lang b s -> lang (RAlt a b) s
| LStar0 a : lang (RStar a) []
| LStarS a s t : lang a s -> lang (RStar a) t -> lang (RStar a) (s ++ t).

Ltac inv H := inversion H; subst; clear H.
Ltac app_nil := match goal with X : _ ++ _ = [] |- _ => apply app_eq_nil in X; destruct X; subst end.

Lemma nullable_lang : forall r, nullable r = true <-> lang r [].
Proof.
  induction r; simpl; split; intro H; try discriminate; try (now constructor).
  - inv H.
  - inv H.
  - inv H.
  - apply andb_true_iff in H. destruct H as [Ha Hb].
    change (@nil ascii) with (@nil ascii ++ []). constructor; [apply IHr1 | apply IHr2]; assumption.
  - inv H. app_nil. apply andb_true_iff; split; [apply IHr1 | apply IHr2]; assumption.
  - apply orb_true_iff in H. destruct H; [apply LAltL, IHr1 | apply LAltR, IHr2]; assumption.
  - apply orb_true_iff. inv H; [left; apply IHr1 | right; apply IHr2]; assumption.
Qed.

Lemma lang_emp : forall s, ~ lang REmp s.
Proof. intros s H. inv H. Qed.
Lemma lang_eps : forall s, lang REps s -> s = [].
Proof. intros s H. now inv H. Qed.
Lemma cat_emp_l : forall b s, ~ lang (RCat REmp b) s.
Proof. intros b s H. inv H. match goal with X : lang REmp _ |- _ => inv X end. Qed.
Lemma cat_emp_r : forall a s, ~ lang (RCat a REmp) s.
Proof. intros a s H. inv H. match goal with X : lang REmp _ |- _ => inv X end. Qed.
Lemma cat_eps_l : forall b s, lang (RCat REps b) s <-> lang b s.
Proof.
  intros b s; split; intro H.
  - inv H. match goal with X : lang REps _ |- _ => inv X end. assumption.
  - change s with ([] ++ s). constructor; [constructor | assumption].
Qed.

Lemma mkcat_lang : forall a b s, lang (mkcat a b) s <-> lang (RCat a b) s.
Proof.
  intros a b s.
  destruct a; try (simpl; split; intro H; [now apply lang_emp in H | now apply cat_emp_l in H]).
  all: destruct b; simpl; try tauto;
    try (split; intro H; [now apply lang_emp in H | now apply cat_emp_r in H]);
    try (symmetry; apply cat_eps_l).
Qed.

Lemma alt_emp_l : forall b s, lang (RAlt REmp b) s <-> lang b s.
Proof. intros; split; intro H; [inv H; [match goal with X : lang REmp _ |- _ => inv X end | assumption] | now apply LAltR]. Qed.
Lemma alt_emp_r : forall a s, lang (RAlt a REmp) s <-> lang a s.
Proof. intros; split; intro H; [inv H; [assumption | match goal with X : lang REmp _ |- _ => inv X end] | now apply LAltL]. Qed.

Lemma mkalt_lang : forall a b s, lang (mkalt a b) s <-> lang (RAlt a b) s.
Proof.
  intros a b s.
  destruct a; try (simpl; symmetry; apply alt_emp_l).
  all: destruct b; simpl; try tauto; try (symmetry; apply alt_emp_r).
Qed.

(* a non-empty word of a* splits into a non-empty first factor *)
Lemma star_cons : forall a c s, lang (RStar a) (c :: s) ->
  exists s1 s2, s = s1 ++ s2 /\ lang a (c :: s1) /\ lang (RStar a) s2.
Proof.
  intros a c s H. remember (RStar a) as r eqn:Er. remember (c :: s) as w eqn:Ew.
  revert a c s Er Ew. induction H; intros; try discriminate.
  inversion Er; subst. destruct s as [|c' s'].
  - simpl in Ew. subst. eapply IHlang2; reflexivity.
  - simpl in Ew. inversion Ew; subst. exists s', t. auto.
Qed.

Lemma cat_cons : forall a b c s, lang (RCat a b) (c :: s) ->
  (exists s1 s2, s = s1 ++ s2 /\ lang a (c :: s1) /\ lang b s2) \/ (lang a [] /\ lang b (c :: s)).
Proof.
  intros a b c s H. inv H.
  match goal with X : ?u ++ ?v = c :: s |- _ => destruct u as [|c' u']; simpl in X end.
  - subst. right. split; assumption.
  - match goal with X : _ :: _ = _ :: _ |- _ => inversion X; subst end. left. eauto.
Qed.

Lemma deriv_lang : forall r x s, lang (deriv x r) s <-> lang r (x :: s).
Proof.
  induction r; intros x s; simpl.
  - split; intro H; inv H.
  - split; intro H; inv H.
  - destruct (Ascii.eqb x c) eqn:E.
    + apply Ascii.eqb_eq in E. subst. split; intro H; inv H; constructor.
    + split; intro H; [inv H|]. inv H. rewrite Ascii.eqb_refl in E. discriminate.
  - destruct (cls_mem neg ranges x) eqn:E.
    + split; intro H; inv H; [now constructor | constructor].
    + split; intro H; [inv H|]. inv H. congruence.
  - destruct (nullable r1) eqn:N.
    + rewrite mkalt_lang. split; intro H.
      * inv H.
        -- match goal with X : lang (mkcat _ _) _ |- _ => apply mkcat_lang in X; inv X end.
           match goal with X : lang (deriv _ r1) _ |- _ => apply IHr1 in X end.
           match goal with |- lang _ (x :: ?u ++ ?v) => change (x :: u ++ v) with ((x :: u) ++ v) end. now constructor.
        -- match goal with X : lang (deriv _ r2) _ |- _ => apply IHr2 in X end.
           change (x :: s) with ([] ++ x :: s). constructor; [now apply nullable_lang | assumption].
      * apply cat_cons in H. destruct H as [(s1 & s2 & E & H1 & H2) | [H1 H2]].
        -- subst. apply LAltL. apply mkcat_lang. constructor; [now apply IHr1 | assumption].
        -- apply LAltR. now apply IHr2.
    + rewrite mkcat_lang. split; intro H.
      * inv H. match goal with X : lang (deriv _ r1) _ |- _ => apply IHr1 in X end.
        match goal with |- lang _ (x :: ?u ++ ?v) => change (x :: u ++ v) with ((x :: u) ++ v) end. now constructor.
      * apply cat_cons in H. destruct H as [(s1 & s2 & E & H1 & H2) | [H1 H2]].
        -- subst. constructor; [now apply IHr1 | assumption].
        -- apply nullable_lang in H1. congruence.
  - rewrite mkalt_lang. split; intro H.
    + inv H; [apply LAltL, IHr1 | apply LAltR, IHr2]; assumption.
    + inv H; [apply LAltL, IHr1 | apply LAltR, IHr2]; assumption.
  - rewrite mkcat_lang. split; intro H.
    + inv H. match goal with X : lang (deriv _ r) _ |- _ => apply IHr in X end.
      match goal with |- lang _ (x :: ?u ++ ?v) => change (x :: u ++ v) with ((x :: u) ++ v) end. now constructor.
    + apply star_cons in H. destruct H as (s1 & s2 & E & H1 & H2). subst. constructor; [now apply IHr | assumption].
Qed.

Theorem matches_iff_lang : forall s r, matches r s = true <-> lang r s.
Proof.
  induction s as [|c s IH]; intro r; simpl.
  - apply nullable_lang.
  - rewrite IH. apply deriv_lang.
Qed.

(* consequences used by the loader proofs *)
Lemma matches_alt : forall a b s, matches (RAlt a b) s = matches a s || matches b s.
Proof.
  intros. apply eq_true_iff_eq. rewrite orb_true_iff, !matches_iff_lang.
  split; intro H; [inversion H; auto | destruct H; [now apply LAltL | now apply LAltR]].
Qed.

Lemma matches_emp : forall s, matches REmp s = false.
Proof. induction s; simpl; auto. Qed.

Lemma matches_eps : forall s, matches REps s = match s with [] => true | _ => false end.
Proof. destruct s; simpl; auto. apply matches_emp. Qed.
