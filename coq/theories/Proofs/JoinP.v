(* Proofs about Model/Join.v (C04). *)
From Coq Require Import ZArith QArith String List Bool Ascii Permutation Arith Lia.
Import ListNotations.
From VTL Require Import Base.Val Model.Table Model.Scalar Model.Expr Model.Join Proofs.TableP Proofs.MonadP Proofs.ExprP.
Open Scope nat_scope.
Open Scope string_scope.
Open Scope list_scope.

(* =============================================================== generic list toolkit *)
Lemma Forall2_map_r {A B C} (P : A -> C -> Prop) (f : B -> C) l1 l2 :
  Forall2 P l1 (map f l2) <-> Forall2 (fun a b => P a (f b)) l1 l2.
Proof.
  revert l1. induction l2 as [|b t IH]; intros l1; simpl; split; intros H; inversion H; subst; constructor; auto; apply IH; auto.
Qed.

Lemma Forall2_length {A B} (P : A -> B -> Prop) l1 l2 : Forall2 P l1 l2 -> length l1 = length l2.
Proof. induction 1; simpl; congruence. Qed.

(* ---------- the n-ary product *)
Lemma in_product {A} (ls : list (list A)) (x : list A) :
  In x (product ls) <-> Forall2 (fun a l => In a l) x ls.
Proof.
  revert x. induction ls as [|l t IH]; intros x; simpl.
  - split; [intros [<-|[]]; constructor | intros H; inversion H; auto].
  - rewrite in_flat_map. split.
    + intros [a [Ha Hx]]. apply in_map_iff in Hx. destruct Hx as [y [<- Hy]]. constructor; [exact Ha | apply IH; exact Hy].
    + intros H. inversion H as [|a l' y t' Ha Hy]; subst. exists a. split; [exact Ha|].
      apply in_map_iff. exists y. split; [reflexivity | apply IH; exact Hy].
Qed.

Lemma product_length {A} (ls : list (list A)) :
  length (product ls) = fold_right (fun l n => length l * n) 1 ls.
Proof.
  induction ls as [|l t IH]; simpl; [reflexivity|]. rewrite <- IH. clear IH.
  induction l as [|a l IHl]; simpl; [reflexivity|]. rewrite app_length, map_length, IHl. reflexivity.
Qed.

Lemma NoDup_app_disj {A} (a b : list A) :
  NoDup a -> NoDup b -> (forall x, In x a -> ~ In x b) -> NoDup (a ++ b).
Proof.
  induction a as [|x t IH]; intros Ha Hb Hd; simpl; [exact Hb|].
  inversion Ha; subst. constructor.
  - rewrite in_app_iff. intros [H|H]; [contradiction | eapply Hd; simpl; eauto].
  - apply IH; auto. intros y Hy. apply Hd. simpl; auto.
Qed.

Lemma NoDup_flat_map_disjoint {A B} (f : A -> list B) l :
  NoDup l -> (forall x, In x l -> NoDup (f x)) ->
  (forall x y b, In x l -> In y l -> In b (f x) -> In b (f y) -> x = y) ->
  NoDup (flat_map f l).
Proof.
  induction l as [|a t IH]; intros Hn Hf Hd; simpl; [constructor|].
  inversion Hn as [|? ? Hna Hnt]; subst.
  apply NoDup_app_disj.
  - apply Hf. simpl; auto.
  - apply IH; auto.
    + intros x Hx. apply Hf. simpl; auto.
    + intros x y b Hx Hy. apply Hd; simpl; auto.
  - intros b Hb Hb'. apply in_flat_map in Hb'. destruct Hb' as [y [Hy Hby]].
    assert (a = y) by (eapply Hd; simpl; eauto). subst. contradiction.
Qed.

Lemma product_NoDup {A} (ls : list (list A)) : Forall (@NoDup A) ls -> NoDup (product ls).
Proof.
  induction 1 as [|l t Hl _ IH]; simpl; [repeat constructor; auto|].
  apply NoDup_flat_map_disjoint; auto.
  - intros x _. apply FinFun.Injective_map_NoDup; [intros u v E; congruence | exact IH].
  - intros x y b _ _ Hx Hy. apply in_map_iff in Hx. apply in_map_iff in Hy.
    destruct Hx as [u [<- _]]. destruct Hy as [v [E _]]. congruence.
Qed.

Lemma flat_map_perm_ext {A B} (f g : A -> list B) l :
  (forall x, In x l -> Permutation (f x) (g x)) -> Permutation (flat_map f l) (flat_map g l).
Proof.
  induction l as [|a t IH]; intros H; simpl; [constructor|].
  apply Permutation_app; [apply H; simpl; auto | apply IH; intros x Hx; apply H; simpl; auto].
Qed.

Lemma product_perm {A} (ls ls' : list (list A)) :
  Forall2 (@Permutation A) ls ls' -> Permutation (product ls) (product ls').
Proof.
  induction 1 as [|l l' t t' Hl _ IH]; simpl; [reflexivity|].
  eapply perm_trans.
  - apply Permutation_flat_map. exact Hl.
  - apply flat_map_perm_ext. intros x _. apply Permutation_map. exact IH.
Qed.

(* =============================================================== what d_join returns *)
Lemma d_join_ok k us ops res :
  d_join k us ops = Ok res ->
  let hs := map o_hdr ops in
  res = join_with (combos k us hs (map o_rows ops)) k us hs.
Proof.
  unfold d_join. intros H. apply bind_ok in H. destruct H as [u [_ H]]. injection H as <-. reflexivity.
Qed.

Lemma join_with_rows cbs k us hs :
  d_rows (join_with cbs k us hs) = map (render hs (cols (jcols k us hs) hs)) cbs.
Proof. reflexivity. Qed.

(* =============================================================== inner join *)
(* the combinations of an inner join: one datapoint of each operand, agreeing on the join keys — nothing else *)
Lemma Forall2_some (cb : list (option (list val * list val))) rowss :
  Forall2 (fun a b => In a (map Some b)) cb rowss <->
  Forall2 (fun x rows => exists r : list val * list val, x = Some r /\ In r rows) cb rowss.
Proof.
  split; intros H; induction H as [|x rows cb' rowss' Hx _ IH]; constructor; auto.
  - apply in_map_iff in Hx. destruct Hx as [r [<- Hr]]. eauto.
  - destruct Hx as [r [-> Hr]]. apply in_map. exact Hr.
Qed.

Lemma inner_combos_spec us hs rowss cb :
  In cb (inner_combos us hs rowss) <->
  Forall2 (fun x rows => exists r, x = Some r /\ In r rows) cb rowss /\ agree us hs cb = true.
Proof.
  unfold inner_combos, all_some. rewrite filter_In, in_product, Forall2_map_r, Forall2_some. tauto.
Qed.

Lemma inner_join_rows us ops res :
  d_join JInner us ops = Ok res ->
  let hs := map o_hdr ops in
  forall r, In r (d_rows res) <->
    exists cb, Forall2 (fun x o => exists ro, x = Some ro /\ In ro (o_rows o)) cb ops /\
               agree us hs cb = true /\
               r = render hs (cols (jcols JInner us hs) hs) cb.
Proof.
  intros H hs r. rewrite (d_join_ok _ _ _ _ H). fold hs. rewrite join_with_rows, in_map_iff. simpl combos.
  split.
  - intros [cb [<- Hcb]]. apply inner_combos_spec in Hcb. destruct Hcb as [H1 H2].
    exists cb. rewrite Forall2_map_r in H1. auto.
  - intros [cb [H1 [H2 ->]]]. exists cb. split; [reflexivity|]. apply inner_combos_spec.
    rewrite Forall2_map_r. auto.
Qed.

(* every agreeing combination contributes exactly one datapoint: the combinations are listed without repetition *)
Lemma all_some_NoDup rowss : Forall (@NoDup _) rowss -> Forall (@NoDup _) (all_some rowss).
Proof.
  unfold all_some. induction 1; simpl; constructor; auto.
  apply FinFun.Injective_map_NoDup; [intros u v E; congruence | assumption].
Qed.

Lemma inner_combos_NoDup us hs rowss : Forall (@NoDup _) rowss -> NoDup (inner_combos us hs rowss).
Proof. intros H. unfold inner_combos. apply NoDup_filter. apply product_NoDup. apply all_some_NoDup. exact H. Qed.

(* a component an operand does not carry reads as null *)
Lemma elook_not_in n (e : env) : ~ In n (map fst e) -> elook n e = None.
Proof.
  induction e as [|[k v] t IH]; simpl; auto. intros H.
  destruct (String.eqb n k) eqn:E; [apply String.eqb_eq in E; subst; exfalso; auto | apply IH; auto].
Qed.

Lemma mem_s_In n l : mem_s n l = true <-> In n l.
Proof.
  unfold mem_s. rewrite existsb_exists. split.
  - intros [x [Hx E]]. apply String.eqb_eq in E. subst. exact Hx.
  - intros H. exists n. split; [exact H | apply String.eqb_refl].
Qed.

Lemma map_fst_combine_incl {A B} (l : list A) (l' : list B) x : In x (map fst (combine l l')) -> In x l.
Proof.
  revert l'. induction l as [|a t IH]; intros [|b t'] H; simpl in *; try contradiction.
  destruct H as [<-|H]; auto. right. eapply IH; eauto.
Qed.

Lemma h_val_no_comp h r n : has_comp h n = false -> h_val h r n = VNull.
Proof.
  intros H. unfold h_val. rewrite elook_not_in; [reflexivity|].
  intros Hin. rewrite map_app, in_app_iff in Hin.
  assert (In n (h_comps h)) as Hc.
  { unfold h_comps. apply in_app_iff. destruct Hin as [Hin|Hin]; [left|right]; eapply map_fst_combine_incl; eauto. }
  apply mem_s_In in Hc. unfold has_comp in H. congruence.
Qed.

Lemma on_val_single ha ra n : on_val [ha] [Some ra] n = h_val ha ra n.
Proof. simpl. destruct (has_comp ha n) eqn:E; [reflexivity | symmetry; apply h_val_no_comp; exact E]. Qed.

(* two operands: a datapoint is in the result iff it is built from one datapoint of each operand whose join keys
   are equal (and not null) *)
Lemma inner_join_two us a b res :
  d_join JInner us [a; b] = Ok res ->
  let hs := [o_hdr a; o_hdr b] in
  forall r, In r (d_rows res) <->
    exists ra rb, In ra (o_rows a) /\ In rb (o_rows b) /\
      (forall k, In k (match_keys us [o_hdr a] (o_hdr b)) -> sql_eqb (h_val (o_hdr a) ra k) (h_val (o_hdr b) rb k) = true) /\
      r = render hs (cols (jcols JInner us hs) hs) [Some ra; Some rb].
Proof.
  intros H hs r. rewrite (inner_join_rows _ _ _ H). simpl map. fold hs. split.
  - intros [cb [HF [Ha ->]]]. inversion HF as [|x o cb' l' [ra [-> Hra]] HF']; subst.
    inversion HF' as [|y o' cb'' l'' [rb [-> Hrb]] HF'']; subst. inversion HF''; subst.
    exists ra, rb. repeat split; auto. intros k Hk.
    simpl in Ha. rewrite andb_true_r in Ha. unfold on_ok in Ha. rewrite forallb_forall in Ha.
    specialize (Ha k Hk). rewrite on_val_single in Ha. exact Ha.
  - intros [ra [rb [Hra [Hrb [Hk ->]]]]]. exists [Some ra; Some rb]. split; [|split; [|reflexivity]].
    + repeat constructor; eauto.
    + simpl. rewrite andb_true_r. unfold on_ok. apply forallb_forall. intros k Hin. rewrite on_val_single. apply Hk. exact Hin.
Qed.

(* =============================================================== cross join *)
Lemma cross_join_rows ops res :
  d_join JCross None ops = Ok res ->
  let hs := map o_hdr ops in
  d_rows res = map (render hs (cols [] hs)) (cross_combos (map o_rows ops)) /\
  length (d_rows res) = fold_right (fun o n => length (o_rows o) * n) 1 ops /\
  (forall cb, In cb (cross_combos (map o_rows ops)) <->
              Forall2 (fun x o => exists ro, x = Some ro /\ In ro (o_rows o)) cb ops) /\
  (Forall (fun o => NoDup (o_rows o)) ops -> NoDup (cross_combos (map o_rows ops))).
Proof.
  intros H hs. rewrite (d_join_ok _ _ _ _ H). fold hs. rewrite join_with_rows. simpl combos. simpl jcols.
  split; [reflexivity|]. split; [|split].
  - rewrite map_length. unfold cross_combos. rewrite product_length. unfold all_some. clear.
    induction ops as [|o t IH]; simpl; [reflexivity|]. rewrite map_length. f_equal. apply IH.
  - intros cb. unfold cross_combos, all_some. rewrite in_product, Forall2_map_r, Forall2_some, Forall2_map_r. reflexivity.
  - intros Hn. unfold cross_combos. apply product_NoDup. apply all_some_NoDup.
    apply Forall_forall. intros l Hl. apply in_map_iff in Hl. destruct Hl as [o [<- Ho]].
    rewrite Forall_forall in Hn. apply Hn. exact Ho.
Qed.

(* =============================================================== left join *)
Lemma partners_spec us ha ra h rows x :
  In x (partners us ha ra h rows) <->
  (exists r, x = Some r /\ In r rows /\ on_ok us [ha] [Some ra] h r = true) \/
  (x = None /\ forall r, In r rows -> on_ok us [ha] [Some ra] h r = false).
Proof.
  unfold partners. destruct (filter (on_ok us [ha] [Some ra] h) rows) as [|r0 l] eqn:E.
  - split.
    + intros [<-|[]]. right. split; auto. intros r Hr.
      destruct (on_ok us [ha] [Some ra] h r) eqn:E2; auto.
      assert (In r (filter (on_ok us [ha] [Some ra] h) rows)) as Hf by (apply filter_In; auto).
      rewrite E in Hf. destruct Hf.
    + intros [[r [-> [Hr Ho]]]|[-> _]]; [|left; reflexivity]. exfalso.
      assert (In r (filter (on_ok us [ha] [Some ra] h) rows)) as Hf by (apply filter_In; auto).
      rewrite E in Hf. destruct Hf.
  - rewrite <- E. split.
    + intros Hin. apply in_map_iff in Hin. destruct Hin as [r [<- Hr]]. apply filter_In in Hr. left. exists r. tauto.
    + intros [[r [-> [Hr Ho]]]|[-> Hn]].
      * apply in_map. apply filter_In. auto.
      * exfalso. assert (In r0 (filter (on_ok us [ha] [Some ra] h) rows)) as Hf by (rewrite E; simpl; auto).
        apply filter_In in Hf. destruct Hf as [H1 H2]. rewrite (Hn _ H1) in H2. discriminate.
Qed.

Lemma partners_nonempty us ha ra h rows : exists x, In x (partners us ha ra h rows).
Proof.
  unfold partners. destruct (filter (on_ok us [ha] [Some ra] h) rows) as [|r0 l]; simpl; eauto.
Qed.

(* no partner: exactly one combination entry, the missing side *)
Lemma partners_none us ha ra h rows :
  (forall r, In r rows -> on_ok us [ha] [Some ra] h r = false) -> partners us ha ra h rows = [None].
Proof.
  intros H. unfold partners. destruct (filter (on_ok us [ha] [Some ra] h) rows) as [|r0 l] eqn:E; [reflexivity|].
  exfalso. assert (In r0 (filter (on_ok us [ha] [Some ra] h) rows)) as Hf by (rewrite E; simpl; auto).
  apply filter_In in Hf. destruct Hf as [H1 H2]. rewrite (H _ H1) in H2. discriminate.
Qed.

Lemma left_combos_spec us ha hrest rows_a rrest cb :
  In cb (left_combos us (ha :: hrest) (rows_a :: rrest)) <->
  exists ra cb', cb = Some ra :: cb' /\ In ra rows_a /\
     Forall2 (fun x p => In x (partners us ha ra (fst p) (snd p))) cb' (combine hrest rrest).
Proof.
  simpl. rewrite in_flat_map. split.
  - intros [ra [Hra Hin]]. apply in_map_iff in Hin. destruct Hin as [cb' [<- Hcb']].
    apply in_product in Hcb'. rewrite Forall2_map_r in Hcb'. eauto.
  - intros [ra [cb' [-> [Hra HF]]]]. exists ra. split; auto. apply in_map. apply in_product.
    rewrite Forall2_map_r. exact HF.
Qed.

Lemma combine_map_both {A B C} (f : A -> B) (g : A -> C) l : combine (map f l) (map g l) = map (fun x => (f x, g x)) l.
Proof. induction l; simpl; congruence. Qed.

(* the result of a left join: for every datapoint of the first operand, one datapoint per choice of a partner (or of the
   missing side when there is none) in every other operand — and nothing else *)
Lemma left_join_rows us a rest res :
  d_join JLeft us (a :: rest) = Ok res ->
  let hs := map o_hdr (a :: rest) in
  forall r, In r (d_rows res) <->
    exists ra cb', In ra (o_rows a) /\
      Forall2 (fun x o => In x (partners us (o_hdr a) ra (o_hdr o) (o_rows o))) cb' rest /\
      r = render hs (cols (jcols JLeft us hs) hs) (Some ra :: cb').
Proof.
  intros H hs r. rewrite (d_join_ok _ _ _ _ H). fold hs. rewrite join_with_rows, in_map_iff. simpl combos.
  unfold hs. simpl map. split.
  - intros [cb [<- Hcb]]. apply left_combos_spec in Hcb. destruct Hcb as [ra [cb' [-> [Hra HF]]]].
    rewrite combine_map_both, Forall2_map_r in HF. exists ra, cb'. auto.
  - intros [ra [cb' [Hra [HF ->]]]]. exists (Some ra :: cb'). split; [reflexivity|]. apply left_combos_spec.
    exists ra, cb'. rewrite combine_map_both, Forall2_map_r. auto.
Qed.

(* every datapoint of the first operand appears in the result *)
Lemma left_join_every_left_row us a rest res ra :
  d_join JLeft us (a :: rest) = Ok res -> In ra (o_rows a) ->
  let hs := map o_hdr (a :: rest) in
  exists cb', Forall2 (fun x o => In x (partners us (o_hdr a) ra (o_hdr o) (o_rows o))) cb' rest /\
              In (render hs (cols (jcols JLeft us hs) hs) (Some ra :: cb')) (d_rows res).
Proof.
  intros H Hra hs.
  assert (exists cb', Forall2 (fun x o => In x (partners us (o_hdr a) ra (o_hdr o) (o_rows o))) cb' rest) as [cb' HF].
  { clear. induction rest as [|o t [cb' IH]]; [exists []; constructor|].
    destruct (partners_nonempty us (o_hdr a) ra (o_hdr o) (o_rows o)) as [x Hx]. exists (x :: cb'). constructor; auto. }
  exists cb'. split; [exact HF|]. apply (left_join_rows _ _ _ _ H). exists ra, cb'. auto.
Qed.

(* … and exactly once, padded by the missing side everywhere, when it has no partner in any other operand *)
Lemma product_singletons {A} (l : list A) : product (map (fun x => [x]) l) = [l].
Proof. induction l as [|a t IH]; simpl; [reflexivity|]. rewrite IH. reflexivity. Qed.

Lemma left_unmatched_once us ha ra hrest rrest :
  length hrest = length rrest ->
  (forall p r, In p (combine hrest rrest) -> In r (snd p) -> on_ok us [ha] [Some ra] (fst p) r = false) ->
  map (cons (Some ra)) (product (map (fun p => partners us ha ra (fst p) (snd p)) (combine hrest rrest)))
  = [Some ra :: map (fun _ => None) hrest].
Proof.
  intros Hl Hn.
  assert (map (fun p => partners us ha ra (fst p) (snd p)) (combine hrest rrest)
          = map (fun x => [x]) (map (fun _ => None) hrest)) as E.
  { revert rrest Hl Hn. induction hrest as [|h t IH]; intros [|rows rt] Hl Hn; simpl in *; try discriminate; auto.
    rewrite partners_none by (intros r Hr; apply (Hn (h, rows) r); simpl; auto).
    f_equal. apply IH; [congruence|]. intros p r Hp Hr. apply Hn; auto. }
  rewrite E, product_singletons. reflexivity.
Qed.

(* two operands *)
Lemma left_join_two us a b res :
  d_join JLeft us [a; b] = Ok res ->
  let hs := [o_hdr a; o_hdr b] in
  let cs := cols (jcols JLeft us hs) hs in
  forall r, In r (d_rows res) <->
    exists ra, In ra (o_rows a) /\
      ((exists rb, In rb (o_rows b) /\ on_ok us [o_hdr a] [Some ra] (o_hdr b) rb = true /\ r = render hs cs [Some ra; Some rb]) \/
       ((forall rb, In rb (o_rows b) -> on_ok us [o_hdr a] [Some ra] (o_hdr b) rb = false) /\ r = render hs cs [Some ra; None])).
Proof.
  intros H hs cs r. rewrite (left_join_rows _ _ _ _ H). simpl map. fold hs. fold cs. split.
  - intros [ra [cb' [Hra [HF ->]]]]. inversion HF as [|x o l l' Hx HF']; subst. inversion HF'; subst.
    exists ra. split; auto. apply partners_spec in Hx. destruct Hx as [[rb [-> [Hrb Ho]]]|[-> Hn]]; [left; eauto | right; auto].
  - intros [ra [Hra [[rb [Hrb [Ho ->]]]|[Hn ->]]]].
    + exists ra, [Some rb]. repeat split; auto. constructor; [|constructor]. apply partners_spec. left. eauto.
    + exists ra, [None]. repeat split; auto. constructor; [|constructor]. apply partners_spec. right. auto.
Qed.

(* =============================================================== values of the result components *)
Lemma elook_app n (e1 e2 : env) : elook n (e1 ++ e2) = match elook n e1 with Some v => Some v | None => elook n e2 end.
Proof. induction e1 as [|[k v] t IH]; simpl; auto. destruct (String.eqb n k); auto. Qed.

Lemma elook_combine_map {A} (g : A -> string) (f : A -> val) l c :
  NoDup (map g l) -> In c l -> elook (g c) (combine (map g l) (map f l)) = Some (f c).
Proof.
  induction l as [|a t IH]; simpl; intros Hn Hc; [contradiction|]. destruct Hc as [<-|Hin].
  - rewrite String.eqb_refl. reflexivity.
  - inversion Hn as [|? ? Hna Hnt]; subst. destruct (String.eqb (g c) (g a)) eqn:E.
    + apply String.eqb_eq in E. exfalso. apply Hna. rewrite <- E. apply in_map. exact Hin.
    + apply IH; auto.
Qed.

Lemma elook_combine_map_none {A} (g : A -> string) (f : A -> val) l n :
  ~ In n (map g l) -> elook n (combine (map g l) (map f l)) = None.
Proof.
  intros H. apply elook_not_in. intros Hin. apply H. eapply map_fst_combine_incl. exact Hin.
Qed.

Lemma NoDup_map_filter {A B} (g : A -> B) (p : A -> bool) l : NoDup (map g l) -> NoDup (map g (filter p l)).
Proof.
  induction l as [|a t IH]; simpl; intros H; [constructor|]. inversion H as [|? ? Hna Hnt]; subst.
  destruct (p a); simpl; auto. constructor; auto. intros Hin. apply Hna.
  apply in_map_iff in Hin. destruct Hin as [x [E Hx]]. apply filter_In in Hx. rewrite <- E. apply in_map. tauto.
Qed.

Lemma NoDup_map_inj_in {A B} (g : A -> B) l x y : NoDup (map g l) -> In x l -> In y l -> g x = g y -> x = y.
Proof.
  induction l as [|a t IH]; simpl; intros Hn Hx Hy E; [contradiction|]. inversion Hn as [|? ? Hna Hnt]; subst.
  destruct Hx as [<-|Hx], Hy as [<-|Hy]; auto.
  - exfalso. apply Hna. rewrite E. apply in_map. exact Hy.
  - exfalso. apply Hna. rewrite <- E. apply in_map. exact Hx.
Qed.

(* in a result datapoint every component, looked up by its name, holds the value of its source *)
Lemma render_lookup cbs k us hs c cb :
  let cs := cols (jcols k us hs) hs in
  NoDup (map c_name cs) -> In c cs ->
  elook (c_name c) (row_env (join_with cbs k us hs) (render hs cs cb)) = Some (src_val hs cb (c_src c)).
Proof.
  intros cs Hn Hc. unfold row_env, join_with. fold cs. simpl. rewrite elook_app.
  destruct (c_id c) eqn:Eid.
  - rewrite (elook_combine_map c_name (fun c => src_val hs cb (c_src c))); [reflexivity | apply NoDup_map_filter; exact Hn |].
    apply filter_In. auto.
  - rewrite elook_combine_map_none.
    + apply (elook_combine_map c_name (fun c => src_val hs cb (c_src c))); [apply NoDup_map_filter; exact Hn|].
      apply filter_In. rewrite Eid. auto.
    + intros Hin. apply in_map_iff in Hin. destruct Hin as [c' [E Hc']]. apply filter_In in Hc'. destruct Hc' as [Hc' Hid'].
      assert (c' = c) by (eapply NoDup_map_inj_in; eauto). subst. congruence.
Qed.

(* the missing side of an outer join yields null for every component of that side *)
Lemma missing_side_src hs cb i n : nth_error cb i = Some None -> src_val hs cb (SOp i n) = VNull.
Proof. intros H. simpl. rewrite H. destruct (nth_error hs i); reflexivity. Qed.

(* a present side yields its own datapoint's value *)
Lemma present_side_src hs cb i n h r :
  nth_error hs i = Some h -> nth_error cb i = Some (Some r) -> src_val hs cb (SOp i n) = h_val h r n.
Proof. intros H1 H2. simpl. rewrite H1, H2. reflexivity. Qed.

(* =============================================================== alias disambiguation: the names of the result *)
Definition hash_free (s : string) : Prop := after_hash s = None.

Lemma hash_free_cons c t : hash_free (String c t) -> Ascii.eqb c "#"%char = false /\ hash_free t.
Proof. unfold hash_free. simpl. destruct (Ascii.eqb c "#"%char); [discriminate | auto]. Qed.

Lemma after_hash_qual a n : hash_free a -> after_hash (qual a n) = Some n.
Proof.
  unfold qual. induction a as [|c t IH]; intros H; simpl; [reflexivity|].
  apply hash_free_cons in H. destruct H as [Hc Ht]. rewrite Hc. apply IH. exact Ht.
Qed.

Lemma qual_inj_alias a1 a2 n : hash_free a1 -> hash_free a2 -> qual a1 n = qual a2 n -> a1 = a2.
Proof.
  unfold qual. revert a2. induction a1 as [|c1 t1 IH]; intros [|c2 t2] H1 H2 E; simpl in *; auto.
  - injection E as Ec _. apply hash_free_cons in H2. destruct H2 as [Hc _]. subst c2. discriminate.
  - injection E as Ec _. apply hash_free_cons in H1. destruct H1 as [Hc _]. subst c1. discriminate.
  - injection E as -> E. f_equal. apply hash_free_cons in H1. apply hash_free_cons in H2. apply IH; tauto.
Qed.

Lemma dedup_In x l : In x (dedup l) <-> In x l.
Proof.
  induction l as [|a t IH]; simpl; [tauto|]. rewrite filter_In, IH, negb_true_iff. split.
  - intros [->|[H _]]; auto.
  - intros [->|H]; auto. destruct (String.eqb x a) eqn:E; [apply String.eqb_eq in E; auto | auto].
Qed.

Lemma dedup_NoDup l : NoDup (dedup l).
Proof.
  induction l as [|a t IH]; simpl; constructor.
  - rewrite filter_In, negb_true_iff, String.eqb_refl. intros [_ H]. discriminate.
  - apply NoDup_filter. exact IH.
Qed.

Lemma count_s_app n l1 l2 : count_s n (l1 ++ l2) = count_s n l1 + count_s n l2.
Proof. induction l1 as [|a t IH]; simpl; [reflexivity|]. rewrite IH. lia. Qed.

Lemma count_s_pos n l : In n l -> 1 <= count_s n l.
Proof.
  induction l as [|a t IH]; simpl; [tauto|]. intros [->|H]; [rewrite String.eqb_refl; lia|].
  specialize (IH H). lia.
Qed.

Lemma count_flat_pos {A} (g : A -> list string) n l h : In h l -> In n (g h) -> 1 <= count_s n (flat_map g l).
Proof. intros Hh Hn. apply count_s_pos. apply in_flat_map. eauto. Qed.

Lemma count_two {A} (g : A -> list string) n l h1 h2 :
  In h1 l -> In h2 l -> h1 <> h2 -> In n (g h1) -> In n (g h2) -> 2 <= count_s n (flat_map g l).
Proof.
  intros H1 H2 Hne Hn1 Hn2. apply in_split in H1. destruct H1 as [l1 [l2 ->]].
  rewrite flat_map_app. simpl. rewrite !count_s_app.
  pose proof (count_s_pos _ _ Hn1).
  apply in_app_iff in H2. destruct H2 as [H2|[H2|H2]]; [|congruence|].
  - pose proof (count_flat_pos g n l1 h2 H2 Hn2). lia.
  - pose proof (count_flat_pos g n l2 h2 H2 Hn2). lia.
Qed.

Record wf_headers (J : list string) (hs : list header) : Prop := {
  wf_alias_nodup : NoDup (map h_alias hs);
  wf_alias_hash : forall h, In h hs -> hash_free (h_alias h);
  wf_comps_nodup : forall h, In h hs -> NoDup (h_comps h);
  wf_comps_hash : forall h n, In h hs -> In n (h_comps h) -> hash_free n;
  wf_J_hash : forall n, In n J -> hash_free n;
  wf_J_nodup : NoDup J }.

Lemma op_cols_names J all i hs :
  map c_name (op_cols_from J all i hs) =
  map (fun p => out_name J all (fst p) (snd p)) (flat_map (fun h => map (pair h) (nonjoin J h)) hs).
Proof.
  revert i. induction hs as [|h t IH]; intros i; simpl; [reflexivity|].
  rewrite !map_app, !map_map, IH. reflexivity.
Qed.

Lemma nonjoin_In J h n : In n (nonjoin J h) <-> In n (h_comps h) /\ ~ In n J.
Proof.
  unfold nonjoin. rewrite filter_In, negb_true_iff. split; intros [H1 H2]; split; auto.
  - intros Hin. apply mem_s_In in Hin. congruence.
  - destruct (mem_s n J) eqn:E; auto. apply mem_s_In in E. contradiction.
Qed.

Lemma out_name_inj J hs h1 n1 h2 n2 :
  wf_headers J hs -> In h1 hs -> In h2 hs -> In n1 (nonjoin J h1) -> In n2 (nonjoin J h2) ->
  out_name J hs h1 n1 = out_name J hs h2 n2 -> (h1, n1) = (h2, n2).
Proof.
  intros W H1 H2 Hn1 Hn2 E. unfold out_name in E.
  pose proof (proj1 (nonjoin_In _ _ _) Hn1) as [Hc1 _]. pose proof (proj1 (nonjoin_In _ _ _) Hn2) as [Hc2 _].
  pose proof (wf_comps_hash _ _ W _ _ H1 Hc1) as Hf1. pose proof (wf_comps_hash _ _ W _ _ H2 Hc2) as Hf2.
  pose proof (wf_alias_hash _ _ W _ H1) as Ha1. pose proof (wf_alias_hash _ _ W _ H2) as Ha2.
  destruct (is_dup J hs n1) eqn:D1, (is_dup J hs n2) eqn:D2.
  - assert (n1 = n2) as ->.
    { pose proof (after_hash_qual (h_alias h1) n1 Ha1) as A1. rewrite E, (after_hash_qual _ _ Ha2) in A1. congruence. }
    apply qual_inj_alias in E; auto. f_equal. eapply NoDup_map_inj_in; [apply (wf_alias_nodup _ _ W) | | | ]; eauto.
  - exfalso. pose proof (after_hash_qual (h_alias h1) n1 Ha1) as A1. rewrite E in A1. unfold hash_free in Hf2. congruence.
  - exfalso. pose proof (after_hash_qual (h_alias h2) n2 Ha2) as A2. rewrite <- E in A2. unfold hash_free in Hf1. congruence.
  - subst n2. f_equal. destruct (String.eqb (h_alias h1) (h_alias h2)) eqn:Ea.
    + apply String.eqb_eq in Ea. eapply NoDup_map_inj_in; [apply (wf_alias_nodup _ _ W) | | | ]; eauto.
    + exfalso. assert (h1 <> h2) as Hne by (intros ->; rewrite String.eqb_refl in Ea; discriminate).
      pose proof (count_two (nonjoin J) n1 hs h1 h2 H1 H2 Hne Hn1 Hn2) as Hc.
      unfold is_dup in D1. apply Nat.leb_gt in D1. lia.
Qed.

Lemma NoDup_map_inj_on {A B} (f : A -> B) l :
  NoDup l -> (forall x y, In x l -> In y l -> f x = f y -> x = y) -> NoDup (map f l).
Proof.
  induction l as [|a t IH]; simpl; intros Hn Hi; constructor; inversion Hn as [|? ? Hna Hnt]; subst.
  - intros Hin. apply in_map_iff in Hin. destruct Hin as [x [E Hx]]. assert (x = a) by (apply Hi; auto). subst. contradiction.
  - apply IH; auto.
Qed.

Lemma NoDup_of_map {A B} (g : A -> B) l : NoDup (map g l) -> NoDup l.
Proof.
  induction l as [|a t IH]; simpl; intros H; constructor; inversion H as [|? ? Hna Hnt]; subst; auto.
  intros Hin. apply Hna. apply in_map. exact Hin.
Qed.

(* no two components of a join result share a name *)
Lemma cols_names_NoDup J hs : wf_headers J hs -> NoDup (map c_name (cols J hs)).
Proof.
  intros W. unfold cols. rewrite map_app. apply NoDup_app_disj.
  - unfold key_cols. rewrite map_map. simpl. rewrite map_id. apply (wf_J_nodup _ _ W).
  - rewrite op_cols_names. apply NoDup_map_inj_on.
    + apply NoDup_flat_map_disjoint.
      * apply (NoDup_of_map h_alias). apply (wf_alias_nodup _ _ W).
      * intros h Hh. apply FinFun.Injective_map_NoDup; [intros u v E; congruence|].
        unfold nonjoin. apply NoDup_filter. apply (wf_comps_nodup _ _ W _ Hh).
      * intros x y b _ _ Hx Hy. apply in_map_iff in Hx. apply in_map_iff in Hy.
        destruct Hx as [u [<- _]]. destruct Hy as [v [E _]]. congruence.
    + intros [h1 n1] [h2 n2] Hx Hy E. apply in_flat_map in Hx. apply in_flat_map in Hy.
      destruct Hx as [h1' [Hh1 Hx]]. destruct Hy as [h2' [Hh2 Hy]].
      apply in_map_iff in Hx. apply in_map_iff in Hy. destruct Hx as [u [Eu Hu]]. destruct Hy as [v [Ev Hv]].
      injection Eu as -> ->. injection Ev as -> ->. simpl in E. eapply out_name_inj; eauto.
  - intros x Hx Hy. unfold key_cols in Hx. rewrite map_map in Hx. simpl in Hx. rewrite map_id in Hx.
    rewrite op_cols_names in Hy. apply in_map_iff in Hy. destruct Hy as [[h n] [E Hp]]. simpl in E.
    apply in_flat_map in Hp. destruct Hp as [h' [Hh Hp]]. apply in_map_iff in Hp. destruct Hp as [u [Eu Hu]].
    injection Eu as -> ->. unfold out_name in E. destruct (is_dup J hs n).
    + pose proof (wf_J_hash _ _ W _ Hx) as Hf. subst x. unfold hash_free in Hf.
      rewrite (after_hash_qual _ _ (wf_alias_hash _ _ W _ Hh)) in Hf. discriminate.
    + subst x. apply nonjoin_In in Hu. tauto.
Qed.

Lemma op_cols_In J all hs : forall i0 i h n,
  nth_error hs i = Some h -> In n (nonjoin J h) ->
  In (mkCol (out_name J all h n) (SOp (i0 + i) n) (mem_s n (h_ids h))) (op_cols_from J all i0 hs).
Proof.
  induction hs as [|h0 t IH]; intros i0 i h n Hn Hin; [destruct i; discriminate|].
  simpl. apply in_app_iff. destruct i as [|i]; simpl in Hn.
  - injection Hn as ->. left. rewrite Nat.add_0_r. apply in_map_iff. exists n. auto.
  - right. replace (i0 + S i) with (S i0 + i) by lia. apply IH; auto.
Qed.

(* each component of an operand that is not a join column appears under its (possibly qualified) name and carries the value of
   its own operand's datapoint, null when that side is missing *)
Lemma alias_component_value cbs k us hs i h n cb :
  let J := jcols k us hs in
  wf_headers J hs -> nth_error hs i = Some h -> In n (nonjoin J h) ->
  elook (out_name J hs h n) (row_env (join_with cbs k us hs) (render hs (cols J hs) cb)) =
  Some (match nth_error cb i with Some (Some r) => h_val h r n | _ => VNull end).
Proof.
  intros J W Hi Hn.
  pose proof (render_lookup cbs k us hs (mkCol (out_name J hs h n) (SOp i n) (mem_s n (h_ids h))) cb) as L.
  simpl in L. fold J in L. rewrite L.
  - rewrite Hi. destruct (nth_error cb i) as [[r|]|]; reflexivity.
  - apply cols_names_NoDup. exact W.
  - unfold cols. apply in_app_iff. right. apply (op_cols_In J hs hs 0 i h n Hi Hn).
Qed.

(* =============================================================== identifiers of the result (no `using`, first operand
   carrying every identifier — the legal configurations of left and full join) *)
Lemma filter_filter {A} (p q : A -> bool) l : filter p (filter q l) = filter (fun x => q x && p x) l.
Proof. induction l as [|a t IH]; simpl; auto. destruct (q a); simpl; [destruct (p a); simpl; congruence | exact IH]. Qed.

Lemma filter_true_id {A} (p : A -> bool) l : (forall x, In x l -> p x = true) -> filter p l = l.
Proof.
  induction l as [|a t IH]; simpl; intros H; [reflexivity|]. rewrite (H a) by auto. f_equal. apply IH. intros x Hx. apply H. auto.
Qed.

Lemma filter_false_nil {A} (p : A -> bool) l : (forall x, In x l -> p x = false) -> filter p l = [].
Proof.
  induction l as [|a t IH]; simpl; intros H; [reflexivity|]. rewrite (H a) by auto. apply IH. intros x Hx. apply H. auto.
Qed.

Lemma dedup_app l l' : dedup (l ++ l') = dedup l ++ filter (fun y => negb (mem_s y l)) (dedup l').
Proof.
  induction l as [|a t IH]; simpl.
  - symmetry. apply filter_true_id. reflexivity.
  - rewrite IH, filter_app, filter_filter. f_equal. f_equal. apply filter_ext. intros y.
    unfold mem_s. simpl. destruct (String.eqb y a), (existsb (String.eqb y) t); reflexivity.
Qed.


Lemma dedup_NoDup_id l : NoDup l -> dedup l = l.
Proof.
  induction 1 as [|a t Ha _ IH]; simpl; [reflexivity|]. rewrite IH. f_equal. apply filter_true_id.
  intros y Hy. apply negb_true_iff. destruct (String.eqb y a) eqn:E; auto. apply String.eqb_eq in E. subst. contradiction.
Qed.

Lemma dedup_absorb l l' : NoDup l -> incl l' l -> dedup (l ++ l') = l.
Proof.
  intros Hn Hi. rewrite dedup_app, (dedup_NoDup_id _ Hn), filter_false_nil; [apply app_nil_r|].
  intros y Hy. apply (proj1 (dedup_In _ _)) in Hy. apply negb_false_iff. apply mem_s_In. apply Hi. exact Hy.
Qed.

(* the first operand carries every identifier, and a name that is an identifier there is never another kind of component elsewhere *)
Definition first_is_reference (ha : header) (hrest : list header) : Prop :=
  NoDup (h_ids ha) /\
  (forall h, In h hrest -> incl (h_ids h) (h_ids ha)) /\
  (forall h n, In h (ha :: hrest) -> In n (h_ids ha) -> In n (h_comps h) -> In n (h_ids h)).

Lemma jcols_reference k ha hrest :
  k <> JCross -> first_is_reference ha hrest -> jcols k None (ha :: hrest) = h_ids ha.
Proof.
  intros Hk [Hn [Hi _]]. assert (dedup ([] ++ all_ids (ha :: hrest)) = h_ids ha) as E.
  { simpl. unfold all_ids. simpl. apply dedup_absorb; auto.
    intros x Hx. apply in_flat_map in Hx. destruct Hx as [h [Hh Hx]]. eapply Hi; eauto. }
  destruct k; simpl in *; auto. congruence.
Qed.

Lemma op_cols_no_ids J all hs i : (forall h n, In h hs -> In n (h_ids h) -> In n J) -> id_cols (op_cols_from J all i hs) = [].
Proof.
  revert i. induction hs as [|h t IH]; intros i H; simpl; [reflexivity|]. unfold id_cols in *. rewrite filter_app, IH.
  - rewrite app_nil_r. apply filter_false_nil. intros c Hc. apply in_map_iff in Hc. destruct Hc as [n [<- Hn]]. simpl.
    destruct (mem_s n (h_ids h)) eqn:E; auto. apply mem_s_In in E. apply nonjoin_In in Hn. exfalso. apply (proj2 Hn).
    eapply H; simpl; eauto.
  - intros h' n Hh. apply H. simpl; auto.
Qed.

Lemma key_is_id_true hs n :
  (forall h, In h hs -> In n (h_comps h) -> In n (h_ids h)) -> key_is_id hs n = true.
Proof.
  intros H. unfold key_is_id. apply forallb_forall. intros h Hh.
  destruct (has_comp h n) eqn:E; simpl; auto. apply mem_s_In. apply H; auto. apply mem_s_In. exact E.
Qed.

Lemma id_cols_reference ha hrest :
  first_is_reference ha hrest ->
  id_cols (cols (h_ids ha) (ha :: hrest)) = map (fun n => mkCol n (SKey n) true) (h_ids ha).
Proof.
  intros [Hn [Hi Hc]]. unfold cols, id_cols. rewrite filter_app. fold (id_cols (op_cols_from (h_ids ha) (ha :: hrest) 0 (ha :: hrest))).
  rewrite op_cols_no_ids.
  - rewrite app_nil_r. unfold key_cols. rewrite filter_true_id.
    + apply map_ext_in. intros n Hin. f_equal. apply key_is_id_true. intros h Hh Hcomp. apply Hc; auto.
    + intros c Hcin. apply in_map_iff in Hcin. destruct Hcin as [n [<- Hin]]. cbn [c_id].
      apply key_is_id_true. intros h Hh Hcomp. apply Hc; auto.
  - intros h n [<-|Hh] Hin; auto. eapply Hi; eauto.
Qed.

(* the identifier values of a datapoint, read back by name *)
Lemma elook_ids_glue (l : list string) (vs : list val) (e : env) :
  NoDup l -> length l = length vs ->
  map (fun n => match elook n (combine l vs ++ e) with Some v => v | None => VNull end) l = vs.
Proof.
  revert vs. induction l as [|a t IH]; intros [|v vt] Hn Hl; simpl in *; try discriminate; auto.
  inversion Hn as [|? ? Ha Ht]; subst. rewrite String.eqb_refl. f_equal.
  transitivity (map (fun n => match elook n (combine t vt ++ e) with Some v => v | None => VNull end) t).
  - apply map_ext_in. intros n Hin.
    destruct (String.eqb n a) eqn:E; auto. apply String.eqb_eq in E. subst. contradiction.
  - apply IH; auto.
Qed.

Lemma h_val_ids h r : NoDup (h_ids h) -> length (h_ids h) = length (fst r) -> map (h_val h r) (h_ids h) = fst r.
Proof. intros Hn Hl. unfold h_val. apply elook_ids_glue; auto. Qed.

Lemma has_comp_id h n : In n (h_ids h) -> has_comp h n = true.
Proof. intros H. apply mem_s_In. unfold h_comps. apply in_app_iff. auto. Qed.

(* =============================================================== full join *)
Lemma dedup_keys_In k ks : In k (dedup_keys ks) -> In k ks.
Proof.
  revert k. induction ks as [|a t IH]; simpl; intros k; [tauto|]. intros [<-|H]; auto.
  apply filter_In in H. right. apply IH. tauto.
Qed.

Lemma dedup_keys_cover k ks : In k ks -> exists k', In k' (dedup_keys ks) /\ key_eqb k k' = true.
Proof.
  induction ks as [|a t IH]; simpl; [tauto|]. intros [<-|H].
  - exists a. split; auto. apply key_eqb_refl.
  - destruct (IH H) as [k' [Hk' He]]. destruct (key_eqb k' a) eqn:E.
    + exists a. split; auto. eapply key_eqb_trans; eauto.
    + exists k'. split; auto. right. apply filter_In. rewrite E. auto.
Qed.

Lemma dedup_keys_uniq ks : uniq_keys (map (fun k => (k, @nil val)) (dedup_keys ks)) = true.
Proof.
  induction ks as [|a t IH]; simpl; [reflexivity|]. apply andb_true_iff. split.
  - apply negb_true_iff. apply has_key_false. intros r Hr. apply in_map_iff in Hr. destruct Hr as [k' [<- Hk']].
    apply filter_In in Hk'. simpl. rewrite key_eqb_sym. apply negb_true_iff. tauto.
  - assert (map (fun k => (k, @nil val)) (filter (fun k' => negb (key_eqb k' a)) (dedup_keys t)) =
            filter (fun r => negb (key_eqb (fst r) a)) (map (fun k => (k, @nil val)) (dedup_keys t))) as E.
    { clear. induction (dedup_keys t) as [|x l IHl]; simpl; auto. destruct (key_eqb x a); simpl; congruence. }
    rewrite E. apply uniq_keys_filter. exact IH.
Qed.

Lemma uniq_keys_map_equiv (G : list val -> list val * list val) ks :
  (forall k, In k ks -> key_eqb k (fst (G k)) = true) ->
  uniq_keys (map (fun k => (k, @nil val)) ks) = true -> uniq_keys (map G ks) = true.
Proof.
  induction ks as [|a t IH]; simpl; intros HG Hu; [reflexivity|].
  apply andb_true_iff in Hu. destruct Hu as [Hn Hu]. apply andb_true_iff. split; [|apply IH; auto].
  apply negb_true_iff. apply negb_true_iff in Hn. apply has_key_false. intros r Hr.
  apply in_map_iff in Hr. destruct Hr as [k [<- Hk]].
  rewrite has_key_false in Hn. specialize (Hn (k, []) (in_map _ _ _ Hk)). simpl in Hn.
  assert (key_eqb (fst (G a)) a = true) as E1 by (rewrite key_eqb_sym; apply HG; auto).
  rewrite (key_eqb_congr _ _ _ E1).
  rewrite key_eqb_sym. rewrite <- (key_eqb_congr _ _ _ (HG k (or_intror Hk))). rewrite key_eqb_sym. exact Hn.
Qed.

(* what a full join returns: one datapoint per identifier key occurring in some operand, made of the datapoint each operand
   has for that key (the missing side where it has none) *)
Lemma full_join_rows ops res :
  d_join JFull None ops = Ok res ->
  let hs := map o_hdr ops in
  d_rows res = map (fun k => render hs (cols (jcols JFull None hs) hs) (map (fun o => find_key k (o_rows o)) ops))
                   (all_keys (map o_rows ops)).
Proof.
  intros H hs. rewrite (d_join_ok _ _ _ _ H). fold hs. rewrite join_with_rows. simpl combos. unfold full_combos.
  rewrite map_map. apply map_ext. intros k. rewrite map_map. reflexivity.
Qed.

(* both sides: the keys enumerated are exactly the keys of the operands' datapoints, each once *)
Lemma all_keys_spec rowss :
  (forall k, In k (all_keys rowss) -> exists rows r, In rows rowss /\ In r rows /\ fst r = k) /\
  (forall rows r, In rows rowss -> In r rows -> exists k, In k (all_keys rowss) /\ key_eqb (fst r) k = true) /\
  uniq_keys (map (fun k => (k, @nil val)) (all_keys rowss)) = true.
Proof.
  unfold all_keys. split; [|split].
  - intros k Hk. apply dedup_keys_In in Hk. apply in_flat_map in Hk. destruct Hk as [rows [Hr Hk]].
    apply in_map_iff in Hk. destruct Hk as [r [<- Hin]]. eauto.
  - intros rows r Hr Hin. apply dedup_keys_cover. apply in_flat_map. exists rows. split; auto. apply in_map. exact Hin.
  - apply dedup_keys_uniq.
Qed.

(* every datapoint of every operand takes part in the result *)
Lemma full_join_both_sides rowss rows r :
  In rows rowss -> In r rows -> uniq_keys rows = true ->
  exists k, In k (all_keys rowss) /\ find_key k rows = Some r.
Proof.
  intros Hr Hin Hu. destruct (proj1 (proj2 (all_keys_spec rowss)) rows r Hr Hin) as [k [Hk He]].
  exists k. split; auto. apply find_key_spec; auto. split; auto. rewrite key_eqb_sym. exact He.
Qed.

(* keys coalesced: a join column takes the value of the first side that is present *)
Lemma key_val_coalesce ids k : forall hs cb,
  length hs = length cb -> NoDup ids ->
  Forall (fun h => h_ids h = ids) hs ->
  (forall r, In (Some r) cb -> length ids = length (fst r) /\ key_eqb k (fst r) = true) ->
  (exists r, In (Some r) cb) ->
  key_eqb k (map (key_val hs cb) ids) = true.
Proof.
  induction hs as [|h hs' IH]; intros [|x cb'] Hl Hn Hids Hcb Hex; simpl in Hl; try discriminate.
  - destruct Hex as [r []].
  - inversion Hids as [|? ? Hh Hids']; subst. destruct x as [r|].
    + assert (map (key_val (h :: hs') (Some r :: cb')) (h_ids h) = map (h_val h r) (h_ids h)) as E.
      { apply map_ext_in. intros n Hin. simpl. rewrite has_comp_id by exact Hin. reflexivity. }
      destruct (Hcb r (or_introl eq_refl)) as [Hlen He]. rewrite E, h_val_ids; auto.
    + assert (map (key_val (h :: hs') (None :: cb')) (h_ids h) = map (key_val hs' cb') (h_ids h)) as E by reflexivity.
      rewrite E. apply IH; auto.
      * intros r Hr. apply Hcb. simpl; auto.
      * destruct Hex as [r [Hr|Hr]]; [discriminate | eauto].
Qed.

Definition same_ids (ids : list string) (ops : list operand) : Prop :=
  Forall (fun o => d_ids (snd o) = ids /\ forall r, In r (o_rows o) -> length ids = length (fst r)) ops.

Lemma same_ids_reference ids o ops : NoDup ids -> same_ids ids (o :: ops) -> first_is_reference (o_hdr o) (map o_hdr ops).
Proof.
  intros Hn Hs. inversion Hs as [|? ? [Ho _] Hs']; subst. unfold first_is_reference. simpl h_ids. split; [exact Hn|]. split.
  - intros h Hh. apply in_map_iff in Hh. destruct Hh as [o' [<- Ho']]. rewrite Forall_forall in Hs'.
    destruct (Hs' _ Ho') as [E _]. unfold h_ids. simpl. rewrite E. apply incl_refl.
  - intros h n Hh Hin _. assert (h_ids h = d_ids (snd o)) as E.
    { destruct Hh as [<-|Hh]; [reflexivity|]. apply in_map_iff in Hh. destruct Hh as [o' [<- Ho']]. rewrite Forall_forall in Hs'.
      destruct (Hs' _ Ho') as [E _]. unfold h_ids. simpl. exact E. }
    rewrite E. exact Hin.
Qed.

(* the identifiers of a full-join datapoint are the key it was built for *)
Lemma full_join_key ids ops k :
  ops <> [] -> NoDup ids -> same_ids ids ops -> In k (all_keys (map o_rows ops)) ->
  let hs := map o_hdr ops in
  key_eqb k (fst (render hs (cols (jcols JFull None hs) hs) (map (fun o => find_key k (o_rows o)) ops))) = true.
Proof.
  intros Hne Hn Hs Hk hs. destruct ops as [|o ops']; [congruence|].
  pose proof (same_ids_reference _ _ _ Hn Hs) as Href.
  assert (h_ids (o_hdr o) = ids) as Eo by (inversion Hs as [|? ? [E _] _]; exact E).
  unfold hs. simpl map. rewrite (jcols_reference JFull _ _ ltac:(discriminate) Href).
  unfold render. cbn [fst]. rewrite (id_cols_reference _ _ Href), map_map. cbn [c_src src_val]. rewrite Eo.
  change (o_hdr o :: map o_hdr ops') with (map o_hdr (o :: ops')).
  change (map (fun x => key_val (map o_hdr (o :: ops')) (map (fun o0 => find_key k (o_rows o0)) (o :: ops')) x) ids)
    with (map (key_val (map o_hdr (o :: ops')) (map (fun o0 => find_key k (o_rows o0)) (o :: ops'))) ids).
  apply key_val_coalesce; auto.
  - simpl. rewrite !map_length. reflexivity.
  - clear -Hs. induction Hs as [|x l [E _] _ IH]; simpl; constructor; auto.
  - intros r Hr. change (In (Some r) (map (fun o0 => find_key k (o_rows o0)) (o :: ops'))) in Hr.
    apply in_map_iff in Hr. destruct Hr as [o' [Hf Ho']]. apply find_some in Hf. destruct Hf as [Hin He].
    unfold same_ids in Hs. rewrite Forall_forall in Hs. destruct (Hs _ Ho') as [_ Hlen]. split; auto.
  - change (exists r, In (Some r) (map (fun o0 => find_key k (o_rows o0)) (o :: ops'))).
    destruct (proj1 (all_keys_spec _) k Hk) as [rows [r [Hrows [Hr Hfst]]]].
    apply in_map_iff in Hrows. destruct Hrows as [o' [<- Ho']].
    destruct (find_key k (o_rows o')) as [r'|] eqn:Ef.
    + exists r'. apply in_map_iff. exists o'. auto.
    + apply find_key_none in Ef. rewrite has_key_false in Ef. specialize (Ef r Hr). rewrite Hfst, key_eqb_refl in Ef. discriminate.
Qed.

(* hence one datapoint per key: the result of a full join of well-formed operands is well-formed *)
Lemma full_join_keys_unique ids ops res :
  ops <> [] -> NoDup ids -> same_ids ids ops ->
  d_join JFull None ops = Ok res -> uniq_keys (d_rows res) = true.
Proof.
  intros Hne Hn Hs H. rewrite (full_join_rows _ _ H). apply uniq_keys_map_equiv.
  - intros k Hk. apply (full_join_key ids); auto.
  - apply all_keys_spec.
Qed.

(* =============================================================== order independence *)
Lemma all_some_perm rowss rowss' :
  Forall2 (@Permutation _) rowss rowss' -> Forall2 (@Permutation _) (all_some rowss) (all_some rowss').
Proof. unfold all_some. induction 1; simpl; constructor; auto. apply Permutation_map. assumption. Qed.

Lemma inner_combos_perm us hs rowss rowss' :
  Forall2 (@Permutation _) rowss rowss' -> Permutation (inner_combos us hs rowss) (inner_combos us hs rowss').
Proof. intros H. unfold inner_combos. apply Permutation_filter. apply product_perm. apply all_some_perm. exact H. Qed.

Lemma cross_combos_perm rowss rowss' :
  Forall2 (@Permutation _) rowss rowss' -> Permutation (cross_combos rowss) (cross_combos rowss').
Proof. intros H. unfold cross_combos. apply product_perm. apply all_some_perm. exact H. Qed.

Lemma partners_perm us ha ra h rows rows' :
  Permutation rows rows' -> Permutation (partners us ha ra h rows) (partners us ha ra h rows').
Proof.
  intros P. unfold partners. pose proof (Permutation_filter (on_ok us [ha] [Some ra] h) _ _ P) as PF.
  destruct (filter (on_ok us [ha] [Some ra] h) rows) as [|r0 l] eqn:E1, (filter (on_ok us [ha] [Some ra] h) rows') as [|r0' l'] eqn:E2.
  - reflexivity.
  - apply Permutation_nil in PF. discriminate.
  - symmetry in PF. apply Permutation_nil in PF. discriminate.
  - apply Permutation_map. exact PF.
Qed.

Lemma left_combos_perm us hs rowss rowss' :
  Forall2 (@Permutation _) rowss rowss' -> Permutation (left_combos us hs rowss) (left_combos us hs rowss').
Proof.
  intros H. destruct hs as [|ha hrest]; [destruct rowss, rowss'; reflexivity|].
  inversion H as [|rows_a rows_a' rrest rrest' Pa Pr]; subst; [reflexivity|]. simpl.
  eapply perm_trans; [apply Permutation_flat_map; exact Pa|].
  apply flat_map_perm_ext. intros ra _. apply Permutation_map. apply product_perm.
  clear -Pr. revert hrest. induction Pr as [|x y l l' Pxy _ IH]; intros [|h t]; simpl; try constructor.
  - apply partners_perm. exact Pxy.
  - apply IH.
Qed.

(* reordering the datapoints of any operand only reorders the datapoints of the result *)
Lemma join_perm k us ops ops' res :
  k <> JFull ->
  map o_hdr ops' = map o_hdr ops -> Forall2 (@Permutation _) (map o_rows ops) (map o_rows ops') ->
  d_join k us ops = Ok res ->
  exists res', d_join k us ops' = Ok res' /\ d_ids res' = d_ids res /\ d_ms res' = d_ms res /\
               Permutation (d_rows res) (d_rows res').
Proof.
  intros Hk Hh HP H. pose proof (d_join_ok _ _ _ _ H) as E. simpl in E.
  unfold d_join in *. rewrite Hh. apply bind_ok in H. destruct H as [u [Hc _]]. rewrite Hc. simpl.
  eexists. split; [reflexivity|]. subst res. split; [reflexivity|]. split; [reflexivity|].
  rewrite !join_with_rows. apply Permutation_map.
  destruct k; simpl; [apply inner_combos_perm | apply left_combos_perm | congruence | apply cross_combos_perm]; exact HP.
Qed.

(* =============================================================== one datapoint per identifier key (left / inner join,
   no `using`, the first operand carrying every identifier) *)
Lemma uniq_keys_map_inj {A} (g : A -> list val * list val) l :
  NoDup l -> (forall x y, In x l -> In y l -> key_eqb (fst (g x)) (fst (g y)) = true -> x = y) ->
  uniq_keys (map g l) = true.
Proof.
  induction l as [|a t IH]; simpl; intros Hn Hi; [reflexivity|]. inversion Hn as [|? ? Ha Ht]; subst.
  apply andb_true_iff. split; [|apply IH; auto].
  apply negb_true_iff. apply has_key_false. intros r Hr. apply in_map_iff in Hr. destruct Hr as [y [<- Hy]].
  destruct (key_eqb (fst (g a)) (fst (g y))) eqn:E; auto. exfalso. assert (a = y) by (apply Hi; auto). subst. contradiction.
Qed.

Lemma uniq_keys_NoDup rows : uniq_keys rows = true -> NoDup rows.
Proof.
  induction rows as [|r t IH]; simpl; intros H; constructor; apply andb_true_iff in H; destruct H as [H1 H2]; auto.
  intros Hin. apply negb_true_iff in H1. rewrite (has_key_self _ _ Hin) in H1. discriminate.
Qed.

Lemma key_eqb_map {A} (f g : A -> val) l : (forall n, In n l -> val_eqb (f n) (g n) = true) -> key_eqb (map f l) (map g l) = true.
Proof.
  induction l as [|a t IH]; simpl; intros H; [reflexivity|]. rewrite (H a) by auto. simpl. apply IH. intros n Hn. apply H. auto.
Qed.

Lemma sql_eqb_common x y y' : sql_eqb x y = true -> sql_eqb x y' = true -> val_eqb y y' = true.
Proof.
  unfold sql_eqb. rewrite !andb_true_iff. intros [_ H1] [_ H2]. rewrite val_eqb_sym in H1. eapply val_eqb_trans; eauto.
Qed.

Lemma render_key_reference k ha hrest ra cb' :
  k <> JCross -> first_is_reference ha hrest -> length (h_ids ha) = length (fst ra) ->
  fst (render (ha :: hrest) (cols (jcols k None (ha :: hrest)) (ha :: hrest)) (Some ra :: cb')) = fst ra.
Proof.
  intros Hk Href Hl. rewrite (jcols_reference k _ _ Hk Href). unfold render. cbn [fst].
  rewrite (id_cols_reference _ _ Href), map_map. cbn [c_src src_val].
  transitivity (map (h_val ha ra) (h_ids ha)).
  - apply map_ext_in. intros n Hn. simpl. rewrite has_comp_id by exact Hn. reflexivity.
  - apply h_val_ids; auto. destruct Href; auto.
Qed.

Lemma match_keys_reference ha b h : incl (h_ids h) (h_ids ha) -> match_keys None (ha :: b) h = h_ids h.
Proof.
  intros Hi. unfold match_keys. apply filter_true_id. intros n Hn. simpl. apply orb_true_iff. left. apply mem_s_In. auto.
Qed.

(* a well-formed operand whose identifiers all belong to the first operand *)
Definition wf_other (ha : header) (p : header * list (list val * list val)) : Prop :=
  incl (h_ids (fst p)) (h_ids ha) /\ NoDup (h_ids (fst p)) /\ uniq_keys (snd p) = true /\
  forall r, In r (snd p) -> length (h_ids (fst p)) = length (fst r).

(* … has at most one datapoint matching a given combination of the preceding operands *)
Lemma on_ok_unique ha b pre h rows r r' :
  wf_other ha (h, rows) -> In r rows -> In r' rows ->
  on_ok None (ha :: b) pre h r = true -> on_ok None (ha :: b) pre h r' = true -> r = r'.
Proof.
  intros [Hi [Hn [Hu Hl]]] Hr Hr' H1 H2. simpl in *. unfold on_ok in *. rewrite (match_keys_reference _ _ _ Hi) in *.
  rewrite forallb_forall in H1, H2.
  apply (uniq_keys_same_row rows); auto.
  rewrite <- (h_val_ids h r), <- (h_val_ids h r') by auto.
  apply key_eqb_map. intros n Hin. eapply sql_eqb_common; eauto.
Qed.

Lemma partners_unique ha ra h rows x y :
  wf_other ha (h, rows) -> In x (partners None ha ra h rows) -> In y (partners None ha ra h rows) -> x = y.
Proof.
  intros W Hx Hy. apply partners_spec in Hx. apply partners_spec in Hy.
  destruct Hx as [[r [-> [Hr Ho]]]|[-> Hn]], Hy as [[r' [-> [Hr' Ho']]]|[-> Hn']]; auto.
  - f_equal. eapply on_ok_unique; eauto.
  - rewrite (Hn' _ Hr) in Ho. discriminate.
  - rewrite (Hn _ Hr') in Ho'. discriminate.
Qed.

Lemma Forall2_unique {A B} (P : A -> B -> Prop) l1 l2 l :
  Forall2 P l1 l -> Forall2 P l2 l -> (forall x y p, In p l -> P x p -> P y p -> x = y) -> l1 = l2.
Proof.
  intros H1. revert l2. induction H1 as [|x p l1 l Hx _ IH]; intros l2 H2 Hu; inversion H2; subst; auto.
  f_equal; [eapply Hu; simpl; eauto | apply IH; auto]. intros a b q Hq. apply Hu. simpl; auto.
Qed.

Lemma partners_NoDup us ha ra h rows : NoDup rows -> NoDup (partners us ha ra h rows).
Proof.
  intros Hn. unfold partners. pose proof (NoDup_filter (on_ok us [ha] [Some ra] h) Hn) as Hf.
  destruct (filter (on_ok us [ha] [Some ra] h) rows) as [|r0 l]; [repeat constructor; auto|].
  apply FinFun.Injective_map_NoDup; [intros u v E; congruence | exact Hf].
Qed.

Lemma left_combos_NoDup us hs rowss : Forall (@NoDup _) rowss -> NoDup (left_combos us hs rowss).
Proof.
  intros H. destruct hs as [|ha hrest], rowss as [|rows_a rrest]; simpl; try constructor.
  inversion H as [|? ? Ha Hr]; subst. apply NoDup_flat_map_disjoint; auto.
  - intros ra _. apply FinFun.Injective_map_NoDup; [intros u v E; congruence|]. apply product_NoDup.
    clear -Hr. revert hrest. induction Hr as [|rows l Hrows _ IH]; intros [|h t]; simpl; constructor.
    + apply partners_NoDup. exact Hrows.
    + apply IH.
  - intros x y b _ _ Hx Hy. apply in_map_iff in Hx. apply in_map_iff in Hy.
    destruct Hx as [u [<- _]]. destruct Hy as [v [E _]]. congruence.
Qed.

Lemma left_join_keys_unique_h ha hrest rows_a rrest :
  first_is_reference ha hrest ->
  uniq_keys rows_a = true -> (forall r, In r rows_a -> length (h_ids ha) = length (fst r)) ->
  Forall (wf_other ha) (combine hrest rrest) ->
  Forall (@NoDup _) rrest ->
  let hs := ha :: hrest in
  uniq_keys (map (render hs (cols (jcols JLeft None hs) hs)) (left_combos None hs (rows_a :: rrest))) = true.
Proof.
  intros Href Hu Hl Hw Hnd hs. apply uniq_keys_map_inj.
  - apply left_combos_NoDup. constructor; auto. apply uniq_keys_NoDup. exact Hu.
  - intros x y Hx Hy E. apply left_combos_spec in Hx. apply left_combos_spec in Hy.
    destruct Hx as [ra [cb1 [-> [Hra H1]]]]. destruct Hy as [ra' [cb2 [-> [Hra' H2]]]].
    unfold hs in E. rewrite !(render_key_reference JLeft) in E by (auto; discriminate).
    assert (ra = ra') by (eapply uniq_keys_same_row; eauto). subst ra'. f_equal.
    eapply Forall2_unique; eauto. intros u v [h rows] Hp Hu1 Hv1. simpl in *.
    rewrite Forall_forall in Hw. exact (partners_unique ha ra h rows u v (Hw (h, rows) Hp) Hu1 Hv1).
Qed.

Definition wf_operand (o : operand) : Prop :=
  NoDup (d_ids (snd o)) /\ uniq_keys (o_rows o) = true /\ forall r, In r (o_rows o) -> length (d_ids (snd o)) = length (fst r).

Lemma left_join_keys_unique a rest res :
  first_is_reference (o_hdr a) (map o_hdr rest) -> Forall wf_operand (a :: rest) ->
  d_join JLeft None (a :: rest) = Ok res -> uniq_keys (d_rows res) = true.
Proof.
  intros Href Hw H. rewrite (d_join_ok _ _ _ _ H). rewrite join_with_rows. simpl map. simpl combos.
  inversion Hw as [|? ? [Hna [Hua Hla]] Hwr]; subst.
  apply left_join_keys_unique_h; auto.
  - rewrite combine_map_both. apply Forall_forall. intros p Hp. apply in_map_iff in Hp. destruct Hp as [o [<- Ho]].
    rewrite Forall_forall in Hwr. destruct (Hwr _ Ho) as [Hn [Hu Hl]]. unfold wf_other. simpl. repeat split; auto.
    destruct Href as [_ [Hi _]]. apply Hi. apply in_map. exact Ho.
  - apply Forall_forall. intros rows Hr. apply in_map_iff in Hr. destruct Hr as [o [<- Ho]].
    rewrite Forall_forall in Hwr. destruct (Hwr _ Ho) as [_ [Hu _]]. apply uniq_keys_NoDup. exact Hu.
Qed.

(* inner join, two operands, the first one carrying every identifier *)
Lemma inner_join_keys_unique a b res :
  first_is_reference (o_hdr a) [o_hdr b] -> wf_operand a -> wf_operand b ->
  d_join JInner None [a; b] = Ok res -> uniq_keys (d_rows res) = true.
Proof.
  intros Href [Hna [Hua Hla]] [Hnb [Hub Hlb]] H. rewrite (d_join_ok _ _ _ _ H). rewrite join_with_rows. cbn [map combos].
  apply uniq_keys_map_inj.
  - apply inner_combos_NoDup. repeat constructor; apply uniq_keys_NoDup; auto.
  - intros x y Hx Hy E. apply inner_combos_spec in Hx. apply inner_combos_spec in Hy.
    destruct Hx as [F1 A1]. destruct Hy as [F2 A2].
    inversion F1 as [|x1 ? l1 ? [ra [-> Hra]] F1']; subst. inversion F1' as [|x2 ? l2 ? [rb [-> Hrb]] F1'']; subst. inversion F1''; subst.
    inversion F2 as [|y1 ? m1 ? [ra' [-> Hra']] F2']; subst. inversion F2' as [|y2 ? m2 ? [rb' [-> Hrb']] F2'']; subst. inversion F2''; subst.
    assert (length (h_ids (o_hdr a)) = length (fst ra)) as L1 by (apply Hla; exact Hra).
    assert (length (h_ids (o_hdr a)) = length (fst ra')) as L2 by (apply Hla; exact Hra').
    rewrite (render_key_reference JInner (o_hdr a) [o_hdr b] ra [Some rb] ltac:(discriminate) Href L1) in E.
    rewrite (render_key_reference JInner (o_hdr a) [o_hdr b] ra' [Some rb'] ltac:(discriminate) Href L2) in E.
    assert (ra = ra') by (apply (uniq_keys_same_row (o_rows a)); assumption). subst ra'. f_equal. f_equal. f_equal.
    simpl in A1, A2. rewrite andb_true_r in A1, A2.
    eapply (on_ok_unique (o_hdr a) [] [Some ra] (o_hdr b) (o_rows b)); eauto.
    unfold wf_other. simpl. repeat split; auto. destruct Href as [_ [Hi _]]. apply Hi. simpl; auto.
Qed.

(* inner join, any number of operands, the first one carrying every identifier: the datapoint of the first operand
   determines the whole combination *)
Lemma agree_from_unique ha : forall hrest rowss b pre cb1 cb2,
  Forall (wf_other ha) (combine hrest rowss) ->
  Forall2 (fun x rows => exists r, x = Some r /\ In r rows) cb1 rowss ->
  Forall2 (fun x rows => exists r, x = Some r /\ In r rows) cb2 rowss ->
  agree_from None (ha :: b) pre hrest cb1 = true -> agree_from None (ha :: b) pre hrest cb2 = true -> cb1 = cb2.
Proof.
  induction hrest as [|h t IH]; intros rowss b pre cb1 cb2 Hw F1 F2 A1 A2.
  - destruct cb1, cb2; simpl in *; try discriminate; auto.
  - destruct cb1 as [|[r1|] t1], cb2 as [|[r2|] t2]; simpl in A1, A2; try discriminate.
    inversion F1 as [|? rows ? rt [r1' [E1 Hr1]] F1']; subst. injection E1 as <-.
    inversion F2 as [|? ? ? ? [r2' [E2 Hr2]] F2']; subst. injection E2 as <-.
    apply andb_true_iff in A1. apply andb_true_iff in A2. destruct A1 as [O1 A1]. destruct A2 as [O2 A2].
    simpl in Hw. inversion Hw as [|? ? Hw1 Hw']; subst.
    assert (r1 = r2) by (eapply on_ok_unique; eauto). subst r2. f_equal.
    eapply (IH rt (b ++ [h])); eauto.
Qed.

Lemma inner_join_keys_unique_n a rest res :
  first_is_reference (o_hdr a) (map o_hdr rest) -> Forall wf_operand (a :: rest) ->
  d_join JInner None (a :: rest) = Ok res -> uniq_keys (d_rows res) = true.
Proof.
  intros Href Hw H. rewrite (d_join_ok _ _ _ _ H). rewrite join_with_rows. cbn [map combos].
  inversion Hw as [|? ? [Hna [Hua Hla]] Hwr]; subst.
  assert (Forall (wf_other (o_hdr a)) (combine (map o_hdr rest) (map o_rows rest))) as Hwo.
  { rewrite combine_map_both. apply Forall_forall. intros p Hp. apply in_map_iff in Hp. destruct Hp as [o [<- Ho]].
    rewrite Forall_forall in Hwr. destruct (Hwr _ Ho) as [Hn [Hu Hl]]. unfold wf_other. simpl. repeat split; auto.
    destruct Href as [_ [Hi _]]. apply Hi. apply in_map. exact Ho. }
  apply uniq_keys_map_inj.
  - apply inner_combos_NoDup. constructor; [apply uniq_keys_NoDup; exact Hua|].
    apply Forall_forall. intros rows Hr. apply in_map_iff in Hr. destruct Hr as [o [<- Ho]].
    rewrite Forall_forall in Hwr. destruct (Hwr _ Ho) as [_ [Hu _]]. apply uniq_keys_NoDup. exact Hu.
  - intros x y Hx Hy E. apply inner_combos_spec in Hx. apply inner_combos_spec in Hy.
    destruct Hx as [F1 A1]. destruct Hy as [F2 A2].
    inversion F1 as [|x1 ? l1 ? [ra [-> Hra]] F1']; subst. inversion F2 as [|y1 ? m1 ? [ra' [-> Hra']] F2']; subst.
    assert (length (h_ids (o_hdr a)) = length (fst ra)) as L1 by (apply Hla; exact Hra).
    assert (length (h_ids (o_hdr a)) = length (fst ra')) as L2 by (apply Hla; exact Hra').
    rewrite (render_key_reference JInner (o_hdr a) (map o_hdr rest) ra l1 ltac:(discriminate) Href L1) in E.
    rewrite (render_key_reference JInner (o_hdr a) (map o_hdr rest) ra' m1 ltac:(discriminate) Href L2) in E.
    assert (ra = ra') by (apply (uniq_keys_same_row (o_rows a)); assumption). subst ra'. f_equal.
    simpl in A1, A2. eapply (agree_from_unique (o_hdr a) (map o_hdr rest) (map o_rows rest) [] [Some ra]); eauto.
Qed.

(* =============================================================== the left-deep three-operand full join (repaired engine defect) *)
Definition ex_A : operand := ("DS_1", mkD ["Id_1"] ["Me_1"] [([VInt 1], [VInt 10]); ([VInt 2], [VInt 11])]).
Definition ex_B : operand := ("DS_2", mkD ["Id_1"] ["Me_2"] [([VInt 2], [VInt 20]); ([VInt 3], [VInt 21])]).
Definition ex_C : operand := ("DS_3", mkD ["Id_1"] ["Me_3"] [([VInt 3], [VInt 30]); ([VInt 4], [VInt 31]); ([VInt 1], [VInt 32])]).

(* key 3 is missing in the first operand: the left-deep variant returns TWO datapoints for it, the relational full join one *)
Lemma full_join_impl_refuted :
  exists ops, Forall wf_operand ops /\
    (exists res, d_join_impl JFull None ops = Ok res /\ uniq_keys (d_rows res) = false /\
                 In ([VInt 3], [VNull; VInt 21; VNull]) (d_rows res) /\ In ([VInt 3], [VNull; VNull; VInt 30]) (d_rows res)) /\
    (exists res, d_join JFull None ops = Ok res /\ uniq_keys (d_rows res) = true /\
                 In ([VInt 3], [VNull; VInt 21; VInt 30]) (d_rows res)).
Proof.
  exists [ex_A; ex_B; ex_C]. split; [|split].
  - apply Forall_forall.
    intros o [<-|[<-|[<-|[]]]]; (split; [repeat constructor; simpl; tauto | split; [reflexivity|]]);
      intros r H; simpl in H; repeat (destruct H as [<-|H]; [reflexivity|]); destruct H.
  - eexists. split; [vm_compute; reflexivity|]. vm_compute. repeat split; auto 10.
  - eexists. split; [vm_compute; reflexivity|]. vm_compute. repeat split; auto 10.
Qed.

(* =============================================================== result-level statement of the naming rule *)
Lemma filter_partition_perm {A} (p : A -> bool) l : Permutation (filter p l ++ filter (fun x => negb (p x)) l) l.
Proof.
  induction l as [|a t IH]; simpl; [constructor|]. destruct (p a); simpl.
  - constructor. exact IH.
  - eapply perm_trans; [apply Permutation_sym; apply Permutation_middle|]. constructor. exact IH.
Qed.

Lemma join_names_NoDup k us ops res :
  let hs := map o_hdr ops in
  wf_headers (jcols k us hs) hs -> d_join k us ops = Ok res -> NoDup (d_ids res ++ d_ms res).
Proof.
  intros hs W H. rewrite (d_join_ok _ _ _ _ H). fold hs. unfold join_with. simpl. rewrite <- map_app.
  eapply Permutation_NoDup; [apply Permutation_sym; apply Permutation_map; apply filter_partition_perm|].
  apply cols_names_NoDup. exact W.
Qed.

(* =============================================================== concrete example (homonymous measures, aliases, body) *)
Definition ex_L : operand :=
  ("d1", mkD ["Id_1"; "Id_2"] ["Me_1"; "Me_2"]
         [([VInt 1; VStr "A"], [VInt 10; VStr "x"]); ([VInt 1; VStr "B"], [VInt 11; VNull]);
          ([VInt 2; VStr "A"], [VInt 12; VStr "z"]); ([VInt 3; VStr "A"], [VNull; VStr "w"])]).
Definition ex_R : operand :=
  ("d2", mkD ["Id_1"; "Id_2"] ["Me_1"; "Me_3"]
         [([VInt 1; VStr "A"], [VInt 100; VInt 15]); ([VInt 2; VStr "A"], [VNull; VInt 25]);
          ([VInt 2; VStr "B"], [VInt 102; VInt 35]); ([VInt 4; VStr "A"], [VInt 103; VNull])]).

Lemma example_joins :
  (* inner join: homonymous measures come out qualified by their alias *)
  d_join JInner None [ex_L; ex_R] =
    Ok (mkD ["Id_1"; "Id_2"] ["d1#Me_1"; "Me_2"; "d2#Me_1"; "Me_3"]
            [([VInt 1; VStr "A"], [VInt 10; VStr "x"; VInt 100; VInt 15]);
             ([VInt 2; VStr "A"], [VInt 12; VStr "z"; VNull; VInt 25])]) /\
  (* left join with a body: the missing side is null; keep + final unqualification *)
  d_join_stmt false JLeft None [ex_L; ex_R] [JKeep ["d1#Me_1"; "Me_3"]] =
    Ok (mkD ["Id_1"; "Id_2"] ["Me_1"; "Me_3"]
            [([VInt 1; VStr "A"], [VInt 10; VInt 15]); ([VInt 1; VStr "B"], [VInt 11; VNull]);
             ([VInt 2; VStr "A"], [VInt 12; VInt 25]); ([VInt 3; VStr "A"], [VNull; VNull])]) /\
  (* full join: both sides, keys coalesced *)
  bind (d_join_stmt false JFull None [ex_L; ex_R] [JRename [("d1#Me_1", "A1"); ("d2#Me_1", "B1")]]) (fun d => Ok (d_ms d, d_rows d)) =
    Ok (["A1"; "Me_2"; "B1"; "Me_3"],
        [([VInt 1; VStr "A"], [VInt 10; VStr "x"; VInt 100; VInt 15]); ([VInt 1; VStr "B"], [VInt 11; VNull; VNull; VNull]);
         ([VInt 2; VStr "A"], [VInt 12; VStr "z"; VNull; VInt 25]); ([VInt 3; VStr "A"], [VNull; VStr "w"; VNull; VNull]);
         ([VInt 2; VStr "B"], [VNull; VNull; VInt 102; VInt 35]); ([VInt 4; VStr "A"], [VNull; VNull; VInt 103; VNull])]) /\
  (* unresolved homonyms at the end of the join expression are an error *)
  d_join_stmt false JInner None [ex_L; ex_R] [] = Err "1-1-13-9" /\
  (* cross join: the product; identifiers are qualified too *)
  bind (d_join JCross None [ex_L; ex_R]) (fun d => Ok (d_ids d, length (d_rows d))) =
    Ok (["d1#Id_1"; "d1#Id_2"; "d2#Id_1"; "d2#Id_2"], 16).
Proof. vm_compute. repeat split. Qed.

Lemma has_dup_NoDup l : has_dup l = false -> NoDup l.
Proof.
  induction l as [|x t IH]; simpl; intros H; constructor; apply orb_false_iff in H; destruct H as [H1 H2]; auto.
  intros Hin. apply mem_s_In in Hin. congruence.
Qed.

(* the hypotheses of the theorems are satisfiable: the example operands meet them *)
Lemma example_hypotheses :
  let hs := map o_hdr [ex_L; ex_R] in
  wf_headers (jcols JInner None hs) hs /\ first_is_reference (o_hdr ex_L) [o_hdr ex_R] /\
  Forall wf_operand [ex_L; ex_R] /\ same_ids ["Id_1"; "Id_2"] [ex_L; ex_R].
Proof.
  assert (forall h, In h (map o_hdr [ex_L; ex_R]) -> h = o_hdr ex_L \/ h = o_hdr ex_R) as Hh by (intros h [<-|[<-|[]]]; auto).
  intros hs. split; [|split; [|split]].
  - constructor.
    + apply has_dup_NoDup. reflexivity.
    + intros h Hin. destruct (Hh h Hin) as [-> | ->]; reflexivity.
    + intros h Hin. destruct (Hh h Hin) as [-> | ->]; apply has_dup_NoDup; reflexivity.
    + intros h n Hin Hn. destruct (Hh h Hin) as [-> | ->]; vm_compute in Hn; intuition (subst; reflexivity).
    + intros n Hn. vm_compute in Hn. intuition (subst; reflexivity).
    + apply has_dup_NoDup. reflexivity.
  - split; [apply has_dup_NoDup; reflexivity|]. split.
    + intros h [<-|[]]. apply incl_refl.
    + intros h n Hin Hn _. destruct Hin as [<-|[<-|[]]]; exact Hn.
  - apply Forall_forall.
    intros o [<-|[<-|[]]]; (split; [apply has_dup_NoDup; reflexivity | split; [reflexivity|]]);
      intros r H; simpl in H; repeat (destruct H as [<-|H]; [reflexivity|]); destruct H.
  - unfold same_ids. apply Forall_forall.
    intros o [<-|[<-|[]]]; (split; [reflexivity|]);
      intros r H; simpl in H; repeat (destruct H as [<-|H]; [reflexivity|]); destruct H.
Qed.
