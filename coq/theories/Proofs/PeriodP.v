(* Proofs/PeriodP.v — lemmas about Model/Period.v.  All statements quantify over ALL years (Z) and all shifts (Z) unless a
   bound is written in the statement (string forms: years 0..9999, the documented YYYY field). *)
From Coq Require Import ZArith Lia ZifyBool Bool List String Ascii.
Import ListNotations.
From VTL Require Import Base.Calendar Proofs.CalendarP Model.Period.
Open Scope Z_scope.
Ltac Zify.zify_post_hook ::= Z.to_euclidean_division_equations.
(* projections and the small case tables only: never let simpl touch the arithmetic *)
Ltac psimpl := cbn [p_ind p_year p_num periods_in_year of_index index period_limit_impl rank ind_eqb] in *.

(* ------------------------------------------------------------------ basics *)
Lemma ind_eqb_eq a b : ind_eqb a b = true <-> a = b.
Proof. destruct a, b; simpl; split; intros H; try reflexivity; try discriminate. Qed.

Lemma period_eqb_eq p q : period_eqb p q = true <-> p = q.
Proof.
  destruct p as [y i n], q as [y2 i2 n2]. unfold period_eqb. simpl.
  rewrite !andb_true_iff, !Z.eqb_eq, ind_eqb_eq. split.
  - intros [[-> ->] ->]. reflexivity.
  - intros H. injection H as -> -> ->. auto.
Qed.

Lemma periods_in_year_pos i y : 1 <= periods_in_year i y.
Proof.
  destruct i; simpl; try lia.
  - pose proof (weeks_in_year_52_53 y). lia.
  - pose proof (days_in_year_cases y). lia.
Qed.

Lemma periods_in_year_max i y : periods_in_year i y <= match i with IA => 1 | IS => 2 | IQ => 4 | IM => 12 | IW => 53 | ID => 366 end.
Proof.
  destruct i; simpl; try lia.
  - pose proof (weeks_in_year_52_53 y). lia.
  - pose proof (days_in_year_cases y). lia.
Qed.

Lemma period_valid_iff p : period_valid p = true <-> 1 <= p_num p <= periods_in_year (p_ind p) (p_year p).
Proof. unfold period_valid. lia. Qed.

(* week 53 exists exactly in the years the calendar gives 53 weeks; day 366 exactly in leap years *)
Lemma week53_valid_iff y :
  period_valid (mkP y IW 53) = true <-> (iso_dow (jan1 y) = 4 \/ (is_leap y = true /\ iso_dow (jan1 y) = 3)).
Proof.
  rewrite period_valid_iff. simpl. rewrite <- weeks_in_year_53_iff.
  pose proof (weeks_in_year_52_53 y). lia.
Qed.

Lemma day366_valid_iff y : period_valid (mkP y ID 366) = true <-> is_leap y = true.
Proof.
  rewrite period_valid_iff. simpl. rewrite <- days_in_year_366_iff_leap.
  pose proof (days_in_year_cases y). lia.
Qed.

(* ------------------------------------------------------------------ index is a bijection valid periods <-> Z *)
Lemma of_index_ind i k : p_ind (of_index i k) = i.
Proof. destruct i; reflexivity. Qed.

Lemma iso_week_start_monday y w : (iso_week_start y w + 3) mod 7 = 0.
Proof. unfold iso_week_start. pose proof (week1_monday_bounds y). lia. Qed.

Lemma of_index_index p : period_valid p = true -> of_index (p_ind p) (index p) = p.
Proof.
  rewrite period_valid_iff. destruct p as [y i n]. simpl. intros H.
  destruct i; psimpl.
  - f_equal. lia.
  - f_equal; lia.
  - f_equal; lia.
  - f_equal; lia.
  - pose proof (iso_week_start_monday y n) as M.
    replace (7 * ((iso_week_start y n + 3) / 7) - 3) with (iso_week_start y n) by lia.
    destruct (iso_year_week_of_start y n H) as [-> ->]. reflexivity.
  - rewrite (year_of_date_of_doy y n H), (doy_of_date_of_doy y n H). reflexivity.
Qed.

Lemma index_of_index i k : index (of_index i k) = k.
Proof.
  destruct i; psimpl; try lia.
  - rewrite iso_week_start_of. unfold monday_of. lia.
  - apply date_of_doy_doy_of.
Qed.

Lemma of_index_valid i k : period_valid (of_index i k) = true.
Proof.
  rewrite period_valid_iff. destruct i; simpl; try lia.
  - apply iso_week_of_range.
  - apply doy_of_bounds.
Qed.

Lemma index_inj p q : period_valid p = true -> period_valid q = true -> p_ind p = p_ind q ->
  index p = index q -> p = q.
Proof.
  intros Vp Vq Hi He. rewrite <- (of_index_index p Vp), <- (of_index_index q Vq), Hi, He. reflexivity.
Qed.

(* ------------------------------------------------------------------ shift *)
Lemma shift_ind p n : p_ind (shift p n) = p_ind p.
Proof. apply of_index_ind. Qed.

Lemma shift_valid p n : period_valid (shift p n) = true.
Proof. apply of_index_valid. Qed.

Lemma index_shift p n : index (shift p n) = index p + n.
Proof. apply index_of_index. Qed.

Lemma shift_zero p : period_valid p = true -> shift p 0 = p.
Proof. intros V. unfold shift. rewrite Z.add_0_r. apply of_index_index, V. Qed.

Lemma shift_add p n m : shift (shift p n) m = shift p (n + m).
Proof. unfold shift at 1. rewrite shift_ind, index_shift. unfold shift. f_equal. lia. Qed.

Lemma shift_inverse p n : period_valid p = true -> shift (shift p n) (- n) = p.
Proof. intros V. rewrite shift_add. replace (n + - n) with 0 by lia. apply shift_zero, V. Qed.

Lemma shift_injective p q n : period_valid p = true -> period_valid q = true ->
  shift p n = shift q n -> p = q.
Proof.
  intros Vp Vq E.
  assert (Hi : p_ind p = p_ind q) by (rewrite <- (shift_ind p n), <- (shift_ind q n), E; reflexivity).
  apply (index_inj p q Vp Vq Hi).
  pose proof (index_shift p n) as A. pose proof (index_shift q n) as B. rewrite E in A. lia.
Qed.

(* shifting is strictly monotone for the calendar order given by index *)
Lemma shift_monotone p q n : p_ind p = p_ind q -> index p < index q -> index (shift p n) < index (shift q n).
Proof. intros _ H. rewrite !index_shift. lia. Qed.

(* ------------------------------------------------------------------ one step = next period of the calendar *)
Lemma next_period_spec p : period_valid p = true ->
  p_ind (next_period p) = p_ind p /\ period_valid (next_period p) = true /\ index (next_period p) = index p + 1.
Proof.
  rewrite period_valid_iff. destruct p as [y i n]. unfold next_period. simpl. intros H.
  pose proof (periods_in_year_pos i (y + 1)) as Pos.
  destruct (n =? periods_in_year i y) eqn:E; simpl; rewrite period_valid_iff; simpl.
  - apply Z.eqb_eq in E. split; [reflexivity|]. split; [lia|].
    destruct i; psimpl; try lia.
    + pose proof (weeks_in_year_spec y) as S. unfold iso_week_start.
      pose proof (week1_monday_bounds y). pose proof (week1_monday_bounds (y + 1)). lia.
    + unfold date_of_doy. rewrite jan1_succ. lia.
  - apply Z.eqb_neq in E. split; [reflexivity|]. split; [lia|].
    destruct i; psimpl; try lia.
    + unfold iso_week_start. pose proof (week1_monday_bounds y). lia.
    + unfold date_of_doy. lia.
Qed.

Lemma shift_one_next p : period_valid p = true -> shift p 1 = next_period p.
Proof.
  intros V. destruct (next_period_spec p V) as [Hi [Hv Hx]].
  unfold shift. rewrite <- Hx, <- Hi. apply of_index_index, Hv.
Qed.

Lemma prev_period_spec p : period_valid p = true ->
  p_ind (prev_period p) = p_ind p /\ period_valid (prev_period p) = true /\ index (prev_period p) = index p - 1.
Proof.
  rewrite period_valid_iff. destruct p as [y i n]. unfold prev_period. simpl. intros H.
  pose proof (periods_in_year_pos i (y - 1)) as Pos.
  destruct (n =? 1) eqn:E; simpl; rewrite period_valid_iff; simpl.
  - apply Z.eqb_eq in E. subst n. split; [reflexivity|]. split; [lia|].
    destruct i; psimpl; try lia.
    + pose proof (weeks_in_year_spec (y - 1)) as S. replace (y - 1 + 1) with y in S by lia. unfold iso_week_start.
      pose proof (week1_monday_bounds y). pose proof (week1_monday_bounds (y - 1)). lia.
    + unfold date_of_doy. pose proof (jan1_succ (y - 1)) as J. replace (y - 1 + 1) with y in J by lia. lia.
  - apply Z.eqb_neq in E. split; [reflexivity|]. split; [lia|].
    destruct i; psimpl; try lia.
    + unfold iso_week_start. pose proof (week1_monday_bounds y). lia.
    + unfold date_of_doy. lia.
Qed.

Lemma shift_minus_one_prev p : period_valid p = true -> shift p (-1) = prev_period p.
Proof.
  intros V. destruct (prev_period_spec p V) as [Hi [Hv Hx]].
  unfold shift. replace (index p + -1) with (index (prev_period p)) by lia. rewrite <- Hi. apply of_index_index, Hv.
Qed.

(* n >= 0 steps of next_period *)
Lemma shift_iter_next p : period_valid p = true -> forall n : nat, shift p (Z.of_nat n) = iter_period n next_period p.
Proof.
  intros V n. revert p V. induction n as [|n IH]; intros p V.
  - simpl. apply shift_zero, V.
  - cbn [iter_period]. destruct (next_period_spec p V) as [_ [Vn _]].
    rewrite <- (IH (next_period p) Vn), <- (shift_one_next p V), shift_add. f_equal. lia.
Qed.

Lemma shift_iter_prev p : period_valid p = true -> forall n : nat, shift p (- Z.of_nat n) = iter_period n prev_period p.
Proof.
  intros V n. revert p V. induction n as [|n IH]; intros p V.
  - simpl. apply shift_zero, V.
  - cbn [iter_period]. destruct (prev_period_spec p V) as [_ [Vn _]].
    rewrite <- (IH (prev_period p) Vn), <- (shift_minus_one_prev p V), shift_add. f_equal. lia.
Qed.

(* ------------------------------------------------------------------ start / end dates *)
Ltac eval_mo := eval_month_offset.

Lemma dfc_first y m : 1 <= m <= 12 -> days_from_civil y m 1 = jan1 y + month_offset (is_leap y) m.
Proof. intros H. rewrite days_from_civil_month by lia. lia. Qed.

Lemma last_day_of_month_eq y m : 1 <= m <= 12 ->
  last_day_of_month y m = jan1 y + month_offset (is_leap y) m + days_in_month y m - 1.
Proof. intros H. unfold last_day_of_month. rewrite days_from_civil_month by lia. lia. Qed.

Lemma last_day_of_month_next y m : 1 <= m <= 11 -> last_day_of_month y m + 1 = days_from_civil y (m + 1) 1.
Proof.
  intros H. rewrite last_day_of_month_eq, dfc_first by lia.
  rewrite (month_offset_next (is_leap y) y m eq_refl) by lia. lia.
Qed.

Lemma last_day_of_dec y : last_day_of_month y 12 + 1 = jan1 (y + 1).
Proof.
  rewrite last_day_of_month_eq by lia. rewrite jan1_succ.
  pose proof (month_offset_dec (is_leap y) y eq_refl). lia.
Qed.

Lemma month_offset_mono lp m1 m2 : 1 <= m1 <= m2 -> m2 <= 12 -> month_offset lp m1 <= month_offset lp m2.
Proof.
  intros H1 H2.
  assert (C1 : m1 = 1 \/ m1 = 2 \/ m1 = 3 \/ m1 = 4 \/ m1 = 5 \/ m1 = 6 \/ m1 = 7 \/ m1 = 8 \/ m1 = 9 \/ m1 = 10 \/ m1 = 11 \/ m1 = 12) by lia.
  assert (C2 : m2 = 1 \/ m2 = 2 \/ m2 = 3 \/ m2 = 4 \/ m2 = 5 \/ m2 = 6 \/ m2 = 7 \/ m2 = 8 \/ m2 = 9 \/ m2 = 10 \/ m2 = 11 \/ m2 = 12) by lia.
  destruct lp;
    repeat (destruct C1 as [-> | C1]; [repeat (destruct C2 as [-> | C2]; [eval_mo; lia|]); subst m2; eval_mo; lia|]);
    subst m1; repeat (destruct C2 as [-> | C2]; [eval_mo; lia|]); subst m2; eval_mo; lia.
Qed.

Lemma start_le_end p : period_valid p = true -> start_date p <= end_date p.
Proof.
  rewrite period_valid_iff. destruct p as [y i n]. simpl. intros H.
  destruct i; unfold start_date, end_date; psimpl.
  - rewrite jan1_succ. pose proof (days_in_year_cases y). lia.
  - rewrite dfc_first, last_day_of_month_eq by lia.
    pose proof (month_offset_mono (is_leap y) (6 * (n - 1) + 1) (6 * n)). pose proof (days_in_month_bounds y (6 * n)). lia.
  - rewrite dfc_first, last_day_of_month_eq by lia.
    pose proof (month_offset_mono (is_leap y) (3 * (n - 1) + 1) (3 * n)). pose proof (days_in_month_bounds y (3 * n)). lia.
  - rewrite dfc_first, last_day_of_month_eq by lia. pose proof (days_in_month_bounds y n). lia.
  - lia.
  - lia.
Qed.

(* consecutive periods tile the time line: the next period starts the day after this one ends *)
Lemma tiling p : period_valid p = true -> start_date (next_period p) = end_date p + 1.
Proof.
  rewrite period_valid_iff. destruct p as [y i n]. unfold next_period. simpl. intros H.
  destruct (n =? periods_in_year i y) eqn:E.
  - apply Z.eqb_eq in E. destruct i; unfold start_date, end_date; psimpl; subst n.
    + lia.
    + change (6 * (1 - 1) + 1) with 1. change (6 * 2) with 12. rewrite last_day_of_dec. reflexivity.
    + change (3 * (1 - 1) + 1) with 1. change (3 * 4) with 12. rewrite last_day_of_dec. reflexivity.
    + rewrite last_day_of_dec. reflexivity.
    + unfold iso_week_start. pose proof (weeks_in_year_spec y). lia.
    + unfold date_of_doy. rewrite jan1_succ. lia.
  - apply Z.eqb_neq in E. destruct i; unfold start_date, end_date; psimpl.
    + lia.
    + replace (6 * (n + 1 - 1) + 1) with (6 * n + 1) by lia. rewrite <- last_day_of_month_next by lia. reflexivity.
    + replace (3 * (n + 1 - 1) + 1) with (3 * n + 1) by lia. rewrite <- last_day_of_month_next by lia. reflexivity.
    + rewrite <- last_day_of_month_next by lia. reflexivity.
    + unfold iso_week_start. lia.
    + unfold date_of_doy. lia.
Qed.

(* ------------------------------------------------------------------ the period containing a date; time_agg *)
Lemma month_of_range z : 1 <= month_of z <= 12.
Proof.
  pose proof (civil_from_days_valid z) as V. unfold month_of. destruct (civil_from_days z) as [[y m] d].
  unfold valid_date in V. lia.
Qed.

Lemma civil_decompose z : z = days_from_civil (year_of z) (month_of z) (day_of z)
                            /\ valid_date (year_of z) (month_of z) (day_of z) = true.
Proof.
  pose proof (civil_from_days_valid z) as V. pose proof (days_civil_roundtrip z) as R.
  unfold year_of, month_of, day_of. destruct (civil_from_days z) as [[y m] d]. split; [symmetry; exact R | exact V].
Qed.

Lemma period_of_date_contains i z :
  let q := period_of_date i z in
  p_ind q = i /\ period_valid q = true /\ start_date q <= z <= end_date q.
Proof.
  destruct (civil_decompose z) as [Hz V]. pose proof (month_of_range z) as Hm.
  set (y := year_of z) in *. set (m := month_of z) in *. set (d := day_of z) in *.
  assert (Hd : 1 <= d <= days_in_month y m) by (unfold valid_date in V; lia).
  assert (Z1 : z = jan1 y + month_offset (is_leap y) m + d - 1) by (rewrite Hz at 1; apply days_from_civil_month; lia).
  cbv zeta. destruct i; unfold period_of_date; fold y; fold m; (split; [reflexivity|]); rewrite period_valid_iff;
    unfold start_date, end_date; cbn [p_ind p_year p_num periods_in_year].
  - pose proof (year_of_bounds z). fold y in H. lia.
  - split; [lia|]. rewrite dfc_first, last_day_of_month_eq by lia.
    pose proof (month_offset_mono (is_leap y) (6 * ((m - 1) / 6 + 1 - 1) + 1) m).
    assert (m <= 6 * ((m - 1) / 6 + 1)) by lia.
    destruct (Z.eq_dec m (6 * ((m - 1) / 6 + 1))) as [Em | Nm].
    + rewrite <- Em. lia.
    + pose proof (month_offset_mono (is_leap y) (m + 1) (6 * ((m - 1) / 6 + 1))).
      rewrite (month_offset_next (is_leap y) y m eq_refl) in H1 by lia.
      pose proof (days_in_month_bounds y (6 * ((m - 1) / 6 + 1))). lia.
  - split; [lia|]. rewrite dfc_first, last_day_of_month_eq by lia.
    pose proof (month_offset_mono (is_leap y) (3 * ((m - 1) / 3 + 1 - 1) + 1) m).
    assert (m <= 3 * ((m - 1) / 3 + 1)) by lia.
    destruct (Z.eq_dec m (3 * ((m - 1) / 3 + 1))) as [Em | Nm].
    + rewrite <- Em. lia.
    + pose proof (month_offset_mono (is_leap y) (m + 1) (3 * ((m - 1) / 3 + 1))).
      rewrite (month_offset_next (is_leap y) y m eq_refl) in H1 by lia.
      pose proof (days_in_month_bounds y (3 * ((m - 1) / 3 + 1))). lia.
  - split; [lia|]. rewrite dfc_first, last_day_of_month_eq by lia. lia.
  - split; [apply iso_week_of_range|]. rewrite iso_week_start_of. pose proof (monday_of_spec z). lia.
  - split; [apply doy_of_bounds|]. fold (doy_of z). unfold y. rewrite date_of_doy_doy_of. lia.
Qed.

(* time_agg returns a valid period of the target indicator that contains the last day of its argument *)
Lemma time_agg_contains t p q : period_valid p = true -> time_agg t p = Some q ->
  p_ind q = t /\ period_valid q = true /\ start_date q <= end_date p <= end_date q.
Proof.
  intros V. unfold time_agg.
  destruct (rank t <? rank (p_ind p)); [discriminate|].
  destruct (ind_eqb t (p_ind p)) eqn:E.
  - intros H. injection H as <-. apply ind_eqb_eq in E. split; [auto|]. split; [exact V|].
    pose proof (start_le_end p V). lia.
  - intros H. injection H as <-. apply period_of_date_contains.
Qed.

Lemma time_agg_none_iff t p : time_agg t p = None <-> rank t < rank (p_ind p).
Proof.
  unfold time_agg. destruct (rank t <? rank (p_ind p)) eqn:E.
  - split; [lia | reflexivity].
  - destruct (ind_eqb t (p_ind p)); split; intros H; try discriminate; lia.
Qed.

(* ------------------------------------------------------------------ extractors / datediff / dateadd *)
Lemma datediff_sym a b : datediff a b = datediff b a.
Proof. unfold datediff. lia. Qed.

Lemma datediff_zero_iff a b : datediff a b = 0 <-> end_date a = end_date b.
Proof. unfold datediff. lia. Qed.

Lemma dateadd_days_inverse z n : dateadd (dateadd z n ID) (- n) ID = z.
Proof. unfold dateadd. lia. Qed.

Lemma dateadd_weeks_inverse z n : dateadd (dateadd z n IW) (- n) IW = z /\ iso_dow (dateadd z n IW) = iso_dow z.
Proof. unfold dateadd, iso_dow. split; lia. Qed.

Lemma dayofyear_range p : period_valid p = true -> 1 <= dayofyear p <= days_in_year (year_of (end_date p)).
Proof. intros _. apply doy_of_bounds. Qed.

Lemma dayofyear_day p : p_ind p = ID -> period_valid p = true -> dayofyear p = p_num p.
Proof.
  destruct p as [y i n]. simpl. intros ->. rewrite period_valid_iff. simpl. intros H.
  unfold dayofyear, end_date. simpl. apply doy_of_date_of_doy, H.
Qed.

Lemma getmonth_month p : p_ind p = IM -> period_valid p = true -> getmonth p = p_num p.
Proof.
  destruct p as [y i n]. simpl. intros ->. rewrite period_valid_iff. simpl. intros H.
  unfold getmonth, start_date. simpl. apply month_of_civil. unfold valid_date.
  pose proof (days_in_month_bounds y n). lia.
Qed.

(* ------------------------------------------------------------------ the macros against the specification *)
Lemma make_date_valid y m d : valid_date y m d = true -> make_date y m d = Some (days_from_civil y m d).
Proof. unfold make_date. intros ->. reflexivity. Qed.

Lemma valid_first y m : 1 <= m <= 12 -> valid_date y m 1 = true.
Proof. intros H. unfold valid_date. pose proof (days_in_month_bounds y m). lia. Qed.

Lemma last_day_first y m : 1 <= m <= 12 -> last_day (days_from_civil y m 1) = last_day_of_month y m.
Proof. intros H. unfold last_day. rewrite (civil_days_roundtrip y m 1 (valid_first y m H)). reflexivity. Qed.

(* on valid periods the start/end date macros compute the calendar's first/last day *)
Lemma start_date_impl_ok p : period_valid p = true -> start_date_impl p = Some (start_date p).
Proof.
  rewrite period_valid_iff. destruct p as [y i n]. simpl. intros H.
  destruct i; unfold start_date_impl, start_date; psimpl.
  - apply make_date_valid, valid_first. lia.
  - replace ((n - 1) * 6 + 1) with (6 * (n - 1) + 1) by lia. apply make_date_valid, valid_first. lia.
  - replace ((n - 1) * 3 + 1) with (3 * (n - 1) + 1) by lia. apply make_date_valid, valid_first. lia.
  - apply make_date_valid, valid_first. lia.
  - unfold strptime_gvu. pose proof (weeks_in_year_52_53 y). replace ((1 <=? n) && (n <=? 53)) with true by lia.
    f_equal. lia.
  - rewrite make_date_valid by (apply valid_first; lia). cbn [option_map]. f_equal. unfold date_of_doy, jan1. lia.
Qed.

Lemma days_in_month_12 y : days_in_month y 12 = 31.
Proof. reflexivity. Qed.
Lemma days_in_month_6 y : days_in_month y 6 = 30.
Proof. reflexivity. Qed.
Lemma valid_dec31 y : valid_date y 12 31 = true.
Proof. reflexivity. Qed.
Lemma valid_jun30 y : valid_date y 6 30 = true.
Proof. reflexivity. Qed.

Lemma end_date_impl_ok p : period_valid p = true -> end_date_impl p = Some (end_date p).
Proof.
  rewrite period_valid_iff. destruct p as [y i n]. simpl. intros H.
  destruct i; unfold end_date_impl, end_date; psimpl.
  - rewrite (make_date_valid y 12 31 (valid_dec31 y)).
    f_equal. pose proof (last_day_of_dec y) as L. unfold last_day_of_month in L. rewrite days_in_month_12 in L. lia.
  - assert (C : n = 1 \/ n = 2) by lia. destruct C as [-> | ->].
    + change (1 * 6) with 6. change (6 * 1) with 6. change (1 =? 1) with true. cbv iota.
      rewrite (make_date_valid y 6 30 (valid_jun30 y)). unfold last_day_of_month. rewrite days_in_month_6. reflexivity.
    + change (2 * 6) with 12. change (6 * 2) with 12. change (2 =? 1) with false. cbv iota.
      rewrite (make_date_valid y 12 31 (valid_dec31 y)). unfold last_day_of_month. rewrite days_in_month_12. reflexivity.
  - replace (n * 3) with (3 * n) by lia. rewrite make_date_valid by (apply valid_first; lia).
    cbn [option_map]. rewrite last_day_first by lia. reflexivity.
  - rewrite make_date_valid by (apply valid_first; lia). cbn [option_map]. rewrite last_day_first by lia. reflexivity.
  - unfold strptime_gvu. pose proof (weeks_in_year_52_53 y). replace ((1 <=? n) && (n <=? 53)) with true by lia.
    f_equal.
  - rewrite make_date_valid by (apply valid_first; lia). cbn [option_map]. f_equal. unfold date_of_doy, jan1. lia.
Qed.

Lemma dayofmonth_impl_ok p : period_valid p = true -> dayofmonth_impl p = Some (dayofmonth p).
Proof. intros V. unfold dayofmonth_impl. rewrite (end_date_impl_ok p V). reflexivity. Qed.

Lemma dayofyear_impl_ok p : period_valid p = true -> dayofyear_impl p = Some (dayofyear p).
Proof.
  intros V. unfold dayofyear_impl. rewrite (end_date_impl_ok p V).
  destruct (p_ind p) eqn:E; try reflexivity. rewrite (dayofyear_day p E V). reflexivity.
Qed.

Lemma getmonth_impl_ok p : period_valid p = true -> getmonth_impl p = Some (getmonth p).
Proof.
  intros V. pose proof (start_date_impl_ok p V) as S. revert V S. rewrite period_valid_iff.
  destruct p as [y i n]. simpl. intros H S.
  destruct i; unfold getmonth_impl, getmonth, start_date_impl, start_date in *; psimpl.
  - f_equal. symmetry. apply month_of_civil, valid_first. lia.
  - f_equal. replace (6 * (n - 1) + 1) with ((n - 1) * 6 + 1) by lia. symmetry. apply month_of_civil, valid_first. lia.
  - f_equal. replace (3 * (n - 1) + 1) with ((n - 1) * 3 + 1) by lia. symmetry. apply month_of_civil, valid_first. lia.
  - f_equal. symmetry. apply month_of_civil, valid_first. lia.
  - rewrite S. reflexivity.
  - rewrite make_date_valid by (apply valid_first; lia). cbn [option_map]. f_equal. f_equal. unfold date_of_doy, jan1. lia.
Qed.

Lemma datediff_impl_ok a b : period_valid a = true -> period_valid b = true -> datediff_impl a b = Some (datediff a b).
Proof. intros Va Vb. unfold datediff_impl. rewrite (end_date_impl_ok a Va), (end_date_impl_ok b Vb). reflexivity. Qed.

Lemma dateadd_impl_ok z n u : dateadd_impl z n u = dateadd z n u.
Proof. destruct u; unfold dateadd_impl, dateadd; try reflexivity; f_equal; lia. Qed.

Lemma time_agg_date_impl_ok z t : time_agg_date_impl z t = period_of_date t z.
Proof.
  pose proof (month_of_range z) as Hm.
  unfold time_agg_date_impl, time_agg_date_of, period_of_date, doy_of, year_of, month_of in *.
  destruct (civil_from_days z) as [[y m] d]. destruct t; try reflexivity.
  f_equal. rewrite Z.quot_div_nonneg by lia. reflexivity.
Qed.

Lemma time_agg_tp_impl_ok p t : period_valid p = true ->
  time_agg_tp_impl p t = match time_agg t p with Some q => AggOk q | None => AggFiner end.
Proof.
  intros V. unfold time_agg_tp_impl, time_agg_of_end, time_agg. destruct (rank t <? rank (p_ind p)); [reflexivity|].
  replace (ind_eqb (p_ind p) t) with (ind_eqb t (p_ind p)) by (destruct t, (p_ind p); reflexivity).
  destruct (ind_eqb t (p_ind p)); [reflexivity|].
  rewrite (end_date_impl_ok p V), time_agg_date_impl_ok. reflexivity.
Qed.

(* the row evaluated by the correspondence is made of the macro transcriptions themselves (sharing of vtl_tp_end_date only) *)
Lemma tie_scalar_row_unfold p :
  tie_scalar_row p =
  ([if period_valid p then 1 else 0; enc_day (start_date_impl p); enc_day (end_date_impl p);
    enc_num (getmonth_impl p); enc_num (dayofmonth_impl p); enc_num (dayofyear_impl p)]
   ++ map (fun t => enc_agg (time_agg_tp_impl p t)) all_ind ++ [enc_p (next_impl p)])%list.
Proof. reflexivity. Qed.

(* ------------------------------------------------------------------ vtl_tp_shift against the specification *)
(* the arithmetic branch (A/S/Q/M of the macro; every indicator before the fix) is correct for A, S, Q, M: every year, every shift *)
Lemma shift_before_fix_asqm p n : period_valid p = true ->
  (p_ind p = IA \/ p_ind p = IS \/ p_ind p = IQ \/ p_ind p = IM) -> shift_before_fix p n = shift p n.
Proof.
  rewrite period_valid_iff. destruct p as [y i n0]. simpl. intros H Hi.
  destruct i; try (exfalso; destruct Hi as [Hi | [Hi | [Hi | Hi]]]; discriminate);
    unfold shift_before_fix, shift, index, of_index; psimpl.
  - f_equal.
  - destruct (n0 + n <=? 0) eqn:E; f_equal; lia.
  - destruct (n0 + n <=? 0) eqn:E; f_equal; lia.
  - destruct (n0 + n <=? 0) eqn:E; f_equal; lia.
Qed.

Lemma time_agg_date_impl_W z : time_agg_date_impl z IW = mkP (iso_year_of z) IW (iso_week_of z).
Proof. unfold time_agg_date_impl, time_agg_date_of. destruct (civil_from_days z) as [[y m] d]. reflexivity. Qed.

Lemma time_agg_date_impl_D z : time_agg_date_impl z ID = mkP (year_of z) ID (doy_of z).
Proof. rewrite time_agg_date_impl_ok. reflexivity. Qed.

(* the macro after the fix computes the calendar shift for EVERY indicator, every year, every shift *)
Lemma macro_shift_ok p n : period_valid p = true -> shift_impl p n = Some (shift p n).
Proof.
  intros V. pose proof (start_date_impl_ok p V) as S. unfold shift_impl.
  destruct (p_ind p) eqn:Ei;
    try (f_equal; apply shift_before_fix_asqm; [exact V | rewrite Ei; tauto]).
  - rewrite S. cbn [option_map]. f_equal. rewrite time_agg_date_impl_W.
    unfold shift. rewrite Ei. cbn [of_index]. unfold index, start_date. rewrite Ei.
    pose proof (iso_week_start_monday (p_year p) (p_num p)) as M.
    replace (7 * ((iso_week_start (p_year p) (p_num p) + 3) / 7 + n) - 3) with (iso_week_start (p_year p) (p_num p) + 7 * n) by lia.
    reflexivity.
  - rewrite S. cbn [option_map]. f_equal. rewrite time_agg_date_impl_D.
    unfold shift. rewrite Ei. cbn [of_index]. unfold index, start_date. rewrite Ei. reflexivity.
Qed.

(* _TP_NEXT_PERIOD after fix 50e3447: vtl_periods_in_year is the calendar's number of periods, the step is the next period *)
Lemma periods_in_year_impl_ok i y : periods_in_year_impl i y = periods_in_year i y.
Proof.
  destruct i; try reflexivity. unfold periods_in_year_impl, periods_in_year.
  rewrite (doy_of_civil y 12 31 (valid_dec31 y)), month_offset_12. unfold days_in_year. destruct (is_leap y); reflexivity.
Qed.

Lemma macro_next_ok p : period_valid p = true -> next_impl p = next_period p.
Proof.
  rewrite period_valid_iff. intros V. unfold next_impl, next_period. rewrite periods_in_year_impl_ok.
  destruct (p_num p =? periods_in_year (p_ind p) (p_year p)) eqn:E.
  - apply Z.eqb_eq in E. replace (periods_in_year (p_ind p) (p_year p) <? p_num p + 1) with true by lia. reflexivity.
  - apply Z.eqb_neq in E. replace (periods_in_year (p_ind p) (p_year p) <? p_num p + 1) with false by lia. reflexivity.
Qed.

Lemma macro_shift_inverse p n : period_valid p = true -> opt_bind (shift_impl p n) (fun q => shift_impl q (- n)) = Some p.
Proof.
  intros V. rewrite (macro_shift_ok p n V). cbn [opt_bind]. rewrite (macro_shift_ok _ _ (shift_valid p n)), (shift_inverse p n V). reflexivity.
Qed.

Lemma macro_shift_injective p q n : period_valid p = true -> period_valid q = true -> shift_impl p n = shift_impl q n -> p = q.
Proof.
  intros Vp Vq E. rewrite (macro_shift_ok p n Vp), (macro_shift_ok q n Vq) in E. injection E as E. exact (shift_injective p q n Vp Vq E).
Qed.

(* ------------------------------------------------------------------ dataset level *)
Lemma flow_stock_from_inverse l : forall acc, stock_to_flow_from acc (flow_to_stock_from acc l) = l.
Proof. induction l as [|x r IH]; intros acc; simpl; [reflexivity|]. rewrite IH. f_equal. lia. Qed.

Lemma flow_stock_inverse l : stock_to_flow (flow_to_stock l) = l.
Proof. apply flow_stock_from_inverse. Qed.

Lemma stock_flow_from_inverse l : forall acc, flow_to_stock_from acc (stock_to_flow_from acc l) = l.
Proof. induction l as [|x r IH]; intros acc; simpl; [reflexivity|]. replace (acc + (x - acc)) with x by lia. rewrite IH. reflexivity. Qed.

Lemma stock_flow_inverse l : flow_to_stock (stock_to_flow l) = l.
Proof. apply stock_flow_from_inverse. Qed.

(* fill_time_series: the filled range consists of valid periods of the same indicator, contains every valid period between the
   bounds, and nothing else *)
Lemma fill_range_spec lo hi q : period_valid lo = true -> index lo <= index hi ->
  (In q (fill_range lo hi) <-> (p_ind q = p_ind lo /\ period_valid q = true /\ index lo <= index q <= index hi)).
Proof.
  intros Vlo Hle. unfold fill_range. rewrite in_map_iff. split.
  - intros [k [<- Hk]]. apply zrange_In in Hk; [|lia].
    rewrite of_index_ind, of_index_valid, index_of_index. repeat split; lia.
  - intros [Hi [Vq Hq]]. exists (index q). split.
    + rewrite <- Hi. apply of_index_index, Vq.
    + apply zrange_In; lia.
Qed.

Lemma fill_range_length lo hi : index lo <= index hi -> Z.of_nat (List.length (fill_range lo hi)) = index hi - index lo + 1.
Proof.
  intros H. unfold fill_range, zrange. rewrite map_length.
  assert (L : forall fuel lo0, List.length (zrange_fuel fuel lo0) = fuel) by (induction fuel; intros; simpl; auto).
  rewrite L. lia.
Qed.

(* ================================================================== strings: spellings and output formats *)
Open Scope string_scope.
Open Scope Z_scope.

Lemma digit_char_ok d : 0 <= d <= 9 -> is_digit (digit_char d) = true /\ digit_val (digit_char d) = d.
Proof.
  intros H.
  assert (C : d = 0 \/ d = 1 \/ d = 2 \/ d = 3 \/ d = 4 \/ d = 5 \/ d = 6 \/ d = 7 \/ d = 8 \/ d = 9) by lia.
  repeat (destruct C as [-> | C]; [split; reflexivity|]). subst d. split; reflexivity.
Qed.

Lemma pad4_digits y : 0 <= y <= 9999 -> all_digits (pad4 y) = true /\ digits_val (pad4 y) 0 = y.
Proof.
  intros H. unfold pad4, pad3, pad2, str1. cbn [all_digits digits_val].
  destruct (digit_char_ok (y / 1000 mod 10)) as [A1 B1]; [lia|].
  destruct (digit_char_ok (y / 100 mod 10)) as [A2 B2]; [lia|].
  destruct (digit_char_ok (y / 10 mod 10)) as [A3 B3]; [lia|].
  destruct (digit_char_ok (y mod 10)) as [A4 B4]; [lia|].
  rewrite A1, A2, A3, A4, B1, B2, B3, B4. split; [reflexivity | lia].
Qed.

Lemma substring_0_all s : forall n, (String.length s <= n)%nat -> substring 0 n s = s.
Proof.
  induction s as [|c r IH]; intros n H.
  - destruct n; reflexivity.
  - destruct n as [|n]; [simpl in H; lia|]. simpl. rewrite IH; [reflexivity | simpl in H; lia].
Qed.

Lemma substring_0_0 t : substring 0 0 t = "".
Proof. destruct t; reflexivity. Qed.

Lemma pad4_prefix y t :
  slen (pad4 y ++ t) = 4 + slen t /\ sub3 (pad4 y ++ t) 1 4 = pad4 y /\ sub2 (pad4 y ++ t) 5 = t.
Proof.
  unfold pad4, pad3, pad2, str1, slen, sub3, sub2. cbn [append String.length].
  change (Z.to_nat (1 - 1)) with 0%nat. change (Z.to_nat 4) with 4%nat. change (Z.to_nat (5 - 1)) with 4%nat.
  cbn [substring]. rewrite substring_0_0. split; [lia|]. split; [reflexivity|]. apply substring_0_all. lia.
Qed.

(* parse_in on "YYYY" ++ suffix reduces to the suffix parser *)
Lemma parse_in_pad4 y t : 0 <= y <= 9999 ->
  parse_in (pad4 y ++ t) =
  opt_bind (parse_suffix (is_leap y) t) (fun '(i, n) => let p := mkP y i n in if period_valid p then Some p else None).
Proof.
  intros H. unfold parse_in. destruct (pad4_prefix y t) as [L [P S]]. destruct (pad4_digits y H) as [D V].
  rewrite L, P, S, D, V. replace (4 <=? 4 + slen t) with true by (unfold slen; lia). reflexivity.
Qed.

(* static bound of the period number, given the leap flag of the year *)
Definition max_num (lp : bool) (i : ind) : Z :=
  match i with IA => 1 | IS => 2 | IQ => 4 | IM => 12 | IW => 53 | ID => if lp then 366 else 365 end.

Lemma valid_max_num p : period_valid p = true -> 1 <= p_num p <= max_num (is_leap (p_year p)) (p_ind p).
Proof.
  rewrite period_valid_iff. destruct p as [y i n]. cbn [p_ind p_year p_num]. intros H.
  destruct i; cbn [periods_in_year max_num] in *; try lia.
  - pose proof (weeks_in_year_52_53 y). lia.
  - unfold days_in_year in H. destruct (is_leap y); lia.
Qed.

Definition suffix_sweep (check : bool -> ind -> Z -> bool) : bool :=
  forallb (fun lp => forallb (fun i => all_range 1 (max_num lp i) (check lp i)) all_ind) [true; false].

Lemma suffix_sweep_sound check : suffix_sweep check = true ->
  forall lp i n, 1 <= n <= max_num lp i -> check lp i n = true.
Proof.
  unfold suffix_sweep. intros H lp i n Hn. rewrite forallb_forall in H.
  assert (Hlp : In lp [true; false]) by (destruct lp; simpl; auto).
  specialize (H lp Hlp). rewrite forallb_forall in H.
  assert (Hi : In i all_ind) by (destruct i; simpl; tauto).
  specialize (H i Hi). apply (all_range_sound _ _ _ H). lia.
Qed.

Definition oin_eqb (a : option (ind * Z)) (i : ind) (n : Z) : bool :=
  match a with Some (i', n') => ind_eqb i' i && (n' =? n) | None => false end.
Lemma oin_eqb_eq a i n : oin_eqb a i n = true -> a = Some (i, n).
Proof.
  destruct a as [[i' n']|]; simpl; [|discriminate]. rewrite andb_true_iff, ind_eqb_eq, Z.eqb_eq. intros [-> ->]. reflexivity.
Qed.

(* every documented spelling of (i, n) parses back to (i, n) *)
Definition spell_ok (lp : bool) (i : ind) (n : Z) : bool :=
  forallb (fun s => oin_eqb (parse_suffix lp s) i n) (spelling_suffixes lp i n).
Lemma spell_ok_all : suffix_sweep spell_ok = true.
Proof. vm_compute. reflexivity. Qed.

(* every output format that can express the indicator renders a string that parses back; the others render nothing *)
Definition render_ok (f : fmt) (lp : bool) (i : ind) (n : Z) : bool :=
  match render_suffix f lp i n with
  | Some s => expressible f i && oin_eqb (parse_suffix lp s) i n
  | None => negb (expressible f i)
  end.
Lemma render_ok_all f : suffix_sweep (render_ok f) = true.
Proof. destruct f; vm_compute; reflexivity. Qed.

Definition canonical_ok (lp : bool) (i : ind) (n : Z) : bool := oin_eqb (parse_suffix lp (canonical_suffix i n)) i n.
Lemma canonical_ok_all : suffix_sweep canonical_ok = true.
Proof. vm_compute. reflexivity. Qed.

Lemma parse_in_suffix_ok p t : period_valid p = true -> 0 <= p_year p <= 9999 ->
  parse_suffix (is_leap (p_year p)) t = Some (p_ind p, p_num p) -> parse_in (pad4 (p_year p) ++ t) = Some p.
Proof.
  intros V Y E. rewrite (parse_in_pad4 _ t Y), E. cbn [opt_bind]. cbv zeta.
  destruct p as [y i n]. cbn [p_year p_ind p_num] in *. rewrite V. reflexivity.
Qed.

Lemma spellings_agree p s : period_valid p = true -> 0 <= p_year p <= 9999 ->
  In s (spellings p) -> parse_in s = Some p.
Proof.
  intros V Y Hs. unfold spellings in Hs. apply in_map_iff in Hs. destruct Hs as [t [<- Ht]].
  apply (parse_in_suffix_ok p t V Y), oin_eqb_eq.
  pose proof (suffix_sweep_sound _ spell_ok_all _ _ _ (valid_max_num p V)) as H.
  unfold spell_ok in H. rewrite forallb_forall in H. exact (H t Ht).
Qed.

Lemma spellings_nonempty p : spellings p <> [].
Proof. unfold spellings. destruct (p_ind p); simpl; discriminate. Qed.

Lemma render_parse f p s : period_valid p = true -> 0 <= p_year p <= 9999 ->
  render f p = Some s -> parse_in s = Some p.
Proof.
  intros V Y R. unfold render in R.
  destruct (render_suffix f (is_leap (p_year p)) (p_ind p) (p_num p)) as [t|] eqn:E; [|discriminate].
  injection R as <-. apply (parse_in_suffix_ok p t V Y), oin_eqb_eq.
  pose proof (suffix_sweep_sound _ (render_ok_all f) _ _ _ (valid_max_num p V)) as H.
  unfold render_ok in H. rewrite E in H. apply andb_true_iff in H. tauto.
Qed.

Lemma render_none_iff f p : render f p = None <-> expressible f (p_ind p) = false.
Proof.
  unfold render. destruct f, (p_ind p); simpl; split; intros H; try reflexivity; try discriminate.
Qed.

Lemma render_none_iff_gregorian f p :
  render f p = None <-> (f = FGregorian /\ (p_ind p = IS \/ p_ind p = IQ \/ p_ind p = IW)).
Proof.
  rewrite render_none_iff. destruct f, (p_ind p); simpl; split; intros H; try discriminate; try reflexivity;
    try (split; [reflexivity | tauto]); destruct H as [H1 H2]; try discriminate; destruct H2 as [H2 | [H2 | H2]]; discriminate.
Qed.

Lemma canonical_parse p : period_valid p = true -> 0 <= p_year p <= 9999 -> parse_in (canonical p) = Some p.
Proof.
  intros V Y. unfold canonical. apply (parse_in_suffix_ok p _ V Y), oin_eqb_eq.
  exact (suffix_sweep_sound _ canonical_ok_all _ _ _ (valid_max_num p V)).
Qed.

(* two valid periods with a common rendering are equal: renderings are unambiguous *)
Lemma render_injective f p q s : period_valid p = true -> period_valid q = true ->
  0 <= p_year p <= 9999 -> 0 <= p_year q <= 9999 -> render f p = Some s -> render f q = Some s -> p = q.
Proof.
  intros Vp Vq Yp Yq Rp Rq. pose proof (render_parse f p s Vp Yp Rp) as A. pose proof (render_parse f q s Vq Yq Rq) as B.
  rewrite A in B. injection B. auto.
Qed.

Lemma parse_in_valid s p : parse_in s = Some p -> period_valid p = true.
Proof.
  unfold parse_in. destruct ((4 <=? slen s) && all_digits (sub3 s 1 4)); [|discriminate].
  destruct (parse_suffix (is_leap (digits_val (sub3 s 1 4) 0)) (sub2 s 5)) as [[i n]|]; [|discriminate].
  cbn [opt_bind]. cbv zeta.
  destruct (period_valid (mkP (digits_val (sub3 s 1 4) 0) i n)) eqn:E; [|discriminate].
  intros H. injection H as <-. exact E.
Qed.

(* ================================================================== the engine's string code against the documented forms *)
(* ------------------------------------------------------------------ Python renderers against the documented formats *)
Lemma dec_int_pad4 y : 1000 <= y <= 9999 -> dec_int y = pad4 y.
Proof.
  intros H. unfold dec_int. replace (y <? 0) with false by lia.
  unfold dec_nat, pad4, pad3, pad2, str1. cbn [dec_fuel].
  replace (y / 10 =? 0) with false by lia. replace (y / 10 / 10 =? 0) with false by lia.
  replace (y / 10 / 10 / 10 =? 0) with false by lia. replace (y / 10 / 10 / 10 / 10 =? 0) with true by lia.
  replace (y / 10 / 10 / 10 mod 10) with (y / 1000 mod 10) by lia.
  replace (y / 10 / 10 mod 10) with (y / 100 mod 10) by lia. reflexivity.
Qed.

(* the four-digit year field of the engine (LPAD(..., 4, '0') / {year:04d}) is the documented YYYY for every year 0..9999
   (finite domain, checked exhaustively) *)
Definition zfill4_ok (y : Z) : bool := String.eqb (zfill4 y) (pad4 y).
Lemma zfill4_ok_all : all_range 0 10000 zfill4_ok = true.
Proof. vm_compute. reflexivity. Qed.
Lemma zfill4_pad4 y : 0 <= y <= 9999 -> zfill4 y = pad4 y.
Proof.
  intros H. assert (Hr : 0 <= y < 0 + 10000) by lia.
  pose proof (all_range_sound _ _ _ zfill4_ok_all y Hr) as E. apply String.eqb_eq in E. exact E.
Qed.


Definition small_ok (n : Z) : bool :=
  String.eqb (dec_int n) (dec_nat n) && (if n <=? 99 then String.eqb (py02 n) (pad2 n) else true) && String.eqb (py03 n) (pad3 n).
Lemma small_ok_all : all_range 1 366 small_ok = true.
Proof. vm_compute. reflexivity. Qed.
Lemma small_nums n : 1 <= n <= 366 -> dec_int n = dec_nat n /\ (n <= 99 -> py02 n = pad2 n) /\ py03 n = pad3 n.
Proof.
  intros H. assert (Hr : 1 <= n < 1 + 366) by lia. pose proof (all_range_sound _ _ _ small_ok_all n Hr) as S.
  unfold small_ok in S. apply andb_true_iff in S. destruct S as [S S3]. apply andb_true_iff in S. destruct S as [S1 S2].
  apply String.eqb_eq in S1. apply String.eqb_eq in S3. split; [exact S1|]. split; [|exact S3].
  intros Hn. replace (n <=? 99) with true in S2 by lia. apply String.eqb_eq in S2. exact S2.
Qed.

(* month and day of the n-th day of the year, from the calendar *)
Definition md_ok (lp : bool) (n : Z) : bool :=
  let '(m, d) := md_of_doy lp n in md_valid lp m d && (month_offset lp m + d =? n).
Lemma md_ok_all (lp : bool) : all_range 1 (if lp then 366 else 365) (md_ok lp) = true.
Proof. destruct lp; vm_compute; reflexivity. Qed.

Lemma md_valid_date y m d : md_valid (is_leap y) m d = true -> valid_date y m d = true.
Proof.
  unfold md_valid, valid_date, days_in_month, month_lengths. intros H.
  assert (Hm : 1 <= m <= 12) by lia.
  assert (C : m = 1 \/ m = 2 \/ m = 3 \/ m = 4 \/ m = 5 \/ m = 6 \/ m = 7 \/ m = 8 \/ m = 9 \/ m = 10 \/ m = 11 \/ m = 12) by lia.
  revert H. destruct (is_leap y);
    repeat (destruct C as [-> | C]; [cbn [Z.eqb Pos.eqb orb Z.sub Z.to_nat nth]; vm_compute (Z.to_nat _); cbn [nth]; lia|]);
    subst m; vm_compute (Z.to_nat _); cbn [nth Z.eqb Pos.eqb orb]; lia.
Qed.

Lemma civil_of_doy y n : 1 <= n <= days_in_year y ->
  civil_from_days (jan1 y + (n - 1)) = (y, fst (md_of_doy (is_leap y) n), snd (md_of_doy (is_leap y) n)).
Proof.
  intros H.
  assert (Hr : 1 <= n < 1 + (if is_leap y then 366 else 365)) by (unfold days_in_year in H; destruct (is_leap y); lia).
  pose proof (all_range_sound _ _ _ (md_ok_all (is_leap y)) n Hr) as S. unfold md_ok in S.
  destruct (md_of_doy (is_leap y) n) as [m d]. cbn [fst snd].
  apply andb_true_iff in S. destruct S as [V E]. apply Z.eqb_eq in E.
  pose proof (md_valid_date y m d V) as V'.
  rewrite <- (civil_days_roundtrip y m d V'). f_equal.
  assert (Hm : 1 <= m <= 12) by (unfold valid_date in V'; lia).
  rewrite (days_from_civil_month y m d Hm). lia.
Qed.

Lemma render_date_doy y n : 0 <= y <= 9999 -> 1 <= n <= days_in_year y ->
  render_date (jan1 y + (n - 1)) = pad4 y ++ date_suffix (is_leap y) n.
Proof.
  intros Y H. unfold render_date, date_suffix. rewrite (civil_of_doy y n H).
  destruct (md_of_doy (is_leap y) n) as [m d]. cbn [fst snd]. reflexivity.
Qed.

Lemma valid_num_366 p : period_valid p = true -> 1 <= p_num p <= 366.
Proof. intros V. pose proof (valid_max_num p V) as H. unfold max_num in H. destruct (p_ind p), (is_leap (p_year p)); lia. Qed.

Lemma valid_num_99 p : period_valid p = true -> p_ind p <> ID -> 1 <= p_num p <= 99.
Proof. intros V Hi. pose proof (valid_max_num p V) as H. unfold max_num in H. destruct (p_ind p), (is_leap (p_year p)); try lia; congruence. Qed.

(* the Python renderers (after fix aa363dc) produce exactly the documented representations for every year 1..9999 *)
Lemma py_render_ok f p : period_valid p = true -> 1 <= p_year p <= 9999 ->
  py_render f p = match render f p with Some s => CkOk s | None => CkErr "2-1-19-21" end.
Proof.
  intros V Y. pose proof (valid_num_366 p V) as N. destruct (small_nums (p_num p) N) as [D1 [D2 D3]].
  pose proof (valid_num_99 p V) as N99.
  unfold py_render, py_render_with, render, render_suffix, py_iso_date. rewrite (zfill4_pad4 (p_year p)) by lia. rewrite D1.
  replace (p_year p <? 1) with false by lia.
  destruct p as [y i n]. cbn [p_year p_ind p_num] in *.
  destruct f, i; cbn [option_map ind_letter]; try reflexivity;
    try (rewrite D2 by (assert (IM <> ID) by discriminate; assert (IW <> ID) by discriminate; lia); reflexivity);
    try (rewrite D3; reflexivity);
    try (rewrite render_date_doy by (try lia; apply period_valid_iff in V; exact V); reflexivity).
Qed.

Lemma py_str_canonical p : period_valid p = true -> 0 <= p_year p <= 9999 -> py_str p = canonical p.
Proof.
  intros V Y. pose proof (valid_num_366 p V) as N. destruct (small_nums (p_num p) N) as [D1 [D2 D3]].
  pose proof (valid_num_99 p V) as N99.
  unfold py_str, py_str_with, canonical, canonical_suffix. rewrite (zfill4_pad4 _ Y).
  destruct p as [y i n]. cbn [p_year p_ind p_num] in *.
  destruct i; cbn [ind_letter]; try reflexivity; try (rewrite D1; reflexivity).
  - fold (py02 n). rewrite D2 by (assert (IM <> ID) by discriminate; lia). reflexivity.
  - fold (py02 n). rewrite D2 by (assert (IW <> ID) by discriminate; lia). reflexivity.
  - fold (py03 n). rewrite D3. reflexivity.
Qed.

(* regression witness: before fix aa363dc the Python side left the documented YYYY form below year 1000 *)
Lemma py_before_fix_low_year_refuted :
  exists p, period_valid p = true /\ 0 <= p_year p <= 9999 /\
            py_render_before_fix FVtl p <> match render FVtl p with Some s => CkOk s | None => CkErr "2-1-19-21" end
            /\ py_str_before_fix p <> canonical p.
Proof. exists (mkP 1 IM 1). split; [reflexivity|]. split; [cbn [p_year]; lia|]. split; vm_compute; discriminate. Qed.

(* ------------------------------------------------------------------ SQL renderers (the four vtl_period_to_ macros) on the canonical string *)
Definition S4 (a b c d : ascii) (t : string) : string := String a (String b (String c (String d t))).
Definition render_impl_expect (f : fmt) (a b c d : ascii) (i : ind) (n : Z) : sres :=
  match f, i with
  | FGregorian, ID | FNatural, ID => doy_to_date_impl (S4 a b c d "") (Some n)
  | _, _ => match render_suffix f false i n with Some t => SOk (S4 a b c d t) | None => SErr end
  end.
Ltac enum_cases H tac := repeat (destruct H as [<- | H]; [tac|]); try (destruct H).

(* the macros never look at the four year characters: proved for ARBITRARY characters a b c d by running the macro on every
   (indicator, number) with the year characters left symbolic *)
Lemma render_impl_S4 a b c d f i n : 1 <= n <= static_max i ->
  render_impl f (S4 a b c d (canonical_suffix i n)) = render_impl_expect f a b c d i n.
Proof.
  intros H. assert (Hin : In n (zrange 1 (static_max i))) by (apply zrange_In; [destruct i; simpl; lia | lia]).
  destruct i; vm_compute in Hin; enum_cases Hin ltac:(destruct f; reflexivity).
Qed.

Lemma pad4_S4 y t : pad4 y ++ t = S4 (digit_char (y / 1000 mod 10)) (digit_char (y / 100 mod 10)) (digit_char (y / 10 mod 10)) (digit_char (y mod 10)) t.
Proof. reflexivity. Qed.

Lemma doy_to_date_impl_ok y n : 0 <= y <= 9999 -> 1 <= n <= days_in_year y ->
  doy_to_date_impl (pad4 y) (Some n) = SOk (pad4 y ++ date_suffix (is_leap y) n).
Proof.
  intros Y H. unfold doy_to_date_impl. destruct (pad4_digits y Y) as [D V]. rewrite D, V.
  change (slen (pad4 y) =? 4) with true. cbn [andb]. rewrite (render_date_doy y n Y H). reflexivity.
Qed.

Lemma static_max_ge p : period_valid p = true -> 1 <= p_num p <= static_max (p_ind p).
Proof. intros V. pose proof (valid_max_num p V) as H. unfold max_num in H. unfold static_max. destruct (p_ind p), (is_leap (p_year p)); lia. Qed.

(* the four SQL renderers applied to the canonical string give the documented representation, or the error for S/Q/W in
   sdmx_gregorian — every valid period, every year 0..9999 *)
Lemma render_impl_ok f p : period_valid p = true -> 0 <= p_year p <= 9999 ->
  render_impl f (canonical p) = match render f p with Some s => SOk s | None => SErr end.
Proof.
  intros V Y. unfold canonical. rewrite pad4_S4, (render_impl_S4 _ _ _ _ f _ _ (static_max_ge p V)).
  unfold render_impl_expect, render.
  assert (Hd : p_ind p = ID -> 1 <= p_num p <= days_in_year (p_year p)) by (intros E; apply period_valid_iff in V; rewrite E in V; exact V).
  destruct p as [y i n]. cbn [p_year p_ind p_num] in *.
  destruct f, i; cbn [render_suffix option_map]; try reflexivity;
    change (S4 (digit_char (y / 1000 mod 10)) (digit_char (y / 100 mod 10)) (digit_char (y / 10 mod 10)) (digit_char (y mod 10)) "") with (pad4 y);
    rewrite (doy_to_date_impl_ok y n Y (Hd eq_refl)); reflexivity.
Qed.

(* vtl_period_to_string on the struct: CAST(year AS VARCHAR) is unpadded, so it is the canonical form only from year 1000 on *)
Definition lpad_ok (n : Z) : bool :=
  String.eqb (lpad0 (dec_int n) 1) (if n <=? 9 then dec_nat n else sub3 (dec_nat n) 1 1)
  && (if n <=? 99 then String.eqb (lpad0 (dec_int n) 2) (pad2 n) else true) && String.eqb (lpad0 (dec_int n) 3) (pad3 n).
Lemma lpad_ok_all : all_range 1 366 lpad_ok = true.
Proof. vm_compute. reflexivity. Qed.

Lemma period_to_string_impl_ok p : period_valid p = true -> 0 <= p_year p <= 9999 -> period_to_string_impl p = canonical p.
Proof.
  intros V Y. pose proof (valid_num_366 p V) as N. pose proof (valid_num_99 p V) as N99. pose proof (valid_max_num p V) as M.
  assert (Hr : 1 <= p_num p < 1 + 366) by lia. pose proof (all_range_sound _ _ _ lpad_ok_all _ Hr) as L.
  unfold lpad_ok in L. apply andb_true_iff in L. destruct L as [L L3]. apply andb_true_iff in L. destruct L as [L1 L2].
  apply String.eqb_eq in L1. apply String.eqb_eq in L3.
  unfold period_to_string_impl, period_to_string_with, canonical, canonical_suffix. rewrite (zfill4_pad4 _ Y).
  destruct p as [y i n]. cbn [p_year p_ind p_num] in *. unfold max_num in M.
  destruct i; cbn [ind_letter num_width]; try reflexivity.
  - rewrite L1. replace (n <=? 9) with true by lia. reflexivity.
  - rewrite L1. replace (n <=? 9) with true by lia. reflexivity.
  - replace (n <=? 99) with true in L2 by lia. apply String.eqb_eq in L2. rewrite L2. reflexivity.
  - replace (n <=? 99) with true in L2 by lia. apply String.eqb_eq in L2. rewrite L2. reflexivity.
  - rewrite L3. reflexivity.
Qed.

Lemma period_to_string_before_fix_refuted :
  exists p, period_valid p = true /\ period_to_string_before_fix p <> canonical p
            /\ period_parse_impl (period_to_string_before_fix p) = None.
Proof. exists (mkP 1 IM 1). split; [reflexivity|]. split; vm_compute; [discriminate | reflexivity]. Qed.

(* ------------------------------------------------------------------ vtl_period_normalize on every documented spelling *)
Definition plain_spellings (i : ind) (n : Z) : list string :=
  match i with ID => removelast (spelling_suffixes false ID n) | _ => spelling_suffixes false i n end.

Lemma spelling_suffixes_split lp i n :
  spelling_suffixes lp i n = (plain_spellings i n ++ match i with ID => [date_suffix lp n] | _ => [] end)%list.
Proof. destruct i; try (cbn [plain_spellings spelling_suffixes]; rewrite app_nil_r; reflexivity). reflexivity. Qed.

Lemma normalize_plain_S4 a b c d i n s : 1 <= n <= static_max i -> In s (plain_spellings i n) ->
  period_normalize_impl (S4 a b c d s) = SOk (S4 a b c d (canonical_suffix i n)).
Proof.
  intros H. assert (Hin : In n (zrange 1 (static_max i))) by (apply zrange_In; [destruct i; simpl; lia | lia]).
  destruct i; vm_compute in Hin;
    enum_cases Hin ltac:(let Hs := fresh "Hs" in intros Hs; vm_compute in Hs; enum_cases Hs ltac:(reflexivity)).
Qed.

(* the ISO date spelling YYYY-MM-DD *)
Lemma normalize_date_S4 a b c d m dd : 1 <= m <= 12 -> 1 <= dd <= 31 ->
  period_normalize_impl (S4 a b c d ("-" ++ pad2 m ++ "-" ++ pad2 dd)) =
  norm_num 3 (cast_date_doy (S4 a b c d ("-" ++ pad2 m ++ "-" ++ pad2 dd))) false (S4 a b c d "-D").
Proof.
  intros Hm Hd.
  assert (Im : In m (zrange 1 12)) by (apply zrange_In; lia). assert (Id : In dd (zrange 1 31)) by (apply zrange_In; lia).
  vm_compute in Im. vm_compute in Id.
  enum_cases Im ltac:(let H := fresh "H" in pose proof Id as H; enum_cases H ltac:(reflexivity)).
Qed.

Lemma pad2_digits n : 0 <= n <= 99 -> parse_digits (pad2 n) = Some n.
Proof.
  intros H. unfold parse_digits, pad2, str1. cbn [all_digits digits_val].
  destruct (digit_char_ok (n / 10 mod 10)) as [A1 B1]; [lia|]. destruct (digit_char_ok (n mod 10)) as [A2 B2]; [lia|].
  rewrite A1, A2, B1, B2. cbn [andb]. f_equal. lia.
Qed.

Lemma cast_date_doy_ok y m dd : 0 <= y <= 9999 -> valid_date y m dd = true ->
  cast_date_doy (pad4 y ++ "-" ++ pad2 m ++ "-" ++ pad2 dd) = Some (month_offset (is_leap y) m + dd).
Proof.
  intros Y V. destruct (pad4_digits y Y) as [D Vy].
  assert (Hm : 1 <= m <= 12 /\ 1 <= dd <= 31) by (unfold valid_date in V; pose proof (days_in_month_bounds y m); lia).
  unfold cast_date_doy.
  change (slen (pad4 y ++ "-" ++ pad2 m ++ "-" ++ pad2 dd) =? 10) with true.
  change (sub3 (pad4 y ++ "-" ++ pad2 m ++ "-" ++ pad2 dd) 1 4) with (pad4 y).
  change (sub3 (pad4 y ++ "-" ++ pad2 m ++ "-" ++ pad2 dd) 5 1) with "-".
  change (sub3 (pad4 y ++ "-" ++ pad2 m ++ "-" ++ pad2 dd) 8 1) with "-".
  change (sub3 (pad4 y ++ "-" ++ pad2 m ++ "-" ++ pad2 dd) 6 2) with (pad2 m).
  change (sub3 (pad4 y ++ "-" ++ pad2 m ++ "-" ++ pad2 dd) 9 2) with (pad2 dd).
  rewrite D, Vy. change ("-" =s "-") with true. cbn [andb].
  rewrite (pad2_digits m) by lia. rewrite (pad2_digits dd) by lia. cbn [opt_bind]. rewrite V.
  rewrite (doy_of_civil y m dd V). reflexivity.
Qed.

(* vtl_period_normalize maps every documented spelling of a valid period to its canonical form — every year 0..9999 *)
Lemma period_normalize_impl_ok p s : period_valid p = true -> 0 <= p_year p <= 9999 ->
  In s (spellings p) -> period_normalize_impl s = SOk (canonical p).
Proof.
  intros V Y Hs. unfold spellings in Hs. apply in_map_iff in Hs. destruct Hs as [t [<- Ht]].
  rewrite spelling_suffixes_split in Ht. apply in_app_or in Ht. unfold canonical. destruct Ht as [Ht | Ht].
  - rewrite !pad4_S4. apply normalize_plain_S4; [apply static_max_ge, V | exact Ht].
  - destruct (p_ind p) eqn:Ei; try (destruct Ht; fail). destruct Ht as [<- | []].
    assert (Hn : 1 <= p_num p <= days_in_year (p_year p)) by (apply period_valid_iff in V; rewrite Ei in V; exact V).
    assert (Hr : 1 <= p_num p < 1 + (if is_leap (p_year p) then 366 else 365))
      by (unfold days_in_year in Hn; destruct (is_leap (p_year p)); lia).
    pose proof (all_range_sound _ _ _ (md_ok_all (is_leap (p_year p))) _ Hr) as S. unfold md_ok in S.
    unfold date_suffix. destruct (md_of_doy (is_leap (p_year p)) (p_num p)) as [m dd].
    apply andb_true_iff in S. destruct S as [Vm E]. apply Z.eqb_eq in E.
    pose proof (md_valid_date _ _ _ Vm) as Vd.
    assert (Hm : 1 <= m <= 12 /\ 1 <= dd <= 31) by (unfold valid_date in Vd; pose proof (days_in_month_bounds (p_year p) m); lia).
    rewrite pad4_S4, normalize_date_S4 by lia. rewrite <- pad4_S4. rewrite (cast_date_doy_ok _ _ _ Y Vd), E.
    pose proof (valid_num_366 p V) as N. assert (Hr2 : 1 <= p_num p < 1 + 366) by lia.
    pose proof (all_range_sound _ _ _ lpad_ok_all _ Hr2) as L. unfold lpad_ok in L.
    apply andb_true_iff in L. destruct L as [_ L3]. apply String.eqb_eq in L3.
    unfold norm_num. change (3 =? 1) with false. cbv iota. rewrite L3. reflexivity.
Qed.

(* Python and SQL renderers agree (years 1..9999) *)
Definition sres_ck (r : sres) : ckres := match r with SOk s => CkOk s | SNull => CkErr "NULL" | SErr => CkErr "2-1-19-21" end.
Lemma py_sql_render_agree f p : period_valid p = true -> 1 <= p_year p <= 9999 ->
  py_render f p = sres_ck (render_impl f (period_to_string_impl p)).
Proof.
  intros V Y. assert (Y0 : 0 <= p_year p <= 9999) by lia.
  rewrite (period_to_string_impl_ok p V Y0), (render_impl_ok f p V Y0), (py_render_ok f p V Y).
  destruct (render f p); reflexivity.
Qed.
