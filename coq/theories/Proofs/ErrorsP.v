From Coq Require Import String List Bool NArith.
Import ListNotations.
From VTL Require Import Model.Errors.
Open Scope string_scope.

Lemma mem_In k l : mem k l = true <-> In k l.
Proof.
  unfold mem. rewrite existsb_exists. split.
  - intros [x [Hin Heq]]. apply String.eqb_eq in Heq. subst. exact Hin.
  - intros H. exists k. split; [exact H | apply String.eqb_refl].
Qed.

Lemma lookup_some_of_key {A} k (kw : list (string * A)) :
  In k (map fst kw) -> exists v, lookup k kw = Some v.
Proof.
  induction kw as [|[k' v'] t IH]; simpl; intros H; [contradiction|].
  destruct (String.eqb k k') eqn:E; [eexists; reflexivity|].
  destruct H as [H|H]; [subst; rewrite String.eqb_refl in E; discriminate | auto].
Qed.

Lemma lookup_none_iff {A} k (kw : list (string * A)) :
  lookup k kw = None <-> ~ In k (map fst kw).
Proof.
  induction kw as [|[k' v'] t IH]; simpl; [tauto|].
  destruct (String.eqb k k') eqn:E.
  - apply String.eqb_eq in E. subst. split; [discriminate | intros H; exfalso; apply H; auto].
  - apply String.eqb_neq in E. rewrite IH. split; intros H; [intros [H1|H1]; [congruence|auto] | auto].
Qed.

(* str.format succeeds exactly when every field of the template is supplied — unbounded template and kwargs *)
Lemma format_total m kw :
  (forall f, In f (fields_of m) -> In f (map fst kw)) -> exists s, format m kw = Some s.
Proof.
  induction m as [|[s|n] t IH]; simpl; intros H.
  - eexists; reflexivity.
  - destruct IH as [r Hr]; [exact H|]. rewrite Hr. eexists; reflexivity.
  - destruct (lookup_some_of_key n kw) as [v Hv]; [apply H; simpl; auto|].
    rewrite Hv. destruct IH as [r Hr]; [intros f Hf; apply H; simpl; auto|].
    rewrite Hr. eexists; reflexivity.
Qed.

Lemma format_fails_iff m kw :
  format m kw = None <-> exists f, In f (fields_of m) /\ ~ In f (map fst kw).
Proof.
  induction m as [|[s|n] t IH]; simpl.
  - split; [discriminate | intros [f [[] _]]].
  - destruct (format t kw) eqn:E; simpl.
    + split; [discriminate|]. intros H. apply IH in H. discriminate.
    + split; [intros _; apply IH; reflexivity | reflexivity].
  - destruct (lookup n kw) eqn:L.
    + destruct (format t kw) eqn:E; simpl.
      * split; [discriminate|]. intros [f [[Hf|Hf] Hn]].
        -- subst. apply lookup_none_iff in Hn. congruence.
        -- assert (Some s0 = None :> option string) as Habs by (apply IH; eauto). discriminate.
      * split; [|reflexivity]. intros _. destruct (proj1 IH eq_refl) as [f [Hf Hn]]. exists f; auto.
    + split; [|reflexivity]. intros _. exists n. split; [auto|]. apply lookup_none_iff. exact L.
Qed.

(* a site that passes the decidable check can never fail to construct its exception, whatever the argument
   values and whatever extra keyword arguments are passed *)
Lemma site_ok_sound cat s :
  site_ok cat s = true ->
  forall c, In c (codes_of s) ->
  forall kw, (forall k, In k (s_kwargs s) -> In k (map fst kw)) ->
  exists msg, construct cat c kw = Built msg.
Proof.
  unfold site_ok, codes_of, construct. intros H c Hc kw Hkw.
  apply andb_true_iff in H. destruct H as [_ H].
  destruct (s_codes s) as [l|]; [|discriminate].
  apply andb_true_iff in H. destruct H as [_ H].
  rewrite forallb_forall in H. specialize (H c Hc).
  destruct (lookup c cat) as [m|]; [|discriminate].
  rewrite forallb_forall in H.
  destruct (format_total m kw) as [r Hr].
  - intros f Hf. apply Hkw. apply mem_In. apply H. exact Hf.
  - rewrite Hr. eexists; reflexivity.
Qed.

Lemma site_ok_static cat s : site_ok cat s = true -> s_splat s = false /\ s_codes s <> Dynamic /\ codes_of s <> [].
Proof.
  unfold site_ok, codes_of. intros H. apply andb_true_iff in H. destruct H as [H1 H2].
  split; [destruct (s_splat s); [discriminate|reflexivity]|].
  destruct (s_codes s) as [l|]; [|discriminate]. split; [discriminate|].
  apply andb_true_iff in H2. destruct H2 as [H2 _]. destruct l; [discriminate|discriminate].
Qed.

(* completeness of the check: a site that fails it has a concrete failing construction *)
Definition min_kw (s : site) : list (string * string) := map (fun k => (k, "")) (s_kwargs s).

Lemma site_not_ok_witness cat s l :
  s_splat s = false -> s_codes s = Codes l -> l <> [] -> site_ok cat s = false ->
  exists c, In c l /\ (construct cat c (min_kw s) = KeyErrorCode \/ construct cat c (min_kw s) = KeyErrorField).
Proof.
  unfold site_ok, min_kw. intros Hs Hc Hl H. rewrite Hs, Hc in H. simpl in H.
  destruct l as [|c0 l0]; [congruence|]. simpl negb in H. rewrite andb_true_l in H.
  assert (exists c, In c (c0 :: l0) /\
     match lookup c cat with None => false | Some m => forallb (fun f => mem f (s_kwargs s)) (fields_of m) end = false) as [c [Hin Hbad]].
  { clear -H. induction (c0 :: l0) as [|x xs IH]; simpl in *; [discriminate|].
    apply andb_false_iff in H. destruct H as [H|H]; [exists x; auto|].
    destruct (IH H) as [c [Hi Hb]]. exists c; auto. }
  exists c. split; [exact Hin|]. unfold construct.
  destruct (lookup c cat) as [m|]; [|left; reflexivity]. right.
  assert (format m (map (fun k => (k, "")) (s_kwargs s)) = None) as ->; [|reflexivity].
  apply format_fails_iff.
  assert (exists f, In f (fields_of m) /\ mem f (s_kwargs s) = false) as [f [Hf Hm]].
  { clear -Hbad. induction (fields_of m) as [|x xs IH]; simpl in *; [discriminate|].
    apply andb_false_iff in Hbad. destruct Hbad as [Hb|Hb]; [exists x; auto|].
    destruct (IH Hb) as [f [Hi Hm]]. exists f; auto. }
  exists f. split; [exact Hf|]. rewrite map_map. simpl. rewrite map_id. intros Hin'.
  apply mem_In in Hin'. congruence.
Qed.
