From Coq Require Import List Bool Permutation String.
Import ListNotations.
From VTL Require Import Base.Val.

Lemma bind_ok {A B} (r : res A) (f : A -> res B) b :
  bind r f = Ok b <-> exists a, r = Ok a /\ f a = Ok b.
Proof. destruct r; simpl; split; [eauto | intros [a' [H1 H2]]; congruence | discriminate | intros [a [H _]]; discriminate]. Qed.

Lemma bind_err {A B} (r : res A) (f : A -> res B) c :
  bind r f = Err c <-> r = Err c \/ exists a, r = Ok a /\ f a = Err c.
Proof.
  destruct r as [a|code]; simpl; split.
  - eauto.
  - intros [H|[a' [H1 H2]]]; congruence.
  - intros H; left; congruence.
  - intros [H|[a [H _]]]; congruence.
Qed.

Lemma mapM_ok_iff {A B} (f : A -> res B) l ys :
  mapM f l = Ok ys <-> Forall2 (fun x y => f x = Ok y) l ys.
Proof.
  revert ys. induction l as [|x t IH]; intros ys; simpl.
  - split; [intros H; injection H as <-; constructor | intros H; inversion H; reflexivity].
  - rewrite bind_ok. split.
    + intros [y [Hy H]]. apply bind_ok in H. destruct H as [ys' [Hys H]]. injection H as <-.
      constructor; [exact Hy | apply IH; exact Hys].
    + intros H. inversion H as [|? y ? ys' Hy Hys]; subst. exists y. split; [exact Hy|].
      apply bind_ok. exists ys'. split; [apply IH; exact Hys | reflexivity].
Qed.

Lemma mapM_length {A B} (f : A -> res B) l ys : mapM f l = Ok ys -> List.length ys = List.length l.
Proof. rewrite mapM_ok_iff. intros H. induction H; simpl; congruence. Qed.

Lemma mapM_ok_all {A B} (f : A -> res B) l ys : mapM f l = Ok ys -> forall x, In x l -> exists y, f x = Ok y /\ In y ys.
Proof.
  rewrite mapM_ok_iff. intros H. induction H as [|x y l ys Hxy _ IH]; intros z Hz; [destruct Hz|].
  destruct Hz as [<-|Hz]; [exists y; simpl; auto|]. destruct (IH z Hz) as [y' [H1 H2]]. exists y'; simpl; auto.
Qed.

Lemma mapM_ok_inv {A B} (f : A -> res B) l ys : mapM f l = Ok ys -> forall y, In y ys -> exists x, In x l /\ f x = Ok y.
Proof.
  rewrite mapM_ok_iff. intros H. induction H as [|x y l ys Hxy _ IH]; intros z Hz; [destruct Hz|].
  destruct Hz as [<-|Hz]; [exists x; simpl; auto|]. destruct (IH z Hz) as [x' [H1 H2]]. exists x'; simpl; auto.
Qed.

Lemma mapM_err_some {A B} (f : A -> res B) l c : mapM f l = Err c -> exists x, In x l /\ f x = Err c.
Proof.
  induction l as [|x t IH]; simpl; [discriminate|]. intros H. apply bind_err in H.
  destruct H as [H|[y [Hy H]]]; [exists x; auto|].
  apply bind_err in H. destruct H as [H|[ys [_ H]]]; [|discriminate].
  destruct (IH H) as [x' [H1 H2]]. exists x'; auto.
Qed.

Lemma mapM_all_ok {A B} (f : A -> res B) l :
  (forall x, In x l -> exists y, f x = Ok y) -> exists ys, mapM f l = Ok ys.
Proof.
  induction l as [|x t IH]; intros H; simpl; [eexists; reflexivity|].
  destruct (H x (or_introl eq_refl)) as [y Hy]. rewrite Hy. simpl.
  destruct IH as [ys Hys]; [intros z Hz; apply H; simpl; auto|]. rewrite Hys. simpl. eexists; reflexivity.
Qed.

(* an element that fails makes the whole traversal fail (with the first failing element's code) *)
Lemma mapM_some_err {A B} (f : A -> res B) l x c :
  In x l -> f x = Err c -> exists c', mapM f l = Err c'.
Proof.
  induction l as [|h t IH]; simpl; [tauto|]. intros [->|Hin] Hx.
  - rewrite Hx. simpl. eauto.
  - destruct (f h); simpl; [|eauto]. destruct (IH Hin Hx) as [c' Hc]. rewrite Hc. simpl. eauto.
Qed.

(* order independence: success, and the multiset of results, do not depend on the order of the elements *)
Lemma mapM_perm {A B} (f : A -> res B) l l' ys :
  Permutation l l' -> mapM f l = Ok ys -> exists ys', mapM f l' = Ok ys' /\ Permutation ys ys'.
Proof.
  intros P. revert ys. induction P as [|x l l' P IH|x y l|l1 l2 l3 P1 IH1 P2 IH2]; intros ys H.
  - exists ys. auto.
  - simpl in H. apply bind_ok in H. destruct H as [b [Hb H]]. apply bind_ok in H. destruct H as [bs [Hbs H]].
    injection H as <-. destruct (IH _ Hbs) as [bs' [H1 H2]]. exists (b :: bs'). simpl. rewrite Hb, H1. simpl. auto.
  - simpl in H. apply bind_ok in H. destruct H as [b1 [Hb1 H]]. apply bind_ok in H. destruct H as [r [Hr H]].
    injection H as <-. apply bind_ok in Hr. destruct Hr as [b2 [Hb2 Hr]]. apply bind_ok in Hr. destruct Hr as [bs [Hbs Hr]].
    injection Hr as <-. exists (b2 :: b1 :: bs). simpl. rewrite Hb2, Hb1, Hbs. simpl. split; [reflexivity | apply perm_swap].
  - destruct (IH1 _ H) as [ys2 [H2 P2']]. destruct (IH2 _ H2) as [ys3 [H3 P3']]. exists ys3. split; auto.
    eapply perm_trans; eauto.
Qed.

Lemma mapM_perm_err {A B} (f : A -> res B) l l' c :
  Permutation l l' -> mapM f l = Err c -> exists c', mapM f l' = Err c'.
Proof.
  intros P H. destruct (mapM_err_some _ _ _ H) as [x [Hx Hf]].
  eapply mapM_some_err; [eapply Permutation_in; eauto | eauto].
Qed.

Lemma mapM_ext_res {A B} (f g : A -> res B) l : (forall x, f x = g x) -> mapM f l = mapM g l.
Proof. intros H. induction l as [|x t IH]; simpl; [reflexivity|]. rewrite H, IH. reflexivity. Qed.
