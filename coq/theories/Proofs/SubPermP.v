(* sub at the top of an order-independent expression is order independent (C33): the restriction `no_sub` of
   PermP.deval_perm concerns only NESTED occurrences of sub, whose shortened keys are not shown unique in the composite
   induction; one sub applied last needs no uniqueness at all.  Proofs only. *)
From Coq Require Import ZArith QArith String List Bool Permutation.
Import ListNotations.
From VTL Require Import Base.Val Model.Table Model.Scalar Model.Expr
     Proofs.TableP Proofs.MonadP Proofs.ExprP Proofs.PermP.

Lemma d_sub_dequiv d d' l : dequiv d d' -> dequiv (d_sub d l) (d_sub d' l).
Proof.
  intros Hq. rewrite (dequiv_form d d' Hq). destruct Hq as [_ [_ P]].
  split; [reflexivity|]. split; [reflexivity|]. apply d_sub_perm. exact P.
Qed.

Theorem deval_sub_top_perm x l : no_sub x = true ->
  forall e e' r, env_equiv e e' -> deval e (DSub x l) = Ok r ->
  exists r', deval e' (DSub x l) = Ok r' /\ dequiv r r'.
Proof.
  intros Hs e e' r Ee H. cbn [deval] in *.
  destruct (deval e x) as [d|c] eqn:E; cbn in H; [|discriminate].
  injection H as <-.
  destruct (deval_perm x Hs e e' d Ee E) as [d' [E' [Hq _]]].
  rewrite E'. cbn. exists (d_sub d' l). split; [reflexivity|]. apply d_sub_dequiv. exact Hq.
Qed.

(* a chain of subs applied last *)
Fixpoint subs (x : dexpr) (ls : list (list (string * val))) : dexpr :=
  match ls with
  | [] => x
  | l :: t => subs (DSub x l) t
  end.

Lemma deval_subs_perm ls : forall x e e' r r0 r0',
  deval e x = Ok r0 -> deval e' x = Ok r0' -> dequiv r0 r0' ->
  deval e (subs x ls) = Ok r ->
  exists r', deval e' (subs x ls) = Ok r' /\ dequiv r r'.
Proof.
  induction ls as [|l t IH]; cbn [subs]; intros x e e' r r0 r0' E E' Hq H.
  - rewrite E in H. injection H as <-. exists r0'. split; assumption.
  - apply (IH (DSub x l) e e' r (d_sub r0 l) (d_sub r0' l)); [| |apply d_sub_dequiv; exact Hq|exact H].
    + cbn [deval]. rewrite E. reflexivity.
    + cbn [deval]. rewrite E'. reflexivity.
Qed.

Theorem deval_sub_chain_perm x ls : no_sub x = true ->
  forall e e' r, env_equiv e e' -> deval e (subs x ls) = Ok r ->
  exists r', deval e' (subs x ls) = Ok r' /\ dequiv r r'.
Proof.
  intros Hs e e' r Ee H.
  destruct (deval e x) as [d|c] eqn:E.
  - destruct (deval_perm x Hs e e' d Ee E) as [d' [E' [Hq _]]].
    exact (deval_subs_perm ls x e e' r d d' E E' Hq H).
  - exfalso. revert H. clear -E. revert x E. induction ls as [|l t IH]; cbn [subs]; intros x E H.
    + congruence.
    + apply (IH (DSub x l)); [cbn [deval]; rewrite E; reflexivity | exact H].
Qed.

(* C15: the reordering executor of PermP (oracle `w` after every operator) with a sub applied last *)
Theorem deval_nd_sub_top_equiv (w : dset -> dset) : (forall d, dequiv d (w d)) ->
  forall x l, no_sub x = true ->
  forall e r, env_wf e -> deval e (DSub x l) = Ok r ->
  exists r', deval_nd w e (DSub x l) = Ok r' /\ dequiv r r'.
Proof.
  intros Hw x l Hs e r We H. cbn [deval deval_nd] in *.
  destruct (deval e x) as [d|c] eqn:E; cbn in H; [|discriminate].
  injection H as <-.
  destruct (deval_nd_equiv w Hw x Hs e d We E) as [d' [E' [Hq _]]].
  rewrite E'. cbn. exists (w (d_sub d' l)). split; [reflexivity|].
  eapply dequiv_trans; [apply d_sub_dequiv; exact Hq | apply Hw].
Qed.
