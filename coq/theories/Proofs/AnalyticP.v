(* Lemmas about Model/Analytic.v (C06): the ordering is a strict order, insertion sort is the unique strictly sorted
   permutation under a total order, frames select by position, permutation invariance, rank / lag / lead / ratio_to_report. *)
From Coq Require Import ZArith QArith Qround Qreduction String Ascii List Bool PeanoNat Lia Permutation Sorted.
Import ListNotations.
From VTL Require Import Base.Val Model.Table Model.Scalar Model.Expr Model.Analytic Proofs.TableP Proofs.MonadP.
Open Scope list_scope.
Open Scope nat_scope.

(* =============================================================== the order on values *)
Lemma str_ltb_irrefl s : str_ltb s s = false.
Proof. induction s as [|c s IH]; simpl; auto. rewrite Nat.ltb_irrefl. exact IH. Qed.

Lemma str_ltb_trans a : forall b c, str_ltb a b = true -> str_ltb b c = true -> str_ltb a c = true.
Proof.
  induction a as [|x a IH]; intros [|y b] [|z c]; simpl; try discriminate; auto.
  destruct (Nat.ltb_spec (nat_of_ascii x) (nat_of_ascii y)), (Nat.ltb_spec (nat_of_ascii y) (nat_of_ascii x)),
           (Nat.ltb_spec (nat_of_ascii y) (nat_of_ascii z)), (Nat.ltb_spec (nat_of_ascii z) (nat_of_ascii y)),
           (Nat.ltb_spec (nat_of_ascii x) (nat_of_ascii z)), (Nat.ltb_spec (nat_of_ascii z) (nat_of_ascii x));
    try discriminate; try lia; auto.
  apply IH.
Qed.

Lemma qlt_iff x y : negb (Qle_bool y x) = true <-> (x < y)%Q.
Proof.
  rewrite negb_true_iff. split.
  - intros H. apply Qnot_le_lt. intros C. apply Qle_bool_iff in C. congruence.
  - intros H. destruct (Qle_bool y x) eqn:E; auto. apply Qle_bool_iff in E. exfalso. exact (Qlt_not_le _ _ H E).
Qed.

Definition lt_prop (a b : val) : Prop :=
  match a, b with
  | VStr x, VStr y => str_ltb x y = true
  | VBool x, VBool y => x = false /\ y = true
  | _, _ => match to_q a, to_q b with Some x, Some y => (x < y)%Q | _, _ => False end
  end.
Definition eq_prop (a b : val) : Prop :=
  match a, b with
  | VStr x, VStr y => x = y
  | VBool x, VBool y => x = y
  | _, _ => match to_q a, to_q b with Some x, Some y => (x == y)%Q | _, _ => False end
  end.

Lemma if_bool_id (b : bool) : (if b then true else false) = b.
Proof. destruct b; reflexivity. Qed.

Lemma nn_lt_spec a b : nn_lt a b = true <-> lt_prop a b.
Proof.
  unfold nn_lt, lt_prop, cmp_lt.
  destruct a, b; simpl; try (split; [discriminate | tauto]);
    try (rewrite if_bool_id; apply qlt_iff).
  - rewrite if_bool_id. tauto.
  - destruct b, b0; simpl; split; intros H; try discriminate; try tauto; destruct H; discriminate.
Qed.

Lemma nn_eq_spec a b : nn_eq a b = true <-> eq_prop a b.
Proof.
  unfold nn_eq, eq_prop, cmp_eq.
  destruct a, b; simpl; try (split; [discriminate | tauto]);
    try (rewrite if_bool_id; apply Qeq_bool_iff).
  - rewrite if_bool_id. apply String.eqb_eq.
  - rewrite if_bool_id. destruct b, b0; simpl; split; congruence.
Qed.

Ltac vcases :=
  repeat match goal with
         | H : False |- _ => destruct H
         | H : _ /\ _ |- _ => destruct H
         end;
  subst; try discriminate; try tauto; try congruence.

Lemma nn_lt_irrefl a : nn_lt a a = false.
Proof.
  destruct (nn_lt a a) eqn:E; auto. apply nn_lt_spec in E. destruct a; simpl in E; vcases.
  - exfalso. exact (Qlt_irrefl _ E).
  - exfalso. exact (Qlt_irrefl _ E).
  - rewrite str_ltb_irrefl in E. discriminate.
Qed.

Lemma nn_lt_trans a b c : nn_lt a b = true -> nn_lt b c = true -> nn_lt a c = true.
Proof.
  rewrite !nn_lt_spec. destruct a, b, c; simpl; intros H1 H2; vcases;
    try (eapply Qlt_trans; eassumption).
  eapply str_ltb_trans; eassumption.
Qed.

Lemma nn_eq_sym a b : nn_eq a b = true -> nn_eq b a = true.
Proof.
  rewrite !nn_eq_spec. destruct a, b; simpl; intros H; vcases; symmetry; assumption.
Qed.

Lemma nn_eq_trans a b c : nn_eq a b = true -> nn_eq b c = true -> nn_eq a c = true.
Proof.
  rewrite !nn_eq_spec. destruct a, b, c; simpl; intros H1 H2; vcases;
    try (eapply Qeq_trans; eassumption).
Qed.

Lemma nn_lt_eq_r a b c : nn_lt a b = true -> nn_eq b c = true -> nn_lt a c = true.
Proof.
  rewrite !nn_lt_spec, nn_eq_spec. destruct a, b, c; simpl; intros H1 H2; vcases;
    try (rewrite <- H2; assumption).
Qed.

Lemma nn_eq_lt_l a b c : nn_eq a b = true -> nn_lt b c = true -> nn_lt a c = true.
Proof.
  rewrite !nn_lt_spec, nn_eq_spec. destruct a, b, c; simpl; intros H1 H2; vcases;
    try (rewrite H1; assumption).
Qed.

(* ---- v_lt / v_eq: nulls last, either direction *)
Lemma v_lt_irrefl d a : v_lt d a a = false.
Proof. destruct a, d; cbn [v_lt]; auto using nn_lt_irrefl. Qed.

Lemma v_lt_trans d a b c : v_lt d a b = true -> v_lt d b c = true -> v_lt d a c = true.
Proof.
  destruct a, b, c; cbn [v_lt]; try discriminate; auto; destruct d; intros H1 H2;
    solve [eapply nn_lt_trans; eassumption].
Qed.

Lemma v_eq_sym a b : v_eq a b = true -> v_eq b a = true.
Proof. destruct a, b; cbn [v_eq]; try discriminate; auto using nn_eq_sym. Qed.

Lemma v_eq_trans a b c : v_eq a b = true -> v_eq b c = true -> v_eq a c = true.
Proof.
  destruct a, b, c; cbn [v_eq]; try discriminate; auto; intros H1 H2; eapply nn_eq_trans; eassumption.
Qed.

Lemma v_lt_eq_r d a b c : v_lt d a b = true -> v_eq b c = true -> v_lt d a c = true.
Proof.
  destruct a, b, c; cbn [v_lt v_eq]; try discriminate; auto; destruct d; intros H1 H2;
    solve [eapply nn_lt_eq_r; eassumption | eapply nn_eq_lt_l; [apply nn_eq_sym|]; eassumption].
Qed.

Lemma v_eq_lt_l d a b c : v_eq a b = true -> v_lt d b c = true -> v_lt d a c = true.
Proof.
  destruct a, b, c; cbn [v_lt v_eq]; try discriminate; auto; destruct d; intros H1 H2;
    solve [eapply nn_eq_lt_l; eassumption | eapply nn_lt_eq_r; [|apply nn_eq_sym]; eassumption].
Qed.

(* ---- the lexicographic order is a strict order *)
Lemma lex_lt_irrefl ds : forall a, lex_lt ds a a = false.
Proof.
  induction ds as [|d ds IH]; intros [|x a]; simpl; auto.
  rewrite v_lt_irrefl. destruct (v_eq x x); auto.
Qed.

Lemma lex_lt_trans ds : forall a b c, lex_lt ds a b = true -> lex_lt ds b c = true -> lex_lt ds a c = true.
Proof.
  induction ds as [|d ds IH]; intros [|x a] [|y b] [|z c]; simpl; try discriminate.
  destruct (v_lt d x y) eqn:L1.
  - intros _. destruct (v_lt d y z) eqn:L2.
    + intros _. rewrite (v_lt_trans _ _ _ _ L1 L2). reflexivity.
    + destruct (v_eq y z) eqn:E2; [|discriminate]. intros _. rewrite (v_lt_eq_r _ _ _ _ L1 E2). reflexivity.
  - destruct (v_eq x y) eqn:E1; [|discriminate]. intros H1.
    destruct (v_lt d y z) eqn:L2.
    + intros _. rewrite (v_eq_lt_l _ _ _ _ E1 L2). reflexivity.
    + destruct (v_eq y z) eqn:E2; [|discriminate]. intros H2.
      destruct (v_lt d x z); auto. rewrite (v_eq_trans _ _ _ E1 E2). eapply IH; eassumption.
Qed.

Lemma row_lt_irrefl d sp x : row_lt d sp x x = false.
Proof. apply lex_lt_irrefl. Qed.
Lemma row_lt_trans d sp x y z : row_lt d sp x y = true -> row_lt d sp y z = true -> row_lt d sp x z = true.
Proof. apply lex_lt_trans. Qed.

(* =============================================================== insertion sort *)
Section Sort.
  Context {A : Type} (lt : A -> A -> bool).
  Hypothesis lt_irrefl : forall x, lt x x = false.
  Hypothesis lt_trans : forall x y z, lt x y = true -> lt y z = true -> lt x z = true.

  Lemma insert_perm x l : Permutation (insert lt x l) (x :: l).
  Proof.
    induction l as [|y t IH]; simpl; auto. destruct (lt y x); auto.
    eapply perm_trans; [apply perm_skip; exact IH | apply perm_swap].
  Qed.

  Lemma isort_perm l : Permutation (isort lt l) l.
  Proof.
    induction l as [|x t IH]; simpl; auto.
    eapply perm_trans; [apply insert_perm | apply perm_skip; exact IH].
  Qed.

  Lemma total_on_perm l l' : Permutation l l' -> total_on lt l = total_on lt l'.
  Proof.
    intros P. induction P as [|x l l' P IH|x y l|l1 l2 l3 P1 IH1 P2 IH2].
    - reflexivity.
    - cbn [total_on]. rewrite IH. f_equal.
      destruct (forallb (fun y => lt x y || lt y x) l) eqn:E1, (forallb (fun y => lt x y || lt y x) l') eqn:E2; auto.
      + rewrite forallb_forall in E1. assert (forallb (fun y => lt x y || lt y x) l' = true); [|congruence].
        apply forallb_forall. intros z Hz. apply E1. eapply Permutation_in; [apply Permutation_sym; exact P | exact Hz].
      + rewrite forallb_forall in E2. assert (forallb (fun y => lt x y || lt y x) l = true); [|congruence].
        apply forallb_forall. intros z Hz. apply E2. eapply Permutation_in; [exact P | exact Hz].
    - cbn [total_on forallb]. rewrite (orb_comm (lt x y) (lt y x)).
      destruct (lt y x || lt x y), (forallb (fun z => lt y z || lt z y) l), (forallb (fun z => lt x z || lt z x) l), (total_on lt l); reflexivity.
    - congruence.
  Qed.

  Notation ltP := (fun a b => lt a b = true).

  Lemma insert_sorted x s :
    StronglySorted ltP s -> (forall y, In y s -> lt x y = true \/ lt y x = true) -> StronglySorted ltP (insert lt x s).
  Proof.
    induction s as [|y t IH]; intros Hs Ht; simpl.
    - constructor; constructor.
    - inversion Hs as [|? ? Hs' Hall]; subst. destruct (lt y x) eqn:E.
      + constructor.
        * apply IH; [exact Hs' | intros z Hz; apply Ht; right; exact Hz].
        * apply Forall_forall. intros z Hz.
          apply (Permutation_in _ (insert_perm x t)) in Hz. destruct Hz as [<-|Hz]; [exact E|].
          rewrite Forall_forall in Hall. apply Hall. exact Hz.
      + assert (Hxy : lt x y = true) by (destruct (Ht y (or_introl eq_refl)); congruence).
        constructor; [exact Hs|]. constructor; [exact Hxy|].
        rewrite Forall_forall in Hall |- *. intros z Hz. eapply lt_trans; [exact Hxy | apply Hall; exact Hz].
  Qed.

  Lemma total_on_cons x t : total_on lt (x :: t) = true ->
    (forall y, In y t -> lt x y = true \/ lt y x = true) /\ total_on lt t = true.
  Proof.
    cbn [total_on]. rewrite andb_true_iff, forallb_forall. intros [H1 H2]. split; [|exact H2].
    intros y Hy. apply orb_true_iff. apply H1. exact Hy.
  Qed.

  Lemma isort_sorted l : total_on lt l = true -> StronglySorted ltP (isort lt l).
  Proof.
    induction l as [|x t IH]; intros H; simpl; [constructor|].
    apply total_on_cons in H. destruct H as [H1 H2]. apply insert_sorted; [apply IH; exact H2|].
    intros y Hy. apply H1. eapply Permutation_in; [apply isort_perm | exact Hy].
  Qed.

  (* a strictly sorted list is determined by its elements *)
  Lemma sorted_unique l1 : forall l2,
    StronglySorted ltP l1 -> StronglySorted ltP l2 -> Permutation l1 l2 -> l1 = l2.
  Proof.
    induction l1 as [|x t1 IH]; intros l2 S1 S2 P.
    - apply Permutation_nil in P. congruence.
    - destruct l2 as [|y t2]; [apply Permutation_sym, Permutation_nil in P; discriminate|].
      inversion S1 as [|? ? S1' A1]; inversion S2 as [|? ? S2' A2]; subst.
      rewrite Forall_forall in A1, A2.
      assert (Hx : In x (y :: t2)) by (eapply Permutation_in; [exact P | left; reflexivity]).
      assert (Hy : In y (x :: t1)) by (eapply Permutation_in; [apply Permutation_sym; exact P | left; reflexivity]).
      assert (E : x = y).
      { destruct Hx as [Hx|Hx]; [congruence|]. destruct Hy as [Hy|Hy]; [congruence|].
        pose proof (A2 _ Hx) as L1. pose proof (A1 _ Hy) as L2.
        pose proof (lt_trans _ _ _ L1 L2) as L3. rewrite lt_irrefl in L3. discriminate. }
      subst y. f_equal. apply IH; auto. eapply Permutation_cons_inv. exact P.
  Qed.

  (* under a total order, sorting does not depend on the order of the input *)
  Lemma isort_perm_eq l l' : Permutation l l' -> total_on lt l = true -> isort lt l = isort lt l'.
  Proof.
    intros P T. apply sorted_unique.
    - apply isort_sorted. exact T.
    - apply isort_sorted. rewrite <- (total_on_perm _ _ P). exact T.
    - eapply perm_trans; [apply isort_perm|]. eapply perm_trans; [exact P|]. apply Permutation_sym, isort_perm.
  Qed.

  (* in a strictly sorted list, the elements strictly before the one at position i are exactly the i first *)
  Lemma sorted_count_before s : forall i r,
    StronglySorted ltP s -> nth_error s i = Some r -> List.length (filter (fun x => lt x r) s) = i.
  Proof.
    induction s as [|x t IH]; intros i r Hs Hn; [destruct i; discriminate|].
    inversion Hs as [|? ? Hs' Hall]; subst. rewrite Forall_forall in Hall. destruct i as [|i]; simpl in Hn |- *.
    - injection Hn as ->. rewrite lt_irrefl.
      assert (E : filter (fun x => lt x r) t = []).
      { clear IH Hs Hs'. induction t as [|y t IHt]; simpl; auto.
        destruct (lt y r) eqn:E.
        - pose proof (Hall y (or_introl eq_refl)) as L. pose proof (lt_trans _ _ _ L E) as C. rewrite lt_irrefl in C. discriminate.
        - apply IHt. intros z Hz. apply Hall. right. exact Hz. }
      rewrite E. reflexivity.
    - rewrite (Hall r (nth_error_In _ _ Hn)). simpl. f_equal. apply IH; auto.
  Qed.
End Sort.

Lemma filter_length_perm {A} (p : A -> bool) l l' : Permutation l l' -> List.length (filter p l) = List.length (filter p l').
Proof. intros P. apply Permutation_length, Permutation_filter, P. Qed.

(* =============================================================== partitions and positions *)
Lemma same_part_refl d sp r : same_part d sp r r = true.
Proof. unfold same_part. apply key_eqb_refl. Qed.

Lemma part_of_perm d sp rows rows' r : Permutation rows rows' -> Permutation (part_of d sp rows r) (part_of d sp rows' r).
Proof. intros P. apply Permutation_filter. exact P. Qed.

Lemma sorted_part_perm_part d sp rows r : Permutation (sorted_part d sp rows r) (part_of d sp rows r).
Proof. apply isort_perm. Qed.

Lemma in_sorted_part d sp rows r : In r rows -> In r (sorted_part d sp rows r).
Proof.
  intros H. eapply Permutation_in; [apply Permutation_sym, sorted_part_perm_part|].
  apply filter_In. split; [exact H | apply same_part_refl].
Qed.

Lemma sorted_part_members d sp rows r x :
  In x (sorted_part d sp rows r) <-> In x rows /\ key_eqb (pkey d sp x) (pkey d sp r) = true.
Proof.
  split.
  - intros H. apply (Permutation_in _ (sorted_part_perm_part d sp rows r)) in H. apply filter_In in H. exact H.
  - intros H. eapply Permutation_in; [apply Permutation_sym, sorted_part_perm_part|]. apply filter_In. exact H.
Qed.

Lemma sorted_part_uniq d sp rows r : uniq_keys rows = true -> uniq_keys (sorted_part d sp rows r) = true.
Proof.
  intros H. rewrite (uniq_keys_perm _ _ (sorted_part_perm_part d sp rows r)). apply uniq_keys_filter. exact H.
Qed.

Lemma sorted_part_sorted d sp rows r :
  total_on (row_lt d sp) (part_of d sp rows r) = true ->
  StronglySorted (fun a b => row_lt d sp a b = true) (sorted_part d sp rows r).
Proof. apply isort_sorted. apply row_lt_trans. Qed.

Lemma sorted_part_perm_eq d sp rows rows' r :
  Permutation rows rows' -> total_on (row_lt d sp) (part_of d sp rows r) = true ->
  sorted_part d sp rows r = sorted_part d sp rows' r.
Proof.
  intros P T. apply isort_perm_eq; [apply row_lt_irrefl | apply row_lt_trans | apply part_of_perm; exact P | exact T].
Qed.

(* in a table with unique keys the position found by key is the position of the datapoint *)
Lemma pos_of_nth S : forall i r, uniq_keys S = true -> nth_error S i = Some r -> pos_of (fst r) S = i.
Proof.
  induction S as [|x t IH]; intros i r U Hn; [destruct i; discriminate|].
  cbn [uniq_keys] in U. apply andb_true_iff in U. destruct U as [U1 U2]. apply negb_true_iff in U1.
  destruct i as [|i]; simpl in Hn |- *.
  - injection Hn as ->. rewrite key_eqb_refl. reflexivity.
  - rewrite has_key_false in U1. pose proof (U1 r (nth_error_In _ _ Hn)) as E. rewrite key_eqb_sym in E. rewrite E.
    f_equal. apply IH; auto.
Qed.

Lemma position_exists d sp rows r : In r rows -> uniq_keys rows = true ->
  exists i, nth_error (sorted_part d sp rows r) i = Some r /\ pos_of (fst r) (sorted_part d sp rows r) = i.
Proof.
  intros Hin U. destruct (In_nth_error _ _ (in_sorted_part d sp rows r Hin)) as [i Hi].
  exists i. split; [exact Hi|]. apply pos_of_nth; [apply sorted_part_uniq; exact U | exact Hi].
Qed.

(* =============================================================== frames select by position *)
Lemma ifilter_spec {A} (p : nat -> bool) (l : list A) : forall k,
  ifilter p k l = map snd (filter (fun jx => p (fst jx)) (combine (seq k (List.length l)) l)).
Proof.
  induction l as [|x t IH]; intros k; simpl; auto.
  destruct (p k); simpl; rewrite IH; reflexivity.
Qed.

Lemma ifilter_In {A} (p : nat -> bool) (l : list A) : forall k x,
  In x (ifilter p k l) <-> exists j, nth_error l j = Some x /\ p (k + j) = true.
Proof.
  induction l as [|y t IH]; intros k x; simpl.
  - split; [tauto | intros [[|j] [H _]]; discriminate].
  - destruct (p k) eqn:E.
    + simpl. rewrite IH. split.
      * intros [->|[j [H1 H2]]]; [exists 0; rewrite Nat.add_0_r; auto | exists (S j); rewrite Nat.add_succ_r; auto].
      * intros [[|j] [H1 H2]]; simpl in H1; [left; congruence | right; exists j; rewrite Nat.add_succ_r in H2; auto].
    + rewrite IH. split.
      * intros [j [H1 H2]]. exists (S j). rewrite Nat.add_succ_r. auto.
      * intros [[|j] [H1 H2]]; simpl in H1; [rewrite Nat.add_0_r in H2; congruence | exists j; rewrite Nat.add_succ_r in H2; auto].
Qed.

(* the bounds as integer offsets relative to the current position *)
Lemma lo_ok_iff b i j : lo_ok b i j = true <->
  match b with
  | UnbPrec => True
  | Prec n => (Z.of_nat i - Z.of_nat n <= Z.of_nat j)%Z
  | Cur => (Z.of_nat i <= Z.of_nat j)%Z
  | Foll n => (Z.of_nat i + Z.of_nat n <= Z.of_nat j)%Z
  | UnbFoll => False
  end.
Proof. destruct b; simpl; rewrite ?Nat.leb_le; try tauto; try lia; try (split; [discriminate | tauto]). Qed.

Lemma hi_ok_iff b i j : hi_ok b i j = true <->
  match b with
  | UnbPrec => False
  | Prec n => (Z.of_nat j <= Z.of_nat i - Z.of_nat n)%Z
  | Cur => (Z.of_nat j <= Z.of_nat i)%Z
  | Foll n => (Z.of_nat j <= Z.of_nat i + Z.of_nat n)%Z
  | UnbFoll => True
  end.
Proof. destruct b; simpl; rewrite ?Nat.leb_le; try tauto; try lia; try (split; [discriminate | tauto]). Qed.

(* =============================================================== the value attached to a datapoint *)
Lemma afun_val_windowed d sp rows f g r : windowed f = true ->
  afun_val d sp rows f g r = Ok (agg f (map g (win_rows d sp rows r))).
Proof. destruct f; simpl; try discriminate; reflexivity. Qed.

(* rows frame: exactly the datapoints of the sorted partition whose position j satisfies lo <= j - i <= hi, in order,
   where i is the position of the current datapoint *)
Lemma win_rows_rows d sp rows r : In r rows -> uniq_keys rows = true -> w_mode (eff_window sp) = Rows ->
  let S := sorted_part d sp rows r in
  exists i, nth_error S i = Some r /\
    win_rows d sp rows r =
      map snd (filter (fun jx => in_frame (w_lo (eff_window sp)) (w_hi (eff_window sp)) i (fst jx)) (combine (seq 0 (List.length S)) S)).
Proof.
  intros Hin U M S. destruct (position_exists d sp rows r Hin U) as [i [Hi Hp]]. exists i. split; [exact Hi|].
  unfold win_rows. rewrite M. fold S. unfold frame_rows. unfold S in *. rewrite Hp. apply ifilter_spec.
Qed.

Lemma win_rows_range d sp rows r c desc rest : w_mode (eff_window sp) = Range -> a_ord sp = (c, desc) :: rest ->
  win_rows d sp rows r =
    filter (fun x => in_range desc (w_lo (eff_window sp)) (w_hi (eff_window sp)) (colv d r c) (colv d x c)) (sorted_part d sp rows r).
Proof. intros M O. unfold win_rows, frame_range. rewrite M, O. reflexivity. Qed.

(* ---- the aggregate of a partition does not depend on the order of its values (used by ratio_to_report) *)
Lemma qsum_perm l l' : Permutation l l' -> (qsum l == qsum l')%Q.
Proof.
  intros P. induction P; simpl.
  - reflexivity.
  - rewrite IHP. reflexivity.
  - ring.
  - etransitivity; eassumption.
Qed.

Lemma qs_of_perm l l' : Permutation l l' -> Permutation (qs_of l) (qs_of l').
Proof. intros P. unfold qs_of. apply Permutation_flat_map. exact P. Qed.

Lemma all_int_perm l l' : Permutation l l' -> all_int l = all_int l'.
Proof.
  intros P. unfold all_int. induction P; simpl; auto.
  - rewrite IHP. reflexivity.
  - destruct x, y; simpl; auto.
  - congruence.
Qed.

Lemma agg_sum_perm l l' : Permutation l l' -> agg_sum l = agg_sum l'.
Proof.
  intros P. unfold agg_sum.
  assert (Pn : Permutation (nonnull l) (nonnull l')) by (apply Permutation_filter; exact P).
  destruct (nonnull l) as [|a t] eqn:E1, (nonnull l') as [|a' t'] eqn:E2.
  - reflexivity.
  - apply Permutation_nil in Pn. discriminate.
  - apply Permutation_sym, Permutation_nil in Pn. discriminate.
  - rewrite (all_int_perm _ _ Pn).
    pose proof (qsum_perm _ _ (qs_of_perm _ _ Pn)) as Hq.
    destruct (all_int (a' :: t')).
    + f_equal. apply Qfloor_comp. exact Hq.
    + unfold qn. f_equal. apply Qred_complete. exact Hq.
Qed.

(* ---- the value of a datapoint depends on the other datapoints only through the SET of datapoints, when the order is total
   on its partition *)
Lemma afun_val_perm d sp rows rows' f g r :
  Permutation rows rows' ->
  (needs_order f = true -> total_on (row_lt d sp) (part_of d sp rows r) = true) ->
  afun_val d sp rows f g r = afun_val d sp rows' f g r.
Proof.
  intros P T.
  assert (HS : needs_order f = true -> sorted_part d sp rows r = sorted_part d sp rows' r).
  { intros H. apply sorted_part_perm_eq; [exact P | apply T; exact H]. }
  destruct f; try (rewrite !afun_val_windowed by reflexivity; unfold win_rows; rewrite HS by reflexivity; reflexivity).
  - cbn [afun_val]. rewrite HS by reflexivity. reflexivity.
  - cbn [afun_val]. rewrite HS by reflexivity. reflexivity.
  - cbn [afun_val]. rewrite (filter_length_perm _ _ _ (part_of_perm d sp _ _ r P)). reflexivity.
  - cbn [afun_val]. rewrite (agg_sum_perm _ _ (Permutation_map g (part_of_perm d sp _ _ r P))). reflexivity.
Qed.

(* the columns of a datapoint depend on the dataset only through its component names *)
Lemma afun_val_names d d' sp rows f g r : d_ids d = d_ids d' -> d_ms d = d_ms d' ->
  afun_val d sp rows f g r = afun_val d' sp rows f g r.
Proof. destruct d, d'; simpl; intros -> ->. reflexivity. Qed.

Lemma mapM_ext_in {A B} (f g : A -> res B) l : (forall x, In x l -> f x = g x) -> mapM f l = mapM g l.
Proof.
  induction l as [|x t IH]; intros H; simpl; [reflexivity|].
  rewrite (H x (or_introl eq_refl)), IH; [reflexivity|]. intros y Hy. apply H. right. exact Hy.
Qed.

Lemma Forall2_imp {A B} (R R' : A -> B -> Prop) l l' : (forall x y, R x y -> R' x y) -> Forall2 R l l' -> Forall2 R' l l'.
Proof. intros H F. induction F; constructor; auto. Qed.

Lemma Forall2_map_fst {A B} (R : A * B -> A * B -> Prop) l l' :
  Forall2 R l l' -> (forall x y, R x y -> fst y = fst x) -> map fst l' = map fst l.
Proof. intros H HR. induction H; simpl; [reflexivity|]. rewrite IHForall2, (HR _ _ H). reflexivity. Qed.

(* =============================================================== dataset level *)
Lemma d_analytic_spec f sp d d' :
  d_analytic f sp d = Ok d' ->
  d_ids d' = d_ids d /\ d_ms d' = d_ms d /\
  map fst (d_rows d') = map fst (d_rows d) /\
  Forall2 (fun r r' => fst r' = fst r /\
             Forall2 (fun j v => afun_val d sp (d_rows d) f (meas j) r = Ok v) (seq 0 (List.length (d_ms d))) (snd r'))
          (d_rows d) (d_rows d').
Proof.
  unfold d_analytic. intros H. apply bind_ok in H. destruct H as [rows [Hr H]]. injection H as <-. simpl.
  apply mapM_ok_iff in Hr.
  assert (F : Forall2 (fun r r' => fst r' = fst r /\
             Forall2 (fun j v => afun_val d sp (d_rows d) f (meas j) r = Ok v) (seq 0 (List.length (d_ms d))) (snd r'))
          (d_rows d) rows).
  { eapply Forall2_imp; [|exact Hr]. intros r r' Hrr. unfold analytic_row in Hrr. apply bind_ok in Hrr.
    destruct Hrr as [vs [Hvs Hrr]]. injection Hrr as <-. simpl. split; [reflexivity|]. apply mapM_ok_iff. exact Hvs. }
  repeat split; auto. eapply Forall2_map_fst; [exact F|]. intros x y [Hxy _]. exact Hxy.
Qed.

Lemma analytic_row_perm d sp f rows' r :
  Permutation (d_rows d) rows' -> (needs_order f = true -> total_order d sp = true) -> In r (d_rows d) ->
  analytic_row (mkD (d_ids d) (d_ms d) rows') sp f r = analytic_row d sp f r.
Proof.
  intros P T Hin. unfold analytic_row. cbn [d_ms d_rows]. f_equal. apply mapM_ext_res. intros j.
  rewrite (afun_val_names (mkD (d_ids d) (d_ms d) rows') d) by reflexivity.
  symmetry. apply afun_val_perm; [exact P|]. intros N. specialize (T N).
  unfold total_order in T. rewrite forallb_forall in T. apply T. exact Hin.
Qed.

Lemma d_analytic_perm f sp d rows' d1 :
  Permutation (d_rows d) rows' -> (needs_order f = true -> total_order d sp = true) ->
  d_analytic f sp d = Ok d1 ->
  exists d2, d_analytic f sp (mkD (d_ids d) (d_ms d) rows') = Ok d2 /\
             d_ids d2 = d_ids d1 /\ d_ms d2 = d_ms d1 /\ Permutation (d_rows d1) (d_rows d2).
Proof.
  intros P T H. unfold d_analytic in H |- *. apply bind_ok in H. destruct H as [rows [Hr H]]. injection H as <-.
  cbn [d_ids d_ms d_rows].
  rewrite (mapM_ext_in (analytic_row (mkD (d_ids d) (d_ms d) rows') sp f) (analytic_row d sp f)).
  - destruct (mapM_perm _ _ _ _ P Hr) as [rows2 [H2 P2]]. rewrite H2. simpl. eexists. repeat split; auto.
  - intros r Hr'. apply analytic_row_perm; auto. eapply Permutation_in; [apply Permutation_sym; exact P | exact Hr'].
Qed.

(* an error does not depend on the input order either *)
Lemma d_analytic_perm_err f sp d rows' c :
  Permutation (d_rows d) rows' -> (needs_order f = true -> total_order d sp = true) ->
  d_analytic f sp d = Err c -> exists c', d_analytic f sp (mkD (d_ids d) (d_ms d) rows') = Err c'.
Proof.
  intros P T H. unfold d_analytic in H |- *. apply bind_err in H. destruct H as [H|[x [_ H]]]; [|discriminate].
  cbn [d_ids d_ms d_rows].
  rewrite (mapM_ext_in (analytic_row (mkD (d_ids d) (d_ms d) rows') sp f) (analytic_row d sp f)).
  - destruct (mapM_perm_err _ _ _ _ P H) as [c' Hc]. exists c'. rewrite Hc. reflexivity.
  - intros r Hr'. apply analytic_row_perm; auto. eapply Permutation_in; [apply Permutation_sym; exact P | exact Hr'].
Qed.

(* =============================================================== calc clause *)
Lemma d_calc_analytic_spec d name f sp operand d' :
  d_calc_analytic d name f sp operand = Ok d' ->
  mem_s name (d_ids d) = false /\
  d_ids d' = d_ids d /\ d_ms d' = calc_ms d name /\
  map fst (d_rows d') = map fst (d_rows d) /\
  Forall2 (fun r r' => fst r' = fst r /\
             exists v, afun_val d sp (d_rows d) f (fun x => colv d x operand) r = Ok v /\
                       snd r' = snd (calc_put (d_ms d) (snd r) name v))
          (d_rows d) (d_rows d').
Proof.
  unfold d_calc_analytic. destruct (mem_s name (d_ids d)); [discriminate|]. intros H.
  apply bind_ok in H. destruct H as [rows [Hr H]]. injection H as <-. simpl. apply mapM_ok_iff in Hr.
  assert (F : Forall2 (fun r r' => fst r' = fst r /\
             exists v, afun_val d sp (d_rows d) f (fun x => colv d x operand) r = Ok v /\
                       snd r' = snd (calc_put (d_ms d) (snd r) name v)) (d_rows d) rows).
  { eapply Forall2_imp; [|exact Hr]. intros r r' Hrr. unfold calc_analytic_row in Hrr. apply bind_ok in Hrr.
    destruct Hrr as [v [Hv Hrr]]. injection Hrr as <-. simpl. split; [reflexivity|]. exists v. auto. }
  repeat split; auto. eapply Forall2_map_fst; [exact F|]. intros x y [Hxy _]. exact Hxy.
Qed.

Lemma colv_names d d' : d_ids d = d_ids d' -> d_ms d = d_ms d' -> colv d = colv d'.
Proof. destruct d, d'; simpl; intros -> ->. reflexivity. Qed.

Lemma calc_analytic_row_perm d name f sp operand rows' r :
  Permutation (d_rows d) rows' -> (needs_order f = true -> total_order d sp = true) -> In r (d_rows d) ->
  calc_analytic_row (mkD (d_ids d) (d_ms d) rows') name f sp operand r = calc_analytic_row d name f sp operand r.
Proof.
  intros P T Hin. unfold calc_analytic_row. cbn [d_ms d_rows].
  rewrite (afun_val_names (mkD (d_ids d) (d_ms d) rows') d) by reflexivity.
  rewrite (colv_names (mkD (d_ids d) (d_ms d) rows') d) by reflexivity.
  f_equal. symmetry. apply afun_val_perm; [exact P|]. intros N. specialize (T N).
  unfold total_order in T. rewrite forallb_forall in T. apply T. exact Hin.
Qed.

Lemma d_calc_analytic_perm d name f sp operand rows' d1 :
  Permutation (d_rows d) rows' -> (needs_order f = true -> total_order d sp = true) ->
  d_calc_analytic d name f sp operand = Ok d1 ->
  exists d2, d_calc_analytic (mkD (d_ids d) (d_ms d) rows') name f sp operand = Ok d2 /\
             d_ids d2 = d_ids d1 /\ d_ms d2 = d_ms d1 /\ Permutation (d_rows d1) (d_rows d2).
Proof.
  intros P T H. unfold d_calc_analytic in H |- *. cbn [d_ids d_ms d_rows].
  destruct (mem_s name (d_ids d)); [discriminate|].
  apply bind_ok in H. destruct H as [rows [Hr H]]. injection H as <-.
  rewrite (mapM_ext_in (calc_analytic_row (mkD (d_ids d) (d_ms d) rows') name f sp operand) (calc_analytic_row d name f sp operand)).
  - destruct (mapM_perm _ _ _ _ P Hr) as [rows2 [H2 P2]]. rewrite H2. simpl. eexists. repeat split; auto.
  - intros r Hr'. apply calc_analytic_row_perm; auto. eapply Permutation_in; [apply Permutation_sym; exact P | exact Hr'].
Qed.

Lemma d_calc_analytic_perm_err d name f sp operand rows' c :
  Permutation (d_rows d) rows' -> (needs_order f = true -> total_order d sp = true) ->
  d_calc_analytic d name f sp operand = Err c ->
  exists c', d_calc_analytic (mkD (d_ids d) (d_ms d) rows') name f sp operand = Err c'.
Proof.
  intros P T H. unfold d_calc_analytic in H |- *. cbn [d_ids d_ms d_rows].
  destruct (mem_s name (d_ids d)); [eauto|].
  apply bind_err in H. destruct H as [H|[x [_ H]]]; [|discriminate].
  rewrite (mapM_ext_in (calc_analytic_row (mkD (d_ids d) (d_ms d) rows') name f sp operand) (calc_analytic_row d name f sp operand)).
  - destruct (mapM_perm_err _ _ _ _ P H) as [c' Hc]. exists c'. rewrite Hc. reflexivity.
  - intros r Hr'. apply calc_analytic_row_perm; auto. eapply Permutation_in; [apply Permutation_sym; exact P | exact Hr'].
Qed.

(* calc touches only the target component: every other component keeps its value *)
Lemma calc_put_other ms vals name v n : List.length ms = List.length vals -> n <> name ->
  elook n (combine (fst (calc_put ms vals name v)) (snd (calc_put ms vals name v))) = elook n (combine ms vals).
Proof.
  unfold calc_put. intros Hl Hn.
  destruct (index_of name ms) as [i|] eqn:E; simpl.
  - revert vals i Hl E. induction ms as [|m t IH]; intros [|x vs] i Hl E; simpl in *; try discriminate.
    destruct (String.eqb name m) eqn:Em.
    + injection E as <-. simpl. apply String.eqb_eq in Em. subst m.
      destruct (String.eqb n name) eqn:En; [apply String.eqb_eq in En; congruence | reflexivity].
    + destruct (index_of name t) as [k|] eqn:Ek; [|discriminate]. injection E as <-. simpl.
      destruct (String.eqb n m); [reflexivity|]. apply IH; [congruence | reflexivity].
  - revert vals Hl. clear E. induction ms as [|m t IH]; intros [|x vs] Hl; simpl in *; try discriminate.
    + destruct (String.eqb n name) eqn:En; [apply String.eqb_eq in En; congruence | reflexivity].
    + destruct (String.eqb n m); [reflexivity|]. apply IH. congruence.
Qed.

Lemma calc_put_target ms vals name v : List.length ms = List.length vals ->
  elook name (combine (fst (calc_put ms vals name v)) (snd (calc_put ms vals name v))) = Some v.
Proof.
  unfold calc_put. intros Hl.
  destruct (index_of name ms) as [i|] eqn:E; simpl.
  - revert vals i Hl E. induction ms as [|m t IH]; intros [|x vs] i Hl E; simpl in *; try discriminate.
    destruct (String.eqb name m) eqn:Em.
    + injection E as <-. simpl. rewrite Em. reflexivity.
    + destruct (index_of name t) as [k|] eqn:Ek; [|discriminate]. injection E as <-. simpl. rewrite Em.
      apply IH; [congruence | reflexivity].
  - revert vals Hl. induction ms as [|m t IH]; intros [|x vs] Hl; simpl in *; try discriminate.
    + rewrite String.eqb_refl. reflexivity.
    + destruct (String.eqb name m) eqn:Em; [discriminate|].
      destruct (index_of name t) eqn:Ek; [discriminate|]. apply IH; [reflexivity | congruence].
Qed.

(* =============================================================== rank *)
Lemma rank_spec d sp rows g r :
  afun_val d sp rows FRank g r =
    Ok (VInt (1 + Z.of_nat (List.length (filter (fun x => row_lt d sp x r) (part_of d sp rows r))))).
Proof. reflexivity. Qed.

(* under a total order the rank is the (1-based) position in the sorted partition *)
Lemma rank_position d sp rows g r i :
  total_on (row_lt d sp) (part_of d sp rows r) = true ->
  nth_error (sorted_part d sp rows r) i = Some r ->
  afun_val d sp rows FRank g r = Ok (VInt (1 + Z.of_nat i)).
Proof.
  intros T Hn. rewrite rank_spec.
  rewrite (filter_length_perm _ _ _ (Permutation_sym (sorted_part_perm_part d sp rows r))).
  rewrite (sorted_count_before (row_lt d sp) (row_lt_irrefl d sp) (row_lt_trans d sp) _ i r); [reflexivity | | exact Hn].
  apply sorted_part_sorted. exact T.
Qed.

(* =============================================================== lag / lead *)
Lemma lag_spec d sp rows n dv g r i :
  uniq_keys rows = true -> nth_error (sorted_part d sp rows r) i = Some r ->
  (n <= i -> exists x, nth_error (sorted_part d sp rows r) (i - n) = Some x /\ afun_val d sp rows (FLag n dv) g r = Ok (g x)) /\
  (i < n -> afun_val d sp rows (FLag n dv) g r = Ok dv).
Proof.
  intros U Hn. cbn [afun_val]. rewrite (pos_of_nth _ i r (sorted_part_uniq d sp rows r U) Hn). split.
  - intros Hle. assert (Hlt : i - n < List.length (sorted_part d sp rows r)).
    { apply Nat.le_lt_trans with i; [lia|]. apply nth_error_Some. congruence. }
    destruct (nth_error (sorted_part d sp rows r) (i - n)) as [x|] eqn:E; [|apply nth_error_None in E; lia].
    exists x. split; [reflexivity|]. apply Nat.leb_le in Hle. rewrite Hle. reflexivity.
  - intros Hlt. destruct (n <=? i) eqn:E; [apply Nat.leb_le in E; lia | reflexivity].
Qed.

Lemma lead_spec d sp rows n dv g r i :
  uniq_keys rows = true -> nth_error (sorted_part d sp rows r) i = Some r ->
  (forall x, nth_error (sorted_part d sp rows r) (i + n) = Some x -> afun_val d sp rows (FLead n dv) g r = Ok (g x)) /\
  (List.length (sorted_part d sp rows r) <= i + n -> afun_val d sp rows (FLead n dv) g r = Ok dv).
Proof.
  intros U Hn. cbn [afun_val]. rewrite (pos_of_nth _ i r (sorted_part_uniq d sp rows r U) Hn). split.
  - intros x Hx. rewrite Hx. reflexivity.
  - intros Hle. apply nth_error_None in Hle. rewrite Hle. reflexivity.
Qed.

(* =============================================================== ratio_to_report *)
Lemma all_int_sum l : all_int l = true -> exists z, (qsum (qs_of l) == inject_Z z)%Q.
Proof.
  induction l as [|v t IH]; simpl; intros H.
  - exists 0%Z. reflexivity.
  - apply andb_true_iff in H. destruct H as [Hv Ht]. destruct v as [|k| | |]; try discriminate. destruct (IH Ht) as [z Hz].
    exists (k + z)%Z. simpl. rewrite Hz, inject_Z_plus. reflexivity.
Qed.

Lemma agg_sum_value l : nonnull l <> [] ->
  exists q, to_q (agg_sum l) = Some q /\ (q == qsum (qs_of (nonnull l)))%Q /\ agg_sum l <> VNull.
Proof.
  intros H. unfold agg_sum. destruct (nonnull l) as [|a t] eqn:E; [congruence|].
  destruct (all_int (a :: t)) eqn:Ai.
  - destruct (all_int_sum _ Ai) as [z Hz]. eexists. split; [reflexivity|]. split; [|discriminate].
    rewrite (Qfloor_comp _ _ Hz), Qfloor_Z. symmetry. exact Hz.
  - eexists. split; [reflexivity|]. split; [apply Qred_correct | discriminate].
Qed.

Lemma q_is_zero_iff q : q_is_zero q = true <-> (q == 0)%Q.
Proof.
  unfold q_is_zero. rewrite Z.eqb_eq. unfold Qeq. simpl. split; intros H; lia.
Qed.

Lemma ratio_spec d sp rows g r :
  let vals := map g (part_of d sp rows r) in
  let s := qsum (qs_of (nonnull vals)) in
  (nonnull vals = [] -> afun_val d sp rows FRatio g r = Ok VNull) /\
  (nonnull vals <> [] -> (s == 0)%Q -> afun_val d sp rows FRatio g r = Err ERR_RATIO0) /\
  (nonnull vals <> [] -> ~ (s == 0)%Q ->
     (forall x, to_q (g r) = Some x -> exists q, afun_val d sp rows FRatio g r = Ok (VNum q) /\ (q == x / s)%Q) /\
     (to_q (g r) = None -> afun_val d sp rows FRatio g r = Ok VNull)).
Proof.
  intros vals s. cbn [afun_val]. fold vals. split; [|split].
  - intros H. unfold agg_sum. rewrite H. reflexivity.
  - intros H Hs. destruct (agg_sum_value vals H) as [q [Hq [Hqs Hnn]]].
    destruct (agg_sum vals) eqn:E; try congruence; rewrite Hq;
      (assert (Z0 : q_is_zero q = true) by (apply q_is_zero_iff; eapply Qeq_trans; [exact Hqs | exact Hs])); rewrite Z0; reflexivity.
  - intros H Hs. destruct (agg_sum_value vals H) as [q [Hq [Hqs Hnn]]].
    assert (Z0 : q_is_zero q = false).
    { destruct (q_is_zero q) eqn:E; auto. apply q_is_zero_iff in E. exfalso. apply Hs. eapply Qeq_trans; [apply Qeq_sym; exact Hqs | exact E]. }
    split.
    + intros x Hx. destruct (agg_sum vals) eqn:E; try congruence; rewrite Hq, Z0, Hx; eexists; (split; [reflexivity|]);
        (eapply Qeq_trans; [apply Qred_correct|]); (apply Qdiv_comp; [reflexivity | exact Hqs]).
    + intros Hx. destruct (agg_sum vals) eqn:E; try congruence; rewrite Hq, Z0, Hx; reflexivity.
Qed.

(* =============================================================== packaged statements used by Props/C06.v *)
Lemma calc_put_frame ms vals name v :
  List.length ms = List.length vals ->
  elook name (combine (fst (calc_put ms vals name v)) (snd (calc_put ms vals name v))) = Some v /\
  forall n, n <> name ->
    elook n (combine (fst (calc_put ms vals name v)) (snd (calc_put ms vals name v))) = elook n (combine ms vals).
Proof. intros H. split; [apply calc_put_target; exact H | intros n Hn; apply calc_put_other; assumption]. Qed.

Lemma in_frame_iff lo hi i j :
  in_frame lo hi i j = true <->
  match lo with
  | UnbPrec => True | Prec n => (Z.of_nat i - Z.of_nat n <= Z.of_nat j)%Z | Cur => (Z.of_nat i <= Z.of_nat j)%Z
  | Foll n => (Z.of_nat i + Z.of_nat n <= Z.of_nat j)%Z | UnbFoll => False
  end /\
  match hi with
  | UnbPrec => False | Prec n => (Z.of_nat j <= Z.of_nat i - Z.of_nat n)%Z | Cur => (Z.of_nat j <= Z.of_nat i)%Z
  | Foll n => (Z.of_nat j <= Z.of_nat i + Z.of_nat n)%Z | UnbFoll => True
  end.
Proof. unfold in_frame. rewrite andb_true_iff, lo_ok_iff, hi_ok_iff. reflexivity. Qed.

Lemma rank_ratio_perm d sp rows rows' g r :
  Permutation rows rows' ->
  afun_val d sp rows FRank g r = afun_val d sp rows' FRank g r /\
  afun_val d sp rows FRatio g r = afun_val d sp rows' FRatio g r.
Proof.
  intros P. split; apply afun_val_perm; auto; discriminate.
Qed.

(* =============================================================== the headline statement in one piece (dataset level, rows frame) *)
Lemma Forall2_nth_error {A B} (R : A -> B -> Prop) l l' : Forall2 R l l' ->
  forall k x y, nth_error l k = Some x -> nth_error l' k = Some y -> R x y.
Proof.
  intros F. induction F as [|a b l l' Hab F IH]; intros [|k] x y Hx Hy; simpl in *; try discriminate.
  - injection Hx as <-. injection Hy as <-. exact Hab.
  - eapply IH; eassumption.
Qed.

Lemma nth_error_seq_lt a n j : j < n -> nth_error (seq a n) j = Some (a + j).
Proof.
  revert a j. induction n as [|n IH]; intros a [|j] H; simpl; try lia.
  - rewrite Nat.add_0_r. reflexivity.
  - rewrite IH by lia. f_equal. lia.
Qed.

Lemma d_analytic_rows_value f sp d d' k r r' j v :
  windowed f = true -> w_mode (eff_window sp) = Rows -> uniq_keys (d_rows d) = true ->
  d_analytic f sp d = Ok d' ->
  nth_error (d_rows d) k = Some r -> nth_error (d_rows d') k = Some r' ->
  j < List.length (d_ms d) -> nth_error (snd r') j = Some v ->
  fst r' = fst r /\
  let S := sorted_part d sp (d_rows d) r in
  exists i, nth_error S i = Some r /\
    v = agg f (map (meas j)
          (map snd (filter (fun jx => in_frame (w_lo (eff_window sp)) (w_hi (eff_window sp)) i (fst jx))
                           (combine (seq 0 (List.length S)) S)))).
Proof.
  intros W M U H Hr Hr' Hj Hv. destruct (d_analytic_spec _ _ _ _ H) as [_ [_ [_ F]]].
  destruct (Forall2_nth_error _ _ _ F _ _ _ Hr Hr') as [Hf Fv]. split; [exact Hf|].
  pose proof (Forall2_nth_error _ _ _ Fv j j v (nth_error_seq_lt 0 _ j Hj) Hv) as Hval. simpl in Hval.
  rewrite afun_val_windowed in Hval by exact W. injection Hval as <-.
  destruct (win_rows_rows d sp (d_rows d) r (nth_error_In _ _ Hr) U M) as [i [Hi Hw]].
  exists i. split; [exact Hi|]. rewrite Hw. reflexivity.
Qed.

(* =============================================================== operand type check *)
Lemma analytic_type_check numeric f sp d :
  (numeric_only f = true /\ In false numeric -> d_analytic_t numeric f sp d = Err ERR_IMPLICIT_CAST) /\
  (numeric_only f = false \/ (forall b, In b numeric -> b = true) -> d_analytic_t numeric f sp d = d_analytic f sp d).
Proof.
  unfold d_analytic_t. split.
  - intros [Hf Hin]. rewrite Hf. simpl.
    destruct (forallb (fun b => b) numeric) eqn:E; [|reflexivity].
    rewrite forallb_forall in E. specialize (E false Hin). discriminate.
  - intros [Hf|Hall]; [rewrite Hf; reflexivity|].
    assert (E : forallb (fun b => b) numeric = true) by (apply forallb_forall; exact Hall).
    rewrite E, andb_false_r. reflexivity.
Qed.

Lemma calc_analytic_type_check opn d name f sp operand :
  (numeric_only f = true /\ opn = false -> d_calc_analytic_t opn d name f sp operand = Err ERR_IMPLICIT_CAST) /\
  (numeric_only f = false \/ opn = true -> d_calc_analytic_t opn d name f sp operand = d_calc_analytic d name f sp operand).
Proof.
  unfold d_calc_analytic_t. split.
  - intros [-> ->]. reflexivity.
  - intros [->| ->]; [reflexivity | rewrite andb_false_r; reflexivity].
Qed.
