(* Type soundness of the component-expression language: values computed by `ceval` inhabit the type predicted by the typing
   judgement of Model/Typing.v (which is defined through the promotion tables regenerated from the code), and well-typed supported
   expressions never hit the ill-typed-application error of the value model. *)
From Coq Require Import ZArith QArith String List Bool.
Import ListNotations.
From VTL Require Import Base.Val Model.Types Model.Promote Model.Scalar Model.Expr Gen.Types Model.Typing.
Open Scope string_scope.

(* ---- the operator signatures read from the regenerated registry (these equalities re-check on every run) *)
Lemma sig_arith : forall op, In op [Add; Sub; Mul; Mod] -> op_sig (binop_name op) = Some (Some TNumber, None).
Proof. intros op H; simpl in H; repeat destruct H as [<- | H]; try reflexivity; contradiction. Qed.
Lemma sig_div : op_sig (binop_name Div) = Some (Some TNumber, Some TNumber).  Proof. reflexivity. Qed.
Lemma sig_power : op_sig (binop_name Power) = Some (Some TNumber, Some TNumber).  Proof. reflexivity. Qed.
Lemma sig_cmp : forall op, In op [Eq; Neq; Gt; Ge; Lt; Le] -> op_sig (binop_name op) = Some (None, Some TBoolean).
Proof. intros op H; simpl in H; repeat destruct H as [<- | H]; try reflexivity; contradiction. Qed.
Lemma sig_bool : forall op, In op [And; Or; Xor] -> op_sig (binop_name op) = Some (Some TBoolean, Some TBoolean).
Proof. intros op H; simpl in H; repeat destruct H as [<- | H]; try reflexivity; contradiction. Qed.
Lemma sig_concat : op_sig (binop_name Concat) = Some (Some TString, Some TString).  Proof. reflexivity. Qed.

(* ---- environments *)
Lemma tlook_typed s G e n t : env_typed_s s G e -> tlook n G = Some t -> exists v, elook n e = Some v /\ has_ty_s s v t = true.
Proof.
  induction G as [|[k t'] G IH]; simpl; intros HE HL; [discriminate|].
  destruct HE as [[v [Hv Ht]] HE].
  destruct (String.eqb n k) eqn:En.
  - inversion HL; subst. apply String.eqb_eq in En; subst. exists v; auto.
  - apply IH; assumption.
Qed.

(* ---- shapes of the values produced by the value functions *)
Definition numeric_val (v : val) : bool := match v with VNull | VInt _ | VNum _ => true | _ => false end.
Definition int_val (v : val) : bool := match v with VNull | VInt _ => true | _ => false end.
Definition boolish (v : val) : bool := match v with VNull | VBool _ => true | _ => false end.
Definition strish (v : val) : bool := match v with VNull | VStr _ => true | _ => false end.

Lemma arith_numeric op x y v : arith op x y = Ok v -> numeric_val v = true.
Proof.
  unfold arith; intros H.
  destruct x as [|a|a|a|a], y as [|b|b|b|b]; cbn [to_q] in H;
    repeat match type of H with
           | context [match ?c with _ => _ end] => destruct c eqn:?; try discriminate
           | context [if ?c then _ else _] => destruct c eqn:?; try discriminate
           end; try (inversion H; subst; reflexivity); try discriminate.
Qed.

Lemma arith_int op x y v : In op [Add; Sub; Mul; Mod] -> int_val x = true -> int_val y = true -> arith op x y = Ok v -> int_val v = true.
Proof.
  intros Hop Hx Hy H. simpl in Hop.
  destruct x as [|a|a|a|a]; try discriminate; destruct y as [|b|b|b|b]; try discriminate;
    repeat destruct Hop as [<- | Hop]; try contradiction; cbn in H; inversion H; reflexivity.
Qed.

Lemma arith_null_null op v : arith op VNull VNull = Ok v -> v = VNull.
Proof. destruct op; cbn; intros H; inversion H; reflexivity. Qed.

Lemma compare_boolish op x y v : compare_op op x y = Ok v -> boolish v = true.
Proof.
  unfold compare_op; intros H. destruct (is_null x || is_null y); [inversion H; reflexivity|].
  match type of H with context [match ?o with Some _ => _ | None => _ end] => destruct o end; inversion H; reflexivity.
Qed.

Lemma bool_op_boolish op x y v : bool_op op x y = Ok v -> boolish v = true.
Proof.
  unfold bool_op; intros H. destruct (tv x) as [a|]; [|discriminate]. destruct (tv y) as [b|]; [|discriminate].
  destruct op; try discriminate; inversion H; subst;
    match goal with |- boolish (of_tv ?o) = true => destruct o as [[|]|]; reflexivity end.
Qed.

Lemma concat_strish x y v : concat_op x y = Ok v -> strish v = true.
Proof.
  unfold concat_op; intros H. destruct (is_null x || is_null y); [inversion H; reflexivity|].
  destruct x, y; try discriminate; inversion H; reflexivity.
Qed.

(* has_ty consequences *)
Lemma has_boolish s v : boolish v = true -> has_ty_s s v TBoolean = true.
Proof. destruct v; try discriminate; reflexivity. Qed.
Lemma has_numeric s v : numeric_val v = true -> has_ty_s s v TNumber = true.
Proof. destruct v; try discriminate; reflexivity. Qed.
Lemma has_int s v : int_val v = true -> has_ty_s s v TInteger = true.
Proof. destruct v; try discriminate; reflexivity. Qed.
Lemma has_strish s v : strish v = true -> has_ty_s s v TString = true.
Proof. destruct v; try discriminate; reflexivity. Qed.
Lemma ty_int_val s v t : has_ty_s s v t = true -> In t [TInteger; TNull] -> int_val v = true.
Proof. destruct v; intros H [<-|[<-|[]]]; try discriminate; reflexivity. Qed.
Lemma ty_null_val s v : has_ty_s s v TNull = true -> v = VNull.
Proof. destruct v; try discriminate; reflexivity. Qed.

(* ---- binary operators *)
Ltac promo_cases H l r :=
  destruct l, r; vm_compute in H; try discriminate; injection H as <-.

Lemma binop_sound s op l r t x y v :
  obind (op_sig (binop_name op)) (fun sg => bpromo (implicit_of s) l r (fst sg) (snd sg)) = Some t ->
  has_ty_s s x l = true -> has_ty_s s y r = true -> binop_val op x y = Ok v -> has_ty_s s v t = true.
Proof.
  intros H Hx Hy Hv.
  destruct op; cbn [binop_val] in Hv.
  (* Add Sub Mul Div Mod *)
  1-5: destruct s; promo_cases H l r;
       try (apply has_numeric; eapply arith_numeric; exact Hv);
       try (apply has_int; eapply arith_int; [ | | | exact Hv];
            [simpl; tauto | eapply ty_int_val; [exact Hx | simpl; tauto] | eapply ty_int_val; [exact Hy | simpl; tauto]]);
       try (apply ty_null_val in Hx; apply ty_null_val in Hy; subst; apply arith_null_null in Hv; subst; reflexivity).
  (* Eq .. Le *)
  1-6: destruct s; promo_cases H l r; apply has_boolish; eapply compare_boolish; exact Hv.
  (* And Or Xor *)
  1-3: destruct s; promo_cases H l r; apply has_boolish; eapply bool_op_boolish; exact Hv.
  (* Concat *)
  - destruct s; promo_cases H l r; apply has_strish; eapply concat_strish; exact Hv.
  (* Power *)
  - destruct s; promo_cases H l r; apply has_numeric; eapply arith_numeric; exact Hv.
Qed.

(* ---- unary operators *)
Lemma unop_sound s op o t x v :
  obind (op_sig (unop_name op)) (fun sg => upromo (implicit_of s) o (fst sg) (snd sg)) = Some t ->
  has_ty_s s x o = true -> unop_val op x = Ok v -> has_ty_s s v t = true.
Proof.
  intros H Hx Hv.
  destruct s, op, o; vm_compute in H; try discriminate; injection H as <-;
    destruct x; try discriminate Hx;
    cbv [unop_val tv of_tv k_not option_map is_null qn] in Hv; try discriminate Hv;
    try (injection Hv as <-; reflexivity);
    try (match type of Hv with context [if ?c then _ else _] => destruct c end; injection Hv as <-; reflexivity).
Qed.

(* ---- subsumption through the promotion without a required type (if / nvl) *)
Lemma promo_left s l r t v : bpromo (implicit_of s) l r None None = Some t -> has_ty_s s v l = true -> has_ty_s s v t = true.
Proof. intros H Hv; destruct s; promo_cases H l r; destruct v; try discriminate Hv; reflexivity. Qed.
Lemma promo_right s l r t v : bpromo (implicit_of s) l r None None = Some t -> has_ty_s s v r = true -> has_ty_s s v t = true.
Proof. intros H Hv; destruct s; promo_cases H l r; destruct v; try discriminate Hv; reflexivity. Qed.
Lemma promo_bool s l r t : bpromo (implicit_of s) l r None (Some TBoolean) = Some t -> t = TBoolean.
Proof. intros H; destruct s; promo_cases H l r; reflexivity. Qed.

Lemma upromo_rt s o tc rt t : upromo (implicit_of s) o (Some tc) (Some rt) = Some t -> t = rt.
Proof. unfold upromo, unary_promotion; intros H. destruct (negb (memty tc (implicit_of s o))); [discriminate|]. injection H as <-; reflexivity. Qed.

Lemma if_val_cases c t e v : if_val c t e = Ok v -> v = t \/ v = e.
Proof. destruct c as [| | | |[|]]; simpl; intros H; try discriminate; inversion H; auto. Qed.

Lemma between_boolish a lo hi v : between_val a lo hi = Ok v -> boolish v = true.
Proof.
  unfold between_val; intros H. destruct (is_null a || is_null lo || is_null hi); [inversion H; reflexivity|].
  destruct (cmp_lt a lo), (cmp_lt hi a); try discriminate; inversion H; reflexivity.
Qed.
Lemma in_boolish a l v : in_val a l = Ok v -> boolish v = true.
Proof. unfold in_val; intros H; destruct (is_null a); inversion H; reflexivity. Qed.
Lemma not_in_boolish a l v : not_in_val a l = Ok v -> boolish v = true.
Proof.
  unfold not_in_val; intros H. destruct (in_val a l) as [w|] eqn:E; [|discriminate].
  pose proof (in_boolish _ _ _ E) as Hb. destruct w; try discriminate Hb; inversion H; reflexivity.
Qed.
Lemma round_numeric a n v : round_val a n = Ok v -> numeric_val v = true.
Proof. destruct a; simpl; intros H; try discriminate; inversion H; reflexivity. Qed.
Lemma trunc_numeric a n v : trunc_val a n = Ok v -> numeric_val v = true.
Proof. destruct a; simpl; intros H; try discriminate; inversion H; reflexivity. Qed.
Lemma to_int_int v : numeric_val v = true -> int_val (to_int v) = true.
Proof. destruct v; try discriminate; reflexivity. Qed.
Lemma substr_strish a st ln v : substr_val a st ln = Ok v -> strish v = true.
Proof. destruct a; simpl; intros H; try discriminate; inversion H; reflexivity. Qed.

Lemma has_ty_of_val s v : has_ty_s s v (ty_of_val v) = true.
Proof. destruct v; reflexivity. Qed.

(* ---- preservation: the value of a well-typed expression inhabits its type.
   `s` = strict (no Boolean-to-String promotion); impl = false: the specification's nvl rule *)
Theorem ctype_sound s G e : env_typed_s s G e ->
  forall c t v, ctype (implicit_of s) false G c = Some t -> ceval e c = Ok v -> has_ty_s s v t = true.
Proof.
  intros HE c; induction c as [n|w|op a IHa b IHb|op a IHa|a IHa b IHb d IHd|a IHa b IHb|a IHa b IHb d IHd|a IHa l|a IHa l|a IHa n|a IHa n|a IHa st ln];
    intros t v Ht Hv; cbn [ctype] in Ht; cbn [ceval] in Hv.
  - destruct (tlook_typed _ _ _ _ _ HE Ht) as [w [Hw Hty]]. rewrite Hw in Hv. inversion Hv; subst; exact Hty.
  - inversion Ht; inversion Hv; subst. apply has_ty_of_val.
  - destruct (ctype _ _ G a) as [l|] eqn:Ea; [|discriminate]. destruct (ctype _ _ G b) as [r|] eqn:Eb; [|discriminate].
    cbn [obind] in Ht.
    destruct (ceval e a) as [x|] eqn:Xa; [|discriminate]. destruct (ceval e b) as [y|] eqn:Xb; [|discriminate].
    cbn [bind] in Hv. eapply binop_sound; [exact Ht | eapply IHa; eauto | eapply IHb; eauto | exact Hv].
  - destruct (ctype _ _ G a) as [o|] eqn:Ea; [|discriminate]. cbn [obind] in Ht.
    destruct (ceval e a) as [x|] eqn:Xa; [|discriminate]. cbn [bind] in Hv.
    eapply unop_sound; [exact Ht | eapply IHa; eauto | exact Hv].
  - destruct (ctype _ _ G a) as [tc|] eqn:Ea; [|discriminate]. destruct (ctype _ _ G b) as [tt|] eqn:Eb; [|discriminate].
    destruct (ctype _ _ G d) as [te|] eqn:Ed; [|discriminate]. cbn [obind andb] in Ht.
    destruct (ty_eqb tc TBoolean); [|discriminate].
    destruct (ceval e a) as [x|] eqn:Xa; [|discriminate]. destruct (ceval e b) as [y|] eqn:Xb; [|discriminate].
    destruct (ceval e d) as [z|] eqn:Xd; [|discriminate]. cbn [bind] in Hv.
    destruct (if_val_cases _ _ _ _ Hv) as [-> | ->].
    + eapply promo_left; [exact Ht | eapply IHb; eauto].
    + eapply promo_right; [exact Ht | eapply IHd; eauto].
  - destruct (ctype _ _ G a) as [l|] eqn:Ea; [|discriminate]. destruct (ctype _ _ G b) as [r|] eqn:Eb; [|discriminate].
    cbn [obind] in Ht.
    destruct (ceval e a) as [x|] eqn:Xa; [|discriminate]. destruct (ceval e b) as [y|] eqn:Xb; [|discriminate].
    cbn [bind] in Hv. inversion Hv; subst v. unfold nvl_val. destruct (is_null x).
    + eapply promo_right; [exact Ht | eapply IHb; eauto].
    + eapply promo_left; [exact Ht | eapply IHa; eauto].
  - destruct (ctype _ _ G a) as [ta|] eqn:Ea; [|discriminate]. destruct (ctype _ _ G b) as [tl|] eqn:Eb; [|discriminate].
    destruct (ctype _ _ G d) as [th|] eqn:Ed; [|discriminate]. cbn [obind] in Ht.
    destruct (accepts (implicit_of s) ta tl && accepts (implicit_of s) ta th); [|discriminate]. inversion Ht; subst t.
    destruct (ceval e a) as [x|] eqn:Xa; [|discriminate]. destruct (ceval e b) as [y|] eqn:Xb; [|discriminate].
    destruct (ceval e d) as [z|] eqn:Xd; [|discriminate]. cbn [bind] in Hv.
    apply has_boolish. eapply between_boolish; exact Hv.
  - destruct (ctype _ _ G a) as [ta|] eqn:Ea; [|discriminate]. cbn [obind] in Ht.
    destruct (lits_ty l) as [ts|]; [|discriminate]. cbn [obind] in Ht. apply promo_bool in Ht; subst t.
    destruct (ceval e a) as [x|] eqn:Xa; [|discriminate]. cbn [bind] in Hv. apply has_boolish. eapply in_boolish; exact Hv.
  - destruct (ctype _ _ G a) as [ta|] eqn:Ea; [|discriminate]. cbn [obind] in Ht.
    destruct (lits_ty l) as [ts|]; [|discriminate]. cbn [obind] in Ht. apply promo_bool in Ht; subst t.
    destruct (ceval e a) as [x|] eqn:Xa; [|discriminate]. cbn [bind] in Hv. apply has_boolish. eapply not_in_boolish; exact Hv.
  - destruct (ctype _ _ G a) as [o|] eqn:Ea; [|discriminate]. cbn [obind] in Ht. apply upromo_rt in Ht; subst t.
    destruct (ceval e a) as [x|] eqn:Xa; [|discriminate]. cbn [bind] in Hv.
    destruct n as [k|].
    + apply has_numeric. eapply round_numeric; exact Hv.
    + destruct (round_val x 0) as [r|] eqn:Er; [|discriminate]. cbn [bind] in Hv. inversion Hv; subst v.
      apply has_int. apply to_int_int. eapply round_numeric; exact Er.
  - destruct (ctype _ _ G a) as [o|] eqn:Ea; [|discriminate]. cbn [obind] in Ht. apply upromo_rt in Ht; subst t.
    destruct (ceval e a) as [x|] eqn:Xa; [|discriminate]. cbn [bind] in Hv.
    destruct n as [k|].
    + apply has_numeric. eapply trunc_numeric; exact Hv.
    + destruct (trunc_val x 0) as [r|] eqn:Er; [|discriminate]. cbn [bind] in Hv. inversion Hv; subst v.
      apply has_int. apply to_int_int. eapply trunc_numeric; exact Er.
  - destruct (ctype _ _ G a) as [o|] eqn:Ea; [|discriminate]. cbn [obind] in Ht. apply upromo_rt in Ht; subst t.
    destruct (ceval e a) as [x|] eqn:Xa; [|discriminate]. cbn [bind] in Hv. apply has_strish. eapply substr_strish; exact Hv.
Qed.

(* ---- the code's own rule (impl = true: If.validate's operand swap) is sound as well *)
Theorem ctype_code_sound s G e : env_typed_s s G e ->
  forall c t v, ctype (implicit_of s) true G c = Some t -> ceval e c = Ok v -> has_ty_s s v t = true.
Proof.
  intros HE c; induction c as [n|w|op a IHa b IHb|op a IHa|a IHa b IHb d IHd|a IHa b IHb|a IHa b IHb d IHd|a IHa l|a IHa l|a IHa n|a IHa n|a IHa st ln];
    intros t v Ht Hv; cbn [ctype] in Ht; cbn [ceval] in Hv.
  - destruct (tlook_typed _ _ _ _ _ HE Ht) as [w [Hw Hty]]. rewrite Hw in Hv. inversion Hv; subst; exact Hty.
  - inversion Ht; inversion Hv; subst. apply has_ty_of_val.
  - destruct (ctype _ _ G a) as [l|] eqn:Ea; [|discriminate]. destruct (ctype _ _ G b) as [r|] eqn:Eb; [|discriminate].
    cbn [obind] in Ht.
    destruct (ceval e a) as [x|] eqn:Xa; [|discriminate]. destruct (ceval e b) as [y|] eqn:Xb; [|discriminate].
    cbn [bind] in Hv. eapply binop_sound; [exact Ht | eapply IHa; eauto | eapply IHb; eauto | exact Hv].
  - destruct (ctype _ _ G a) as [o|] eqn:Ea; [|discriminate]. cbn [obind] in Ht.
    destruct (ceval e a) as [x|] eqn:Xa; [|discriminate]. cbn [bind] in Hv.
    eapply unop_sound; [exact Ht | eapply IHa; eauto | exact Hv].
  - destruct (ctype _ _ G a) as [tc|] eqn:Ea; [|discriminate]. destruct (ctype _ _ G b) as [tt|] eqn:Eb; [|discriminate].
    destruct (ctype _ _ G d) as [te|] eqn:Ed; [|discriminate]. cbn [obind] in Ht.
    destruct (ty_eqb tc TBoolean); [|discriminate].
    destruct (ceval e a) as [x|] eqn:Xa; [|discriminate]. destruct (ceval e b) as [y|] eqn:Xb; [|discriminate].
    destruct (ceval e d) as [z|] eqn:Xd; [|discriminate]. cbn [bind] in Hv.
    destruct (true && is_lit b && negb (is_lit d)); destruct (if_val_cases _ _ _ _ Hv) as [-> | ->].
    + eapply promo_right; [exact Ht | eapply IHb; eauto].
    + eapply promo_left; [exact Ht | eapply IHd; eauto].
    + eapply promo_left; [exact Ht | eapply IHb; eauto].
    + eapply promo_right; [exact Ht | eapply IHd; eauto].
  - destruct (ctype _ _ G a) as [l|] eqn:Ea; [|discriminate]. destruct (ctype _ _ G b) as [r|] eqn:Eb; [|discriminate].
    cbn [obind] in Ht.
    destruct (ceval e a) as [x|] eqn:Xa; [|discriminate]. destruct (ceval e b) as [y|] eqn:Xb; [|discriminate].
    cbn [bind] in Hv. inversion Hv; subst v. unfold nvl_val. destruct (is_null x).
    + eapply promo_right; [exact Ht | eapply IHb; eauto].
    + eapply promo_left; [exact Ht | eapply IHa; eauto].
  - destruct (ctype _ _ G a) as [ta|] eqn:Ea; [|discriminate]. destruct (ctype _ _ G b) as [tl|] eqn:Eb; [|discriminate].
    destruct (ctype _ _ G d) as [th|] eqn:Ed; [|discriminate]. cbn [obind] in Ht.
    destruct (accepts (implicit_of s) ta tl && accepts (implicit_of s) ta th); [|discriminate]. inversion Ht; subst t.
    destruct (ceval e a) as [x|] eqn:Xa; [|discriminate]. destruct (ceval e b) as [y|] eqn:Xb; [|discriminate].
    destruct (ceval e d) as [z|] eqn:Xd; [|discriminate]. cbn [bind] in Hv.
    apply has_boolish. eapply between_boolish; exact Hv.
  - destruct (ctype _ _ G a) as [ta|] eqn:Ea; [|discriminate]. cbn [obind] in Ht.
    destruct (lits_ty l) as [ts|]; [|discriminate]. cbn [obind] in Ht. apply promo_bool in Ht; subst t.
    destruct (ceval e a) as [x|] eqn:Xa; [|discriminate]. cbn [bind] in Hv. apply has_boolish. eapply in_boolish; exact Hv.
  - destruct (ctype _ _ G a) as [ta|] eqn:Ea; [|discriminate]. cbn [obind] in Ht.
    destruct (lits_ty l) as [ts|]; [|discriminate]. cbn [obind] in Ht. apply promo_bool in Ht; subst t.
    destruct (ceval e a) as [x|] eqn:Xa; [|discriminate]. cbn [bind] in Hv. apply has_boolish. eapply not_in_boolish; exact Hv.
  - destruct (ctype _ _ G a) as [o|] eqn:Ea; [|discriminate]. cbn [obind] in Ht. apply upromo_rt in Ht; subst t.
    destruct (ceval e a) as [x|] eqn:Xa; [|discriminate]. cbn [bind] in Hv.
    destruct n as [k|].
    + apply has_numeric. eapply round_numeric; exact Hv.
    + destruct (round_val x 0) as [r|] eqn:Er; [|discriminate]. cbn [bind] in Hv. inversion Hv; subst v.
      apply has_int. apply to_int_int. eapply round_numeric; exact Er.
  - destruct (ctype _ _ G a) as [o|] eqn:Ea; [|discriminate]. cbn [obind] in Ht. apply upromo_rt in Ht; subst t.
    destruct (ceval e a) as [x|] eqn:Xa; [|discriminate]. cbn [bind] in Hv.
    destruct n as [k|].
    + apply has_numeric. eapply trunc_numeric; exact Hv.
    + destruct (trunc_val x 0) as [r|] eqn:Er; [|discriminate]. cbn [bind] in Hv. inversion Hv; subst v.
      apply has_int. apply to_int_int. eapply trunc_numeric; exact Er.
  - destruct (ctype _ _ G a) as [o|] eqn:Ea; [|discriminate]. cbn [obind] in Ht. apply upromo_rt in Ht; subst t.
    destruct (ceval e a) as [x|] eqn:Xa; [|discriminate]. cbn [bind] in Hv. apply has_strish. eapply substr_strish; exact Hv.
Qed.

(* the rule nvl had before the repair (the LEFT operand's type) was unsound: nvl(Me_i, 1.5) typed Integer evaluates to 3/2 *)
Definition nvl_witness_G : tenv := [("Me_i", TInteger)].
Definition nvl_witness_e : env := [("Me_i", VNull)].
Definition nvl_witness_c : cexpr := CNvl (CCol "Me_i") (CLit (VNum (3 # 2))).
Lemma nvl_left_type_rule_unsound_before_fix :
  env_typed nvl_witness_G nvl_witness_e /\ nvl_type_before_fix TInteger TNumber = Some TInteger /\
  ceval nvl_witness_e nvl_witness_c = Ok (VNum (3 # 2)) /\ has_ty (VNum (3 # 2)) TInteger = false /\
  ctype_code nvl_witness_G nvl_witness_c = Some TNumber.
Proof.
  split; [simpl; split; [exists VNull; split; reflexivity | exact I]|].
  split; [reflexivity|]. split; [reflexivity|]. split; reflexivity.
Qed.

(* ---- typed calc: the values computed for the definitions of a calc clause inhabit the predicted types *)
Theorem calc_defs_typed G e defs : env_typed G e ->
  forall nv ts,
    mapM (fun df : string * cexpr => bind (ceval e (snd df)) (fun v => Ok (fst df, v))) defs = Ok nv ->
    calc_types false G defs = Some ts ->
    Forall2 (fun (p : string * val) (q : string * ty) => fst p = fst q /\ has_ty (snd p) (snd q) = true) nv ts.
Proof.
  intros HE. induction defs as [|[n c] defs IH]; intros nv ts Hm Hc.
  - simpl in Hm, Hc. inversion Hm; inversion Hc; constructor.
  - cbn [mapM fst snd] in Hm. unfold calc_types in Hc; cbn [fold_right fst snd] in Hc.
    fold (calc_types false G defs) in Hc.
    destruct (calc_types false G defs) as [ts'|] eqn:Ets; [|discriminate]. cbn [obind] in Hc.
    destruct (ctype implicit_code false G c) as [t|] eqn:Et; [|discriminate]. cbn [obind] in Hc. inversion Hc; subst ts.
    destruct (ceval e c) as [v|] eqn:Ev; [|discriminate]. cbn [bind] in Hm.
    destruct (mapM _ defs) as [nv'|] eqn:Em; [|discriminate]. cbn [bind] in Hm. inversion Hm; subst nv.
    constructor.
    + split; [reflexivity|]. exact (ctype_sound false G e HE c t v Et Ev).
    + apply IH; [reflexivity | reflexivity].
Qed.

(* ---- progress: a supported expression that is well-typed WITHOUT the Boolean-to-String promotion never reaches the
   ill-typed-application error of the value model, nor an unknown component; the only errors left are VTL runtime errors *)
Definition bad_code (c : string) : bool := String.eqb c ERR_TYPE || String.eqb c "1-1-1-10".

Ltac crunch Hc :=
  repeat match type of Hc with
         | context [if ?c then _ else _] => destruct c
         | context [match ?c with _ => _ end] => destruct c
         end;
  first [discriminate Hc | (injection Hc as <-; reflexivity)].

Lemma binop_progress op l r t x y code :
  (match op with Mod | Power => false | _ => true end) = true ->
  obind (op_sig (binop_name op)) (fun sg => bpromo implicit_strict l r (fst sg) (snd sg)) = Some t ->
  has_ty_s true x l = true -> has_ty_s true y r = true -> binop_val op x y = Err code -> bad_code code = false.
Proof.
  intros Hs H Hx Hy Hc.
  destruct op; try discriminate Hs; promo_cases H l r;
    destruct x; try discriminate Hx; destruct y; try discriminate Hy;
    cbv [binop_val arith compare_op bool_op concat_op to_q is_null orb cmp_eq cmp_lt option_map tv of_tv k_and k_or k_xor qn ERR_TYPE ERR_DIV0] in Hc;
    crunch Hc.
Qed.

Lemma unop_progress op o t x code :
  obind (op_sig (unop_name op)) (fun sg => upromo implicit_strict o (fst sg) (snd sg)) = Some t ->
  has_ty_s true x o = true -> unop_val op x = Err code -> bad_code code = false.
Proof.
  intros H Hx Hc.
  destruct op, o; vm_compute in H; try discriminate; destruct x; try discriminate Hx;
    cbv [unop_val tv of_tv k_not option_map is_null qn ERR_TYPE] in Hc; crunch Hc.
Qed.

Lemma between_progress ta tl th a lo hi code :
  (accepts implicit_strict ta tl && accepts implicit_strict ta th) = true ->
  has_ty_s true a ta = true -> has_ty_s true lo tl = true -> has_ty_s true hi th = true ->
  between_val a lo hi = Err code -> bad_code code = false.
Proof.
  intros H Ha Hl Hh Hc. apply andb_prop in H; destruct H as [H1 H2].
  destruct ta, tl; vm_compute in H1; try discriminate H1; destruct th; vm_compute in H2; try discriminate H2;
    destruct a; try discriminate Ha; destruct lo; try discriminate Hl; destruct hi; try discriminate Hh;
    cbv [between_val is_null orb cmp_lt to_q ERR_TYPE] in Hc; crunch Hc.
Qed.

Lemma upromo_numeric o rt t x : upromo implicit_strict o (Some TNumber) rt = Some t -> has_ty_s true x o = true -> numeric_val x = true.
Proof. intros H Hx; destruct o; vm_compute in H; try discriminate H; destruct x; try discriminate Hx; reflexivity. Qed.
Lemma upromo_stringy o rt t x : upromo implicit_strict o (Some TString) rt = Some t -> has_ty_s true x o = true -> strish x = true.
Proof. intros H Hx; destruct o; vm_compute in H; try discriminate H; destruct x; try discriminate Hx; reflexivity. Qed.

Lemma round_ok x n : numeric_val x = true -> exists r, round_val x n = Ok r.
Proof. destruct x; try discriminate; intros _; eexists; reflexivity. Qed.
Lemma trunc_ok x n : numeric_val x = true -> exists r, trunc_val x n = Ok r.
Proof. destruct x; try discriminate; intros _; eexists; reflexivity. Qed.

Theorem ctype_progress G e : env_typed_s true G e ->
  forall c t code, supported c = true -> ctype implicit_strict false G c = Some t -> ceval e c = Err code -> bad_code code = false.
Proof.
  intros HE.
  pose proof (ctype_sound true G e HE) as SND. cbn [implicit_of] in SND.
  intros c; induction c as [n|w|op a IHa b IHb|op a IHa|a IHa b IHb d IHd|a IHa b IHb|a IHa b IHb d IHd|a IHa l|a IHa l|a IHa n|a IHa n|a IHa st ln];
    intros t code Hs Ht Hv; cbn [ctype] in Ht; cbn [ceval] in Hv; cbn [supported] in Hs;
    repeat match type of Hs with (_ && _) = true => apply andb_prop in Hs; destruct Hs as [Hs ?] end.
  - destruct (tlook_typed _ _ _ _ _ HE Ht) as [w [Hw _]]. rewrite Hw in Hv. discriminate.
  - discriminate.
  - destruct (ctype _ _ G a) as [l|] eqn:Ea; [|discriminate]. destruct (ctype _ _ G b) as [r|] eqn:Eb; [|discriminate].
    cbn [obind] in Ht.
    destruct (ceval e a) as [x|ca] eqn:Xa; [|inversion Hv; subst; eapply IHa; eauto].
    destruct (ceval e b) as [y|cb] eqn:Xb; [|inversion Hv; subst; eapply IHb; eauto].
    cbn [bind] in Hv. eapply binop_progress; [eassumption | exact Ht | eapply SND; eauto | eapply SND; eauto | exact Hv].
  - destruct (ctype _ _ G a) as [o|] eqn:Ea; [|discriminate]. cbn [obind] in Ht.
    destruct (ceval e a) as [x|ca] eqn:Xa; [|inversion Hv; subst; eapply IHa; eauto].
    cbn [bind] in Hv. eapply unop_progress; [exact Ht | eapply SND; eauto | exact Hv].
  - destruct (ctype _ _ G a) as [tc|] eqn:Ea; [|discriminate]. destruct (ctype _ _ G b) as [tt|] eqn:Eb; [|discriminate].
    destruct (ctype _ _ G d) as [te|] eqn:Ed; [|discriminate]. cbn [obind] in Ht.
    destruct (ty_eqb tc TBoolean) eqn:Etc; [|discriminate].
    destruct (ceval e a) as [x|ca] eqn:Xa; [|inversion Hv; subst; eapply IHa; eauto].
    destruct (ceval e b) as [y|cb] eqn:Xb; [|inversion Hv; subst; eapply IHb; eauto].
    destruct (ceval e d) as [z|cd] eqn:Xd; [|inversion Hv; subst; eapply IHd; eauto].
    cbn [bind] in Hv.
    assert (Hx : has_ty_s true x tc = true) by (eapply SND; eauto).
    destruct tc; try discriminate Etc. destruct x as [| | | |[|]]; try discriminate Hx; discriminate Hv.
  - destruct (ctype _ _ G a) as [l|] eqn:Ea; [|discriminate]. destruct (ctype _ _ G b) as [r|] eqn:Eb; [|discriminate].
    destruct (ceval e a) as [x|ca] eqn:Xa; [|inversion Hv; subst; eapply IHa; eauto].
    destruct (ceval e b) as [y|cb] eqn:Xb; [|inversion Hv; subst; eapply IHb; eauto].
    discriminate Hv.
  - destruct (ctype _ _ G a) as [ta|] eqn:Ea; [|discriminate]. destruct (ctype _ _ G b) as [tl|] eqn:Eb; [|discriminate].
    destruct (ctype _ _ G d) as [th|] eqn:Ed; [|discriminate]. cbn [obind] in Ht.
    destruct (accepts implicit_strict ta tl && accepts implicit_strict ta th) eqn:Ec; [|discriminate].
    destruct (ceval e a) as [x|ca] eqn:Xa; [|inversion Hv; subst; eapply IHa; eauto].
    destruct (ceval e b) as [y|cb] eqn:Xb; [|inversion Hv; subst; eapply IHb; eauto].
    destruct (ceval e d) as [z|cd] eqn:Xd; [|inversion Hv; subst; eapply IHd; eauto].
    cbn [bind] in Hv. eapply between_progress; [exact Ec | eapply SND; eauto | eapply SND; eauto | eapply SND; eauto | exact Hv].
  - destruct (ctype _ _ G a) as [ta|] eqn:Ea; [|discriminate].
    destruct (ceval e a) as [x|ca] eqn:Xa; [|inversion Hv; subst; eapply IHa; eauto].
    cbn [bind] in Hv. unfold in_val in Hv. destruct (is_null x); discriminate Hv.
  - destruct (ctype _ _ G a) as [ta|] eqn:Ea; [|discriminate].
    destruct (ceval e a) as [x|ca] eqn:Xa; [|inversion Hv; subst; eapply IHa; eauto].
    cbn [bind] in Hv. unfold not_in_val, in_val in Hv. destruct (is_null x); discriminate Hv.
  - destruct (ctype _ _ G a) as [o|] eqn:Ea; [|discriminate]. cbn [obind] in Ht.
    destruct (ceval e a) as [x|ca] eqn:Xa; [|inversion Hv; subst; eapply IHa; eauto].
    cbn [bind] in Hv. assert (Hn : numeric_val x = true) by (eapply upromo_numeric; [exact Ht | eapply SND; eauto]).
    destruct n as [k|].
    + destruct (round_ok x k Hn) as [r Hr]. rewrite Hr in Hv. discriminate.
    + destruct (round_ok x 0 Hn) as [r Hr]. rewrite Hr in Hv. discriminate.
  - destruct (ctype _ _ G a) as [o|] eqn:Ea; [|discriminate]. cbn [obind] in Ht.
    destruct (ceval e a) as [x|ca] eqn:Xa; [|inversion Hv; subst; eapply IHa; eauto].
    cbn [bind] in Hv. assert (Hn : numeric_val x = true) by (eapply upromo_numeric; [exact Ht | eapply SND; eauto]).
    destruct n as [k|].
    + destruct (trunc_ok x k Hn) as [r Hr]. rewrite Hr in Hv. discriminate.
    + destruct (trunc_ok x 0 Hn) as [r Hr]. rewrite Hr in Hv. discriminate.
  - destruct (ctype _ _ G a) as [o|] eqn:Ea; [|discriminate]. cbn [obind] in Ht.
    destruct (ceval e a) as [x|ca] eqn:Xa; [|inversion Hv; subst; eapply IHa; eauto].
    cbn [bind] in Hv. assert (Hn : strish x = true) by (eapply upromo_stringy; [exact Ht | eapply SND; eauto]).
    destruct x; try discriminate Hn; discriminate Hv.
Qed.

(* strict typing is a restriction of the code's table: whatever it accepts, the specification accepts with the same type *)
Lemma strict_bpromo l r tc rt t : bpromo implicit_strict l r tc rt = Some t -> bpromo implicit_code l r tc rt = Some t.
Proof.
  intros H. destruct l, r, tc as [[]|], rt as [[]|]; vm_compute in H; try discriminate H; vm_compute; exact H.
Qed.

(* ---- the promotion without required type is symmetric on the code's table, so If.validate's operand swap changes nothing:
   the code's rule and the specification's rule are the same function *)
Lemma bpromo_none_sym l r : bpromo implicit_code l r None None = bpromo implicit_code r l None None.
Proof. destruct l, r; vm_compute; reflexivity. Qed.

Theorem ctype_code_is_spec G c : ctype_code G c = ctype_spec G c.
Proof.
  unfold ctype_code, ctype_spec.
  induction c as [n|w|op a IHa b IHb|op a IHa|a IHa b IHb d IHd|a IHa b IHb|a IHa b IHb d IHd|a IHa l|a IHa l|a IHa n|a IHa n|a IHa st ln];
    cbn [ctype]; try reflexivity;
    try rewrite IHa; try rewrite IHb; try rewrite IHd; try reflexivity.
  destruct (ctype implicit_code false G a) as [tc|]; [|reflexivity].
  destruct (ctype implicit_code false G b) as [tt|]; [|reflexivity].
  destruct (ctype implicit_code false G d) as [te|]; [|reflexivity].
  cbn [obind]. destruct (ty_eqb tc TBoolean); [|reflexivity].
  destruct (true && is_lit b && negb (is_lit d)); cbn [andb]; [apply bpromo_none_sym | reflexivity].
Qed.
