(* Lemmas about Model/Dag.v: confluence of topological orders, correctness of the order checker,
   the model cycle detector (Kahn) against the graph-theoretic notion of a cycle, redefinition check.
   All statements are over lists of arbitrary length (induction; no bounded sweep). *)
From Coq Require Import List Bool Arith PeanoNat Relations Permutation Lia.
From Coq Require Import Relation_Operators Operators_Properties.
Import ListNotations.
From VTL Require Import Model.Dag.

(* ---------------------------------------------------------------- small facts *)
Lemma memb_In : forall x l, memb x l = true <-> In x l.
Proof.
  intros x l. unfold memb. rewrite existsb_exists. split.
  - intros [y [Hy He]]. apply Nat.eqb_eq in He. subst y. exact Hy.
  - intros H. exists x. split; [exact H | apply Nat.eqb_refl].
Qed.

Lemma memb_false : forall x l, memb x l = false <-> ~ In x l.
Proof.
  intros x l. rewrite <- memb_In. destruct (memb x l).
  - split; intro H; [discriminate | exfalso; apply H; reflexivity].
  - split; intro H; [discriminate | reflexivity].
Qed.

Lemma outs_app : forall l1 l2, outs (l1 ++ l2) = outs l1 ++ outs l2.
Proof. intros. unfold outs. apply map_app. Qed.

Lemma outs_perm : forall l1 l2, Permutation l1 l2 -> Permutation (outs l1) (outs l2).
Proof. intros. unfold outs. apply Permutation_map. assumption. Qed.

Lemma in_outs : forall s l, In s l -> In (s_out s) (outs l).
Proof. intros. unfold outs. apply in_map. assumption. Qed.

Lemma forallb_false_exists : forall (A : Type) (f : A -> bool) l,
  forallb f l = false -> exists x, In x l /\ f x = false.
Proof.
  intros A f l. induction l as [|a l IH]; simpl; intro H.
  - discriminate.
  - destruct (f a) eqn:Fa.
    + simpl in H. destruct (IH H) as [x [Hx Hf]]. exists x. split; [right; exact Hx | exact Hf].
    + exists a. split; [left; reflexivity | exact Fa].
Qed.

(* ---------------------------------------------------------------- topo_sorted *)
Lemma topo_sortedb_spec : forall l, topo_sortedb l = true <-> topo_sorted l.
Proof.
  induction l as [|s r IH].
  - simpl. split; auto.
  - cbn [topo_sortedb topo_sorted]. rewrite andb_true_iff, IH, forallb_forall. split.
    + intros [H1 H2]. split; [|exact H2]. intros d Hd Hin. specialize (H1 d Hd).
      apply negb_true_iff in H1. apply memb_false in H1. exact (H1 Hin).
    + intros [H1 H2]. split; [|exact H2]. intros d Hd. apply negb_true_iff. apply memb_false. exact (H1 d Hd).
Qed.

Lemma topo_sorted_remove : forall o1 x o2, topo_sorted (o1 ++ x :: o2) -> topo_sorted (o1 ++ o2).
Proof.
  induction o1 as [|a o1 IH]; intros x o2 H.
  - simpl in *. exact (proj2 H).
  - rewrite <- app_comm_cons in H. cbn [topo_sorted] in H. destruct H as [H1 H2].
    rewrite <- app_comm_cons. cbn [topo_sorted]. split.
    + intros d Hd Hin. apply (H1 d Hd).
      change (outs (a :: o1 ++ x :: o2)) with (s_out a :: outs (o1 ++ x :: o2)).
      change (outs (a :: o1 ++ o2)) with (s_out a :: outs (o1 ++ o2)) in Hin.
      destruct Hin as [Hin | Hin]; [left; exact Hin | right].
      rewrite outs_app in *. apply in_app_iff. apply in_app_iff in Hin.
      destruct Hin as [Hin | Hin]; [left; exact Hin | right; right; exact Hin].
    + exact (IH x o2 H2).
Qed.

Lemma topo_sorted_suffix : forall l1 l2, topo_sorted (l1 ++ l2) -> topo_sorted l2.
Proof.
  induction l1 as [|a l1 IH]; intros l2 H; [exact H|].
  rewrite <- app_comm_cons in H. exact (IH l2 (proj2 H)).
Qed.

(* ---------------------------------------------------------------- confluence *)
Section Confluence.
  Variable value : Type.
  Variable sem : stmt -> env value -> value.
  (* a statement's value depends only on the names it reads *)
  Hypothesis sem_reads_only_deps :
    forall s e1 e2, (forall d, In d (s_deps s) -> e1 d = e2 d) -> sem s e1 = sem s e2.

  Local Notation exec := (exec value sem).
  Local Notation step := (step value sem).

  Lemma exec_cons : forall s r e, exec (s :: r) e = exec r (step e s).
  Proof. reflexivity. Qed.

  (* the final environment solves the script's equations: untouched outside the outputs, and every output holds the value
     of its statement evaluated IN THE FINAL environment *)
  Lemma exec_solution : forall l e, NoDup (outs l) -> topo_sorted l ->
    (forall n, ~ In n (outs l) -> exec l e n = e n) /\
    (forall s, In s l -> exec l e (s_out s) = sem s (exec l e)).
  Proof.
    induction l as [|a l IH]; intros e Hnd Hts.
    - split; [reflexivity | intros s []].
    - change (outs (a :: l)) with (s_out a :: outs l) in Hnd.
      apply NoDup_cons_iff in Hnd. destruct Hnd as [Hna Hnd].
      destruct Hts as [Hs Hr].
      destruct (IH (step e a) Hnd Hr) as [I1 I2].
      assert (Hkeep : forall n, ~ In n (outs (a :: l)) -> exec (a :: l) e n = e n).
      { intros n Hn. rewrite exec_cons. rewrite I1.
        - unfold Dag.step, upd. destruct (Nat.eqb_spec n (s_out a)) as [E|E]; [|reflexivity].
          exfalso. apply Hn. left. symmetry. exact E.
        - intro Hin. apply Hn. right. exact Hin. }
      split; [exact Hkeep|].
      intros s [<- | Hin].
      + rewrite exec_cons. rewrite (I1 (s_out a) Hna).
        unfold Dag.step at 1, upd. rewrite Nat.eqb_refl.
        apply sem_reads_only_deps. intros d Hd. symmetry.
        rewrite <- exec_cons. apply Hkeep. exact (Hs d Hd).
      + rewrite exec_cons. apply I2. exact Hin.
  Qed.

  (* two environments solving the equations of a topologically sorted list and agreeing outside its outputs are equal *)
  Lemma agree_solution : forall l E1 E2, topo_sorted l ->
    (forall n, ~ In n (outs l) -> E1 n = E2 n) ->
    (forall s, In s l -> E1 (s_out s) = sem s E1) ->
    (forall s, In s l -> E2 (s_out s) = sem s E2) ->
    forall n, E1 n = E2 n.
  Proof.
    induction l as [|a l IH]; intros E1 E2 Hts Hout H1 H2 n.
    - apply Hout. intros [].
    - destruct Hts as [Hs Hr].
      assert (Ha : E1 (s_out a) = E2 (s_out a)).
      { rewrite (H1 a (or_introl eq_refl)), (H2 a (or_introl eq_refl)).
        transitivity (sem a E2); [|reflexivity].
        apply sem_reads_only_deps. intros d Hd. apply Hout. exact (Hs d Hd). }
      apply (IH E1 E2 Hr).
      + intros m Hm. destruct (Nat.eq_dec m (s_out a)) as [->|Hne]; [exact Ha|].
        apply Hout. intros [E|Hin]; [apply Hne; symmetry; exact E | exact (Hm Hin)].
      + intros s Hin. apply H1. right. exact Hin.
      + intros s Hin. apply H2. right. exact Hin.
  Qed.

  Theorem topo_confluence : forall l1 l2 e, Permutation l1 l2 -> NoDup (outs l1) ->
    topo_sorted l1 -> topo_sorted l2 -> forall n, exec l1 e n = exec l2 e n.
  Proof.
    intros l1 l2 e HP Hnd H1 H2.
    assert (Hnd2 : NoDup (outs l2)) by (eapply Permutation_NoDup; [apply outs_perm; exact HP | exact Hnd]).
    destruct (exec_solution l1 e Hnd H1) as [A1 B1].
    destruct (exec_solution l2 e Hnd2 H2) as [A2 B2].
    apply (agree_solution l1 (exec l1 e) (exec l2 e) H1).
    - intros n Hn. rewrite (A1 n Hn). symmetry. apply A2.
      intro Hin. apply Hn. eapply Permutation_in; [apply Permutation_sym; apply outs_perm; exact HP | exact Hin].
    - exact B1.
    - intros s Hin. apply B2. eapply Permutation_in; [exact HP | exact Hin].
  Qed.

  (* any topological order of any permutation of the script *)
  Theorem perm_invariance_orders : forall ss ss' o o' e,
    Permutation ss ss' -> NoDup (outs ss) ->
    Permutation o ss -> topo_sorted o -> Permutation o' ss' -> topo_sorted o' ->
    forall n, exec o e n = exec o' e n.
  Proof.
    intros ss ss' o o' e HP Hnd Ho Hto Ho' Hto'.
    apply topo_confluence; try assumption.
    - eapply perm_trans; [exact Ho|]. eapply perm_trans; [exact HP|]. apply Permutation_sym. exact Ho'.
    - eapply Permutation_NoDup; [apply outs_perm; apply Permutation_sym; exact Ho | exact Hnd].
  Qed.
End Confluence.

(* ---------------------------------------------------------------- the order checker *)
Lemma is_perm_of_keys_spec : forall ord n, is_perm_of_keys ord n = true <-> Permutation ord (seq 1 n).
Proof.
  intros ord n. unfold is_perm_of_keys. rewrite andb_true_iff, Nat.eqb_eq, forallb_forall. split.
  - intros [Hl Hall]. apply Permutation_sym. apply NoDup_Permutation_bis.
    + apply seq_NoDup.
    + rewrite seq_length. lia.
    + intros i Hi. specialize (Hall i Hi). apply existsb_exists in Hall.
      destruct Hall as [j [Hj E]]. apply Nat.eqb_eq in E. subst j. exact Hj.
  - intros HP. split.
    + rewrite (Permutation_length HP). apply seq_length.
    + intros i Hi. apply existsb_exists. exists i. split; [|apply Nat.eqb_refl].
      eapply Permutation_in; [apply Permutation_sym; exact HP | exact Hi].
Qed.

Lemma select_seq_gen : forall l pre,
  flat_map (pick_key (pre ++ l)) (seq (S (length pre)) (length l)) = l.
Proof.
  induction l as [|a l IH]; intros pre; [reflexivity|].
  cbn [length seq flat_map]. unfold pick_key at 1.
  replace (S (length pre) - 1) with (length pre) by lia.
  rewrite nth_error_app2 by lia. rewrite Nat.sub_diag. cbn [nth_error app].
  f_equal.
  specialize (IH (pre ++ [a])). rewrite <- app_assoc in IH. cbn [app] in IH.
  rewrite app_length in IH. cbn [length] in IH.
  replace (S (length pre + 1)) with (S (S (length pre))) in IH by lia. exact IH.
Qed.

Lemma select_seq : forall ss, select ss (seq 1 (length ss)) = ss.
Proof. intros ss. exact (select_seq_gen ss []). Qed.

Lemma select_perm : forall ss ord, Permutation ord (seq 1 (length ss)) -> Permutation (select ss ord) ss.
Proof.
  intros ss ord HP. rewrite <- (select_seq ss) at 2. unfold select.
  apply Permutation_flat_map. exact HP.
Qed.

Theorem is_topo_order_spec : forall ord ss,
  is_topo_order ord ss = true <-> Permutation ord (seq 1 (length ss)) /\ topo_sorted (select ss ord).
Proof.
  intros. unfold is_topo_order. rewrite andb_true_iff, is_perm_of_keys_spec, topo_sortedb_spec. reflexivity.
Qed.

Corollary is_topo_order_sound : forall ord ss,
  is_topo_order ord ss = true -> Permutation (select ss ord) ss /\ topo_sorted (select ss ord).
Proof.
  intros ord ss H. apply is_topo_order_spec in H. destruct H as [HP HT].
  split; [apply select_perm; exact HP | exact HT].
Qed.

(* what the engine does, given that each order it used passed the checker *)
Theorem validated_orders_agree :
  forall (value : Type) (sem : stmt -> env value -> value),
    (forall s e1 e2, (forall d, In d (s_deps s) -> e1 d = e2 d) -> sem s e1 = sem s e2) ->
  forall ss ss' ord ord' e, Permutation ss ss' -> NoDup (outs ss) ->
    is_topo_order ord ss = true -> is_topo_order ord' ss' = true ->
    forall n, exec value sem (select ss ord) e n = exec value sem (select ss' ord') e n.
Proof.
  intros value sem Hsem ss ss' ord ord' e HP Hnd H1 H2.
  destruct (is_topo_order_sound _ _ H1) as [P1 T1].
  destruct (is_topo_order_sound _ _ H2) as [P2 T2].
  exact (perm_invariance_orders value sem Hsem ss ss' _ _ e HP Hnd P1 T1 P2 T2).
Qed.

(* ---------------------------------------------------------------- Kahn sorter: soundness and completeness *)
Lemma ready_spec : forall R s, ready R s = true <-> (forall d, In d (s_deps s) -> ~ In d (outs R)).
Proof.
  intros R s. unfold ready. rewrite forallb_forall. split.
  - intros H d Hd. specialize (H d Hd). apply negb_true_iff in H. apply memb_false. exact H.
  - intros H d Hd. apply negb_true_iff. apply memb_false. exact (H d Hd).
Qed.

Lemma extract_some : forall p l x r, extract p l = Some (x, r) -> p x = true /\ Permutation l (x :: r).
Proof.
  intros p. induction l as [|a l IH]; intros x r H; simpl in H; [discriminate|].
  destruct (p a) eqn:Pa.
  - inversion H; subst. split; [exact Pa | apply Permutation_refl].
  - destruct (extract p l) as [[y r']|] eqn:E; [|discriminate].
    inversion H; subst. destruct (IH x r' eq_refl) as [Px HP]. split; [exact Px|].
    eapply perm_trans; [apply perm_skip; exact HP | apply perm_swap].
Qed.

Lemma extract_none : forall p l, extract p l = None -> forall x, In x l -> p x = false.
Proof.
  intros p. induction l as [|a l IH]; intros H x Hx; [destruct Hx|].
  simpl in H. destruct (p a) eqn:Pa; [discriminate|].
  destruct (extract p l) as [[y r']|] eqn:E; [discriminate|].
  destruct Hx as [<-|Hx]; [exact Pa | exact (IH eq_refl x Hx)].
Qed.

Lemma ksort_sound : forall f R o, ksort f R = Some o -> Permutation o R /\ topo_sorted o.
Proof.
  induction f as [|f IH]; intros R o H; destruct R as [|s R]; cbn [ksort] in H;
    try (inversion H; subst; split; [apply perm_nil | exact I]); try discriminate.
  destruct (extract (ready (s :: R)) (s :: R)) as [[x R']|] eqn:E; [|discriminate].
  destruct (ksort f R') as [o'|] eqn:K; [|discriminate].
  inversion H; subst o. clear H.
  destruct (IH R' o' K) as [HP HT].
  destruct (extract_some _ _ _ _ E) as [Hr HPx].
  assert (HPo : Permutation (x :: o') (s :: R)).
  { eapply perm_trans; [apply perm_skip; exact HP | apply Permutation_sym; exact HPx]. }
  split; [exact HPo|].
  split; [|exact HT].
  intros d Hd Hin. apply (proj1 (ready_spec _ _) Hr d Hd).
  eapply Permutation_in; [apply outs_perm; exact HPo | exact Hin].
Qed.

Lemma ksort_complete : forall f R, length R <= f ->
  (exists o, Permutation o R /\ topo_sorted o) -> exists o', ksort f R = Some o'.
Proof.
  induction f as [|f IH]; intros R Hlen [o [HP HT]]; destruct R as [|s R]; simpl in Hlen;
    try (exists []; reflexivity); try lia.
  cbn [ksort].
  destruct o as [|h t].
  { apply Permutation_length in HP. simpl in HP. discriminate. }
  destruct (extract (ready (s :: R)) (s :: R)) as [[x R']|] eqn:E.
  - destruct (extract_some _ _ _ _ E) as [Hr HPx].
    assert (HPo : Permutation (h :: t) (x :: R')) by (eapply perm_trans; [exact HP | exact HPx]).
    assert (Hx : In x (h :: t)).
    { eapply Permutation_in; [apply Permutation_sym; exact HPo | left; reflexivity]. }
    destruct (in_split _ _ Hx) as [o1 [o2 Eo]].
    assert (HP' : Permutation (o1 ++ o2) R').
    { apply Permutation_sym. apply Permutation_cons_app_inv with (a := x).
      rewrite <- Eo. apply Permutation_sym. exact HPo. }
    assert (HT' : topo_sorted (o1 ++ o2)) by (apply topo_sorted_remove with (x := x); rewrite <- Eo; exact HT).
    assert (Hlen' : length R' <= f).
    { apply Permutation_length in HPx. simpl in HPx. lia. }
    destruct (IH R' Hlen' (ex_intro _ (o1 ++ o2) (conj HP' HT'))) as [o' K].
    rewrite K. exists (x :: o'). reflexivity.
  - exfalso.
    assert (Hh : In h (s :: R)) by (eapply Permutation_in; [exact HP | left; reflexivity]).
    pose proof (extract_none _ _ E h Hh) as Hf.
    assert (Ht : ready (s :: R) h = true).
    { apply ready_spec. intros d Hd Hin. destruct HT as [Hs _]. apply (Hs d Hd).
      eapply Permutation_in; [apply Permutation_sym; apply outs_perm; exact HP | exact Hin]. }
    congruence.
Qed.

(* ---------------------------------------------------------------- cycles *)
Lemma clos_trans_incl : forall (R1 R2 : name -> name -> Prop), (forall a b, R1 a b -> R2 a b) ->
  forall x y, clos_trans name R1 x y -> clos_trans name R2 x y.
Proof.
  intros R1 R2 H x y C. induction C as [x y Hxy | x y z _ IH1 _ IH2].
  - apply t_step. exact (H _ _ Hxy).
  - eapply t_trans; eassumption.
Qed.

Lemma reads_rel_incl : forall l l', incl l l' -> forall a b, reads_rel l a b -> reads_rel l' a b.
Proof. intros l l' Hi a b [s [Hs [Ho Hd]]]. exists s. split; [exact (Hi s Hs) | split; assumption]. Qed.

Lemma cyclic_incl : forall l l', incl l l' -> cyclic l -> cyclic l'.
Proof.
  intros l l' Hi [n C]. exists n. eapply clos_trans_incl; [|exact C]. apply reads_rel_incl. exact Hi.
Qed.

Lemma cyclic_perm : forall l l', Permutation l l' -> (cyclic l <-> cyclic l').
Proof.
  intros l l' HP. split; apply cyclic_incl; intros x Hx;
    [eapply Permutation_in; [exact HP | exact Hx] | eapply Permutation_in; [apply Permutation_sym; exact HP | exact Hx]].
Qed.

Lemma edge_source_is_output : forall l a b, reads_rel l a b -> In a (outs l).
Proof. intros l a b [s [Hs [Ho _]]]. subst a. apply in_outs. exact Hs. Qed.

Lemma path_source_is_output : forall l x y, clos_trans name (reads_rel l) x y -> In x (outs l).
Proof.
  intros l x y C. induction C as [x y Hxy | x y z _ IH1 _ _]; [eapply edge_source_is_output; exact Hxy | exact IH1].
Qed.

Lemma edge_into_output : forall s r a b, topo_sorted (s :: r) ->
  reads_rel (s :: r) a b -> In b (outs (s :: r)) -> reads_rel r a b.
Proof.
  intros s r a b [Hs _] [s0 [[<-|Hin] [Ho Hd]]] Hb.
  - exfalso. exact (Hs b Hd Hb).
  - exists s0. split; [exact Hin | split; assumption].
Qed.

Lemma path_into_output : forall s r x y, topo_sorted (s :: r) ->
  clos_trans name (reads_rel (s :: r)) x y -> In y (outs (s :: r)) -> clos_trans name (reads_rel r) x y.
Proof.
  intros s r x y HT C. apply clos_trans_tn1 in C.
  induction C as [y Hxy | y z Hyz C IH]; intro Hy.
  - apply t_step. exact (edge_into_output s r x y HT Hxy Hy).
  - eapply t_trans.
    + apply IH. eapply edge_source_is_output. exact Hyz.
    + apply t_step. exact (edge_into_output s r y z HT Hyz Hy).
Qed.

Lemma topo_sorted_acyclic : forall l, topo_sorted l -> ~ cyclic l.
Proof.
  induction l as [|s r IH]; intros HT [n C].
  - apply path_source_is_output in C. destruct C.
  - apply (IH (proj2 HT)). exists n.
    apply (path_into_output s r n n HT C). eapply path_source_is_output. exact C.
Qed.

(* pigeonhole: a relation that is serial on a finite non-empty set has a cycle *)
Section Pigeon.
  Variable Rel : name -> name -> Prop.

  Fixpoint chain (a : name) (p : list name) : Prop :=
    match p with [] => True | b :: q => Rel a b /\ chain b q end.

  Lemma chain_build : forall S, (forall a, In a S -> exists b, In b S /\ Rel a b) ->
    forall k a, In a S -> exists p, length p = k /\ chain a p /\ incl p S.
  Proof.
    intros S Hser. induction k as [|k IH]; intros a Ha.
    - exists []. split; [reflexivity | split; [exact I | intros x []]].
    - destruct (Hser a Ha) as [b [Hb Hab]]. destruct (IH b Hb) as [p [Hl [Hc Hi]]].
      exists (b :: p). split; [simpl; congruence | split; [split; assumption|]].
      intros x [<-|Hx]; [exact Hb | exact (Hi x Hx)].
  Qed.

  Lemma chain_reach : forall p1 a b p2, chain a (p1 ++ b :: p2) -> clos_trans name Rel a b /\ chain b p2.
  Proof.
    induction p1 as [|c p1 IH]; intros a b p2 H.
    - destruct H as [Hab Hc]. split; [apply t_step; exact Hab | exact Hc].
    - destruct H as [Hac Hc]. destruct (IH c b p2 Hc) as [Hcb Hb].
      split; [eapply t_trans; [apply t_step; exact Hac | exact Hcb] | exact Hb].
  Qed.

  Lemma dup_split : forall l : list name, ~ NoDup l -> exists x l1 l2 l3, l = l1 ++ x :: l2 ++ x :: l3.
  Proof.
    induction l as [|a l IH]; intro H.
    - exfalso. apply H. constructor.
    - destruct (in_dec Nat.eq_dec a l) as [Hin|Hnin].
      + destruct (in_split _ _ Hin) as [l2 [l3 E]]. exists a, [], l2, l3. subst l. reflexivity.
      + assert (Hl : ~ NoDup l) by (intro Hn; apply H; constructor; assumption).
        destruct (IH Hl) as [x [l1 [l2 [l3 E]]]]. exists x, (a :: l1), l2, l3. subst l. reflexivity.
  Qed.

  Lemma finite_serial_cycle : forall S, S <> [] ->
    (forall a, In a S -> exists b, In b S /\ Rel a b) -> exists n, clos_trans name Rel n n.
  Proof.
    intros S Hne Hser.
    assert (Hex : exists a, In a S) by (destruct S as [|a S']; [congruence | exists a; left; reflexivity]).
    destruct Hex as [a Ha].
    destruct (chain_build S Hser (length S) a Ha) as [p [Hl [Hc Hi]]].
    assert (Hnd : ~ NoDup (a :: p)).
    { intro Hn. assert (Hinc : incl (a :: p) S) by (intros x [<-|Hx]; [exact Ha | exact (Hi x Hx)]).
      pose proof (NoDup_incl_length Hn Hinc) as Hle. simpl in Hle. lia. }
    destruct (dup_split _ Hnd) as [x [l1 [l2 [l3 E]]]].
    exists x. destruct l1 as [|c l1]; simpl in E; inversion E; subst.
    - exact (proj1 (chain_reach l2 x x l3 Hc)).
    - destruct (chain_reach l1 c x (l2 ++ x :: l3) Hc) as [_ Hc2].
      exact (proj1 (chain_reach l2 x x l3 Hc2)).
  Qed.
End Pigeon.

Lemma stuck_cyclic : forall R, R <> [] -> (forall s, In s R -> ready R s = false) -> cyclic R.
Proof.
  intros R Hne Hst. unfold cyclic.
  apply (finite_serial_cycle (reads_rel R) (outs R)).
  - destruct R; [congruence | discriminate].
  - intros a Ha. unfold outs in Ha. apply in_map_iff in Ha. destruct Ha as [s [Ho Hs]].
    pose proof (Hst s Hs) as Hf. unfold ready in Hf.
    destruct (forallb_false_exists _ _ _ Hf) as [d [Hd Hm]].
    apply negb_false_iff in Hm. apply memb_In in Hm.
    exists d. split; [exact Hm|]. exists s. split; [exact Hs | split; [exact Ho | exact Hd]].
Qed.

Lemma ksort_none_cyclic : forall f R, length R <= f -> ksort f R = None -> cyclic R.
Proof.
  induction f as [|f IH]; intros R Hlen H; destruct R as [|s R]; simpl in Hlen; cbn [ksort] in H; try discriminate; try lia.
  destruct (extract (ready (s :: R)) (s :: R)) as [[x R']|] eqn:E.
  - destruct (ksort f R') as [o'|] eqn:K; [discriminate|].
    destruct (extract_some _ _ _ _ E) as [_ HPx].
    assert (Hlen' : length R' <= f) by (apply Permutation_length in HPx; simpl in HPx; lia).
    apply (cyclic_incl R' (s :: R)); [|exact (IH R' Hlen' K)].
    intros y Hy. eapply Permutation_in; [apply Permutation_sym; exact HPx | right; exact Hy].
  - apply stuck_cyclic; [discriminate|]. exact (extract_none _ _ E).
Qed.

Theorem cycle_detected_iff : forall ss, cycle_detected ss = true <-> cyclic ss.
Proof.
  intros ss. unfold cycle_detected, model_sort. split.
  - destruct (ksort (length ss) ss) as [o|] eqn:K; [discriminate|]. intros _.
    exact (ksort_none_cyclic _ _ (le_n _) K).
  - intros Hc. destruct (ksort (length ss) ss) as [o|] eqn:K; [|reflexivity].
    exfalso. destruct (ksort_sound _ _ _ K) as [HP HT].
    apply (topo_sorted_acyclic o HT). apply (cyclic_perm o ss HP). exact Hc.
Qed.

Theorem acyclic_iff_topo_order_exists : forall ss,
  ~ cyclic ss <-> exists o, Permutation o ss /\ topo_sorted o.
Proof.
  intros ss. split.
  - intros Hn. destruct (model_sort ss) as [o|] eqn:K.
    + exists o. exact (ksort_sound _ _ _ K).
    + exfalso. apply Hn. exact (ksort_none_cyclic _ _ (le_n _) K).
  - intros [o [HP HT]] Hc. apply (topo_sorted_acyclic o HT). apply (cyclic_perm o ss HP). exact Hc.
Qed.

Theorem model_sort_correct : forall ss, ~ cyclic ss ->
  exists o, model_sort ss = Some o /\ Permutation o ss /\ topo_sorted o.
Proof.
  intros ss Hn. destruct (model_sort ss) as [o|] eqn:K.
  - exists o. split; [reflexivity | exact (ksort_sound _ _ _ K)].
  - exfalso. apply Hn. exact (ksort_none_cyclic _ _ (le_n _) K).
Qed.

Theorem cycle_detected_perm : forall ss ss', Permutation ss ss' -> cycle_detected ss = cycle_detected ss'.
Proof.
  intros ss ss' HP.
  destruct (cycle_detected ss) eqn:A; destruct (cycle_detected ss') eqn:B; try reflexivity; exfalso.
  - apply cycle_detected_iff in A. apply (cyclic_perm _ _ HP) in A. apply cycle_detected_iff in A. congruence.
  - apply cycle_detected_iff in B. apply (cyclic_perm _ _ HP) in B. apply cycle_detected_iff in B. congruence.
Qed.

(* ---------------------------------------------------------------- sorter-parametric invariance *)
Section Sorter.
  Variable value : Type.
  Variable sem : stmt -> env value -> value.
  Hypothesis sem_reads_only_deps :
    forall s e1 e2, (forall d, In d (s_deps s) -> e1 d = e2 d) -> sem s e1 = sem s e2.
  (* whatever the sorting routine is (networkx in the engine), all that is asked of it: *)
  Variable sorter : list stmt -> list stmt.
  Hypothesis sorter_topological : forall ss, ~ cyclic ss -> Permutation (sorter ss) ss /\ topo_sorted (sorter ss).

  Theorem perm_invariance : forall ss ss' e, Permutation ss ss' -> NoDup (outs ss) -> ~ cyclic ss ->
    forall n, exec value sem (sorter ss) e n = exec value sem (sorter ss') e n.
  Proof.
    intros ss ss' e HP Hnd Hac.
    assert (Hac' : ~ cyclic ss') by (intro C; apply Hac; apply (cyclic_perm _ _ HP); exact C).
    destruct (sorter_topological ss Hac) as [P1 T1].
    destruct (sorter_topological ss' Hac') as [P2 T2].
    exact (perm_invariance_orders value sem sem_reads_only_deps ss ss' _ _ e HP Hnd P1 T1 P2 T2).
  Qed.
End Sorter.

(* ---------------------------------------------------------------- redefinition *)
Lemma has_dup_spec : forall l, has_dup l = true <-> ~ NoDup l.
Proof.
  induction l as [|x r IH].
  - simpl. split; [discriminate | intro H; exfalso; apply H; constructor].
  - cbn [has_dup]. rewrite orb_true_iff, IH, memb_In. split.
    + intros [Hin|Hn] Hnd; apply NoDup_cons_iff in Hnd; destruct Hnd as [H1 H2]; [exact (H1 Hin) | exact (Hn H2)].
    + intros H. destruct (in_dec Nat.eq_dec x r) as [Hin|Hnin]; [left; exact Hin | right].
      intro Hn. apply H. constructor; assumption.
Qed.

Lemma not_nodup_iff_two_positions : forall l : list name,
  ~ NoDup l <-> exists x l1 l2 l3, l = l1 ++ x :: l2 ++ x :: l3.
Proof.
  intros l. split; [apply dup_split|].
  intros [x [l1 [l2 [l3 E]]]] Hn. subst l. apply NoDup_remove_2 in Hn. apply Hn.
  apply in_app_iff. right. apply in_app_iff. right. left. reflexivity.
Qed.

Theorem redefinition_detected_iff : forall ss,
  redefinition_detected ss = true <-> exists x l1 l2 l3, outs ss = l1 ++ x :: l2 ++ x :: l3.
Proof.
  intros ss. unfold redefinition_detected. rewrite has_dup_spec. apply not_nodup_iff_two_positions.
Qed.

Theorem redefinition_detected_nodup : forall ss, redefinition_detected ss = false <-> NoDup (outs ss).
Proof.
  intros ss. unfold redefinition_detected. destruct (has_dup (outs ss)) eqn:H.
  - apply has_dup_spec in H. split; [discriminate | intro Hn; exfalso; exact (H Hn)].
  - split; [intros _|reflexivity].
    destruct (ListDec.NoDup_dec Nat.eq_dec (outs ss)) as [Hn|Hn]; [exact Hn|].
    apply has_dup_spec in Hn. congruence.
Qed.

Theorem redefinition_detected_perm : forall ss ss', Permutation ss ss' ->
  redefinition_detected ss = redefinition_detected ss'.
Proof.
  intros ss ss' HP. unfold redefinition_detected.
  destruct (has_dup (outs ss)) eqn:A; destruct (has_dup (outs ss')) eqn:B; try reflexivity; exfalso.
  - apply has_dup_spec in A. apply A. eapply Permutation_NoDup; [apply Permutation_sym; apply outs_perm; exact HP|].
    apply redefinition_detected_nodup. exact B.
  - apply has_dup_spec in B. apply B. eapply Permutation_NoDup; [apply outs_perm; exact HP|].
    apply redefinition_detected_nodup. exact A.
Qed.

Theorem outcome_spec_perm : forall ss ss', Permutation ss ss' -> outcome_spec ss = outcome_spec ss'.
Proof.
  intros ss ss' HP. unfold outcome_spec.
  rewrite (redefinition_detected_perm _ _ HP), (cycle_detected_perm _ _ HP). reflexivity.
Qed.

(* BEFORE the repair the code's choice between the two errors depended on the statement order (duplicate + cycle through one definition) *)
Definition witness_a : list stmt := [Stmt 1 [2] false; Stmt 1 [0] false; Stmt 2 [1] false].  (* A := B; A := X; B := A *)
Definition witness_b : list stmt := [Stmt 1 [0] false; Stmt 1 [2] false; Stmt 2 [1] false].  (* A := X; A := B; B := A *)

Theorem outcome_before_fix_order_dependent :
  exists ss ss', Permutation ss ss' /\ outcome_before_fix ss <> outcome_before_fix ss'.
Proof.
  exists witness_a, witness_b. split.
  - unfold witness_a, witness_b. apply perm_swap.
  - vm_compute. discriminate.
Qed.

(* ---------------------------------------------------------------- the code's graph (last-definition edges over keys) vs the script *)
Lemma index_last_some : forall x l k j, index_last x l k = Some j ->
  k <= j /\ nth_error l (j - k) = Some x.
Proof.
  intros x. induction l as [|y r IH]; intros k j H; [discriminate|].
  cbn [index_last] in H. destruct (index_last x r (S k)) as [j'|] eqn:E.
  - inversion H; subst j'. destruct (IH (S k) j E) as [Hle Hn]. split; [lia|].
    replace (j - k) with (S (j - S k)) by lia. exact Hn.
  - destruct (Nat.eqb_spec x y) as [->|]; [|discriminate]. inversion H; subst j.
    split; [lia|]. rewrite Nat.sub_diag. reflexivity.
Qed.

Lemma index_last_complete : forall x l k, In x l -> exists j, index_last x l k = Some j.
Proof.
  intros x. induction l as [|y r IH]; intros k Hin; [destruct Hin|].
  cbn [index_last]. destruct (index_last x r (S k)) as [j'|] eqn:E; [exists j'; reflexivity|].
  destruct Hin as [->|Hin].
  - rewrite Nat.eqb_refl. exists k. reflexivity.
  - destruct (IH (S k) Hin) as [j Hj]. congruence.
Qed.

Lemma index_last_none_notin : forall x l k, index_last x l k = None -> ~ In x l.
Proof.
  intros x l k H Hin. destruct (index_last_complete x l k Hin) as [j Hj]. congruence.
Qed.

Lemma index_last_unique : forall x l k i, NoDup l -> nth_error l i = Some x -> index_last x l k = Some (k + i).
Proof.
  intros x. induction l as [|y r IH]; intros k i Hn Hi; [destruct i; discriminate|].
  apply NoDup_cons_iff in Hn. destruct Hn as [Hy Hn]. cbn [index_last]. destruct i as [|i].
  - simpl in Hi. inversion Hi; subst y.
    destruct (index_last x r (S k)) as [j'|] eqn:E.
    + exfalso. apply Hy. destruct (index_last_some x r (S k) j' E) as [_ Hn']. eapply nth_error_In. exact Hn'.
    + rewrite Nat.eqb_refl. f_equal. lia.
  - simpl in Hi. rewrite (IH (S k) i Hn Hi). f_equal. lia.
Qed.

Lemma impl_from_In : forall all l k s',
  In s' (impl_from all k l) <-> exists i s, nth_error l i = Some s /\ s' = Stmt (k + i) (producers all s) (s_pers s).
Proof.
  intros all. induction l as [|a l IH]; intros k s'.
  - simpl. split; [intros [] | intros [i [s [H _]]]; destruct i; discriminate].
  - cbn [impl_from In]. rewrite IH. split.
    + intros [E|[i [s [Hi E]]]].
      * exists 0, a. split; [reflexivity|]. rewrite Nat.add_0_r. symmetry. exact E.
      * exists (S i), s. split; [exact Hi|]. rewrite E. f_equal. lia.
    + intros [i [s [Hi E]]]. destruct i as [|i].
      * left. simpl in Hi. inversion Hi; subst a. rewrite Nat.add_0_r in E. symmetry. exact E.
      * right. exists i, s. split; [exact Hi|]. rewrite E. f_equal. lia.
Qed.

Lemma producers_In : forall all s j, In j (producers all s) <-> exists d, In d (s_deps s) /\ last_def all d = Some j.
Proof.
  intros all s j. unfold producers. rewrite in_flat_map. split.
  - intros [d [Hd Hj]]. exists d. split; [exact Hd|]. destruct (last_def all d) as [j'|]; [|destruct Hj].
    destruct Hj as [<-|[]]. reflexivity.
  - intros [d [Hd Hj]]. exists d. split; [exact Hd|]. rewrite Hj. left. reflexivity.
Qed.

Lemma clos_trans_map : forall (A B : Type) (R1 : A -> A -> Prop) (R2 : B -> B -> Prop) (f : A -> B),
  (forall a b, R1 a b -> R2 (f a) (f b)) -> forall a b, clos_trans A R1 a b -> clos_trans B R2 (f a) (f b).
Proof.
  intros A B R1 R2 f H a b C. induction C as [a b Hab | a b c _ IH1 _ IH2].
  - apply t_step. exact (H _ _ Hab).
  - eapply t_trans; eassumption.
Qed.

(* a cycle of the key graph is a cycle of the script (no hypothesis) *)
Lemma impl_cyclic_cyclic : forall ss, cyclic (impl_view ss) -> cyclic ss.
Proof.
  intros ss [n C]. exists (nth (n - 1) (outs ss) 0).
  apply (clos_trans_map nat name (reads_rel (impl_view ss)) (reads_rel ss) (fun k => nth (k - 1) (outs ss) 0)); [|exact C].
  intros a b [s' [Hs' [Ho Hd]]]. unfold impl_view in Hs'. apply impl_from_In in Hs'.
  destruct Hs' as [i [s [Hi E]]]. subst s'. cbn [s_out s_deps] in Ho, Hd. subst a.
  apply producers_In in Hd. destruct Hd as [d [Hd Hl]].
  unfold last_def in Hl. destruct (index_last_some d (outs ss) 1 b Hl) as [_ Hb].
  exists s. split; [eapply nth_error_In; exact Hi|]. split.
  - replace (1 + i - 1) with i by lia. symmetry. apply nth_error_nth. unfold outs. apply map_nth_error. exact Hi.
  - rewrite (nth_error_nth (outs ss) (b - 1) 0 Hb). exact Hd.
Qed.

(* with unique outputs a cycle of the script is a cycle of the key graph *)
Lemma edge_to_impl : forall ss x y, NoDup (outs ss) -> reads_rel ss x y -> In y (outs ss) ->
  exists kx ky, last_def ss x = Some kx /\ last_def ss y = Some ky /\ reads_rel (impl_view ss) kx ky.
Proof.
  intros ss x y Hn [s [Hs [Ho Hd]]] Hy.
  destruct (In_nth_error ss s Hs) as [i Hi].
  assert (Hx : last_def ss x = Some (1 + i)).
  { unfold last_def. apply index_last_unique; [exact Hn|]. subst x. unfold outs. apply map_nth_error. exact Hi. }
  destruct (index_last_complete y (outs ss) 1 Hy) as [j Hj].
  exists (1 + i), j. split; [exact Hx|]. split; [exact Hj|].
  exists (Stmt (1 + i) (producers ss s) (s_pers s)). split.
  - unfold impl_view. apply impl_from_In. exists i, s. split; [exact Hi | reflexivity].
  - split; [reflexivity|]. cbn [s_deps]. apply producers_In. exists y. split; [exact Hd | exact Hj].
Qed.

Lemma path_to_impl : forall ss x y, NoDup (outs ss) -> clos_trans name (reads_rel ss) x y -> In y (outs ss) ->
  exists kx ky, last_def ss x = Some kx /\ last_def ss y = Some ky /\ clos_trans name (reads_rel (impl_view ss)) kx ky.
Proof.
  intros ss x y Hn C. apply clos_trans_tn1 in C. induction C as [y Hxy | y z Hyz C IH]; intro Hout.
  - destruct (edge_to_impl ss x y Hn Hxy Hout) as [kx [ky [H1 [H2 H3]]]].
    exists kx, ky. split; [exact H1|]. split; [exact H2|]. apply t_step. exact H3.
  - destruct (IH (edge_source_is_output ss y z Hyz)) as [kx [ky [H1 [H2 H3]]]].
    destruct (edge_to_impl ss y z Hn Hyz Hout) as [ky' [kz [H4 [H5 H6]]]].
    assert (ky' = ky) by congruence. subst ky'.
    exists kx, kz. split; [exact H1|]. split; [exact H5|]. eapply t_trans; [exact H3 | apply t_step; exact H6].
Qed.

Lemma cyclic_impl_cyclic : forall ss, NoDup (outs ss) -> cyclic ss -> cyclic (impl_view ss).
Proof.
  intros ss Hn [n C].
  destruct (path_to_impl ss n n Hn C (path_source_is_output ss n n C)) as [kx [ky [H1 [H2 H3]]]].
  assert (kx = ky) by congruence. subst ky. exists kx. exact H3.
Qed.

Theorem impl_graph_cycle_iff : forall ss, NoDup (outs ss) ->
  cycle_detected (impl_view ss) = cycle_detected ss.
Proof.
  intros ss Hn.
  destruct (cycle_detected (impl_view ss)) eqn:A; destruct (cycle_detected ss) eqn:B; try reflexivity; exfalso.
  - apply cycle_detected_iff in A. apply impl_cyclic_cyclic in A. apply cycle_detected_iff in A. congruence.
  - apply cycle_detected_iff in B. apply (cyclic_impl_cyclic ss Hn) in B. apply cycle_detected_iff in B. congruence.
Qed.

(* the repaired create_dag makes exactly the specified choice, hence the same one in every statement order *)
Theorem outcome_impl_is_spec : forall ss, outcome_impl ss = outcome_spec ss.
Proof.
  intros ss. unfold outcome_impl, outcome_spec. destruct (redefinition_detected ss) eqn:R; [reflexivity|].
  rewrite (impl_graph_cycle_iff ss (proj1 (redefinition_detected_nodup ss) R)). reflexivity.
Qed.

Theorem outcome_impl_perm : forall ss ss', Permutation ss ss' -> outcome_impl ss = outcome_impl ss'.
Proof. intros ss ss' HP. rewrite !outcome_impl_is_spec. exact (outcome_spec_perm ss ss' HP). Qed.

(* ---------------------------------------------------------------- unknown-variable promotion *)
Lemma promote_with_deps : forall known r v,
  In v (s_deps (promote_with known r)) <-> In v (r_inputs r) \/ (In v (r_unk r) /\ In v known).
Proof.
  intros. unfold promote_with. cbn [s_deps]. rewrite in_app_iff, filter_In, memb_In. reflexivity.
Qed.

Theorem unknown_variable_promotion_spec : forall rs r v,
  In r rs -> In v (r_unk r) -> In v (assigned_any rs) ->
  exists s, In s (promote_spec rs) /\ s_out s = r_out r /\ In v (s_deps s).
Proof.
  intros rs r v Hr Hv Hk. exists (promote_with (assigned_any rs) r). split.
  - unfold promote_spec. apply in_map. exact Hr.
  - split; [reflexivity|]. apply promote_with_deps. right. split; assumption.
Qed.

Theorem promote_impl_is_spec : forall rs, promote_impl rs = promote_spec rs.
Proof. reflexivity. Qed.

Theorem unknown_variable_promotion_before_fix_partial : forall rs r v,
  In r rs -> In v (r_unk r) -> In v (assigned_nonpers rs) ->
  exists s, In s (promote_before_fix rs) /\ s_out s = r_out r /\ In v (s_deps s).
Proof.
  intros rs r v Hr Hv Hk. exists (promote_with (assigned_nonpers rs) r). split.
  - unfold promote_before_fix. apply in_map. exact Hr.
  - split; [reflexivity|]. apply promote_with_deps. right. split; assumption.
Qed.

(* sc <- 3; DS_r := DS_1[calc Me_2 := Me_1 + sc]  : `sc` is assigned by a persistent statement, the code before the repair did not promote it,
   no edge is created and the consumer may be scheduled before (or after the release of) its producer *)
Definition witness_unk : list rstmt := [RStmt 1 [] true []; RStmt 2 [0] false [1]].

Theorem unknown_variable_promotion_before_fix_refuted :
  exists rs r v, In r rs /\ In v (r_unk r) /\ In v (assigned_any rs) /\
                 forall s, In s (promote_before_fix rs) -> s_out s = r_out r -> ~ In v (s_deps s).
Proof.
  exists witness_unk, (RStmt 2 [0] false [1]), 1. split; [right; left; reflexivity|].
  split; [left; reflexivity|]. split; [left; reflexivity|].
  intros s Hs Ho Hin. vm_compute in Hs.
  destruct Hs as [<-|[<-|[]]]; cbn in Ho, Hin; try discriminate.
  destruct Hin as [E|[]]. discriminate.
Qed.

(* ---------------------------------------------------------------- instances (the hypotheses of the Sections are satisfiable) *)
Definition sum_sem (s : stmt) (e : env nat) : nat := fold_right (fun d acc => e d + acc) 1 (s_deps s).

Lemma sum_sem_reads_only_deps : forall s e1 e2, (forall d, In d (s_deps s) -> e1 d = e2 d) -> sum_sem s e1 = sum_sem s e2.
Proof.
  intros s e1 e2. unfold sum_sem. induction (s_deps s) as [|d l IH]; intro H; [reflexivity|].
  simpl. rewrite (H d (or_introl eq_refl)). rewrite IH; [reflexivity|]. intros x Hx. apply H. right. exact Hx.
Qed.

Definition model_sorter (ss : list stmt) : list stmt := match model_sort ss with Some o => o | None => ss end.

Lemma model_sorter_topological : forall ss, ~ cyclic ss -> Permutation (model_sorter ss) ss /\ topo_sorted (model_sorter ss).
Proof.
  intros ss H. destruct (model_sort_correct ss H) as [o [E HO]]. unfold model_sorter. rewrite E. exact HO.
Qed.

(* DS_d := DS_b + 1; DS_c <- DS_b * DS_x; DS_b := DS_a + 1  written in an order that is not executable as is *)
Definition example_unsorted : list stmt := [Stmt 4 [2] false; Stmt 3 [2; 1] true; Stmt 2 [0] false].
Lemma example_unsorted_sorted : is_topo_order [3; 1; 2] example_unsorted = true /\ is_topo_order [3; 2; 1] example_unsorted = true
  /\ is_topo_order [1; 2; 3] example_unsorted = false /\ cycle_detected example_unsorted = false.
Proof. vm_compute. repeat split; reflexivity. Qed.
