(* Lemmas for Model/Interleave.v (C17): confinement implies serializability, for any number of threads and any schedule. *)
From Coq Require Import List Arith ZArith Bool Lia.
Import ListNotations.
From VTL Require Import Model.Interleave.

Lemma mem_In x l : mem x l = true <-> In x l.
Proof.
  unfold mem. rewrite existsb_exists. split.
  - intros [y [Hy He]]. apply Nat.eqb_eq in He. subst. exact Hy.
  - intros H. exists x. split; [exact H | apply Nat.eqb_refl].
Qed.

Lemma In_remove_nat x y l : In x (remove_nat y l) <-> In x l /\ x <> y.
Proof.
  unfold remove_nat. rewrite filter_In. split; intros [H1 H2]; split; auto.
  - apply negb_true_iff in H2. apply Nat.eqb_neq in H2. exact H2.
  - apply negb_true_iff. apply Nat.eqb_neq. exact H2.
Qed.

Lemma upd_same {A} (f : nat -> A) k v : upd f k v k = v.
Proof. unfold upd. rewrite Nat.eqb_refl. reflexivity. Qed.

Lemma upd_other {A} (f : nat -> A) k v j : j <> k -> upd f k v j = f j.
Proof. intros H. unfold upd. apply Nat.eqb_neq in H. rewrite H. reflexivity. Qed.

Section Conf.
  Variable disc : gvar -> prot.
  Variable W : gvar -> bool.

  Lemma ast_of_snoc d s : ast_of disc (d ++ [s]) = ast_step disc (ast_of disc d) s.
  Proof. unfold ast_of. rewrite fold_left_app. reflexivity. Qed.

  Lemma view_of_snoc st0 d s : view_of st0 (d ++ [s]) = view_step (view_of st0 d) s.
  Proof. unfold view_of. rewrite fold_left_app. reflexivity. Qed.

  Variable progs : tid -> prog.
  Variable st0 : gvar -> val.

  Definition A (c : config) (i : tid) : ast := ast_of disc (t_done (c_thr c i)).
  Definition V (c : config) (i : tid) : view := view_of st0 (t_done (c_thr c i)).

  Record inv (c : config) : Prop := mkInv {
    inv_split : forall i, t_done (c_thr c i) ++ t_todo (c_thr c i) = progs i;
    inv_held : forall i l, In l (a_held (A c i)) -> c_locks c l = Some i;
    inv_locks : forall i l, c_locks c l = Some i -> In l (a_held (A c i));
    inv_prot : forall i g, W g = true -> In g (a_fresh (A c i)) -> may_access disc i (A c i) g = true;
    inv_fresh : forall i g, W g = true -> In g (a_fresh (A c i)) -> c_store c g = v_store (V c i) g;
    inv_owned : forall i g, W g = true -> owned_by disc i g = true -> c_store c g = v_store (V c i) g;
    inv_obs : forall i, wobs W (t_obs (c_thr c i)) = wobs W (v_obs (V c i));
    inv_ok : forall i, ok_from_res disc W i (A c i) (t_todo (c_thr c i)) = true
  }.

  Hypothesis Hwrites : forall i, Forall (write_ok W) (progs i).

  (* two different threads cannot both be allowed to access the same global *)
  Lemma access_exclusive c i t g :
    inv c -> i <> t -> may_access disc i (A c i) g = true -> may_access disc t (A c t) g = true -> False.
  Proof.
    intros I Hne Hi Ht. unfold may_access in *. destruct (disc g) as [j|l].
    - apply Nat.eqb_eq in Hi, Ht. subst. congruence.
    - apply mem_In in Hi, Ht. apply (inv_held c I) in Hi. apply (inv_held c I) in Ht. congruence.
  Qed.

  Lemma may_access_mono i a a' g :
    (forall l, In l (a_held a) -> In l (a_held a')) -> may_access disc i a g = true -> may_access disc i a' g = true.
  Proof.
    unfold may_access. destruct (disc g); auto. intros H Hm. apply mem_In. apply H. apply mem_In. exact Hm.
  Qed.

  (* ---- how one step of thread t changes the static state and the private view of each thread *)
  Definition thr_upd (c : config) (t : tid) (s : step) (rest : prog) (o : obs) : tid -> thread :=
    upd (c_thr c) t (advance (c_thr c t) s rest o).

  Lemma A_other c st lk t s rest o i : i <> t -> A (mkConfig st lk (thr_upd c t s rest o)) i = A c i.
  Proof. intros Hi. unfold A, thr_upd. simpl. rewrite upd_other by exact Hi. reflexivity. Qed.
  Lemma A_self c st lk t s rest o : A (mkConfig st lk (thr_upd c t s rest o)) t = ast_step disc (A c t) s.
  Proof. unfold A, thr_upd. simpl. rewrite upd_same. simpl. apply ast_of_snoc. Qed.
  Lemma V_other c st lk t s rest o i : i <> t -> V (mkConfig st lk (thr_upd c t s rest o)) i = V c i.
  Proof. intros Hi. unfold V, thr_upd. simpl. rewrite upd_other by exact Hi. reflexivity. Qed.
  Lemma V_self c st lk t s rest o : V (mkConfig st lk (thr_upd c t s rest o)) t = view_step (V c t) s.
  Proof. unfold V, thr_upd. simpl. rewrite upd_same. simpl. apply view_of_snoc. Qed.
  Lemma thr_other c t s rest o i : i <> t -> thr_upd c t s rest o i = c_thr c i.
  Proof. intros Hi. unfold thr_upd. apply upd_other. exact Hi. Qed.
  Lemma thr_self c t s rest o : thr_upd c t s rest o t = advance (c_thr c t) s rest o.
  Proof. unfold thr_upd. apply upd_same. Qed.

  (* the parts of the invariant that only look at the stepping thread's bookkeeping *)
  Lemma split_after c st lk t s rest o :
    inv c -> t_todo (c_thr c t) = s :: rest ->
    forall i, t_done (c_thr (mkConfig st lk (thr_upd c t s rest o)) i) ++ t_todo (c_thr (mkConfig st lk (thr_upd c t s rest o)) i) = progs i.
  Proof.
    intros I E i. simpl. destruct (Nat.eq_dec i t) as [->|Hi].
    - rewrite thr_self. simpl. rewrite <- app_assoc. simpl. rewrite <- E. apply (inv_split c I).
    - rewrite thr_other by exact Hi. apply (inv_split c I).
  Qed.

  Lemma ok_after c st lk t s rest o :
    inv c -> t_todo (c_thr c t) = s :: rest ->
    forall i, ok_from_res disc W i (A (mkConfig st lk (thr_upd c t s rest o)) i) (t_todo (c_thr (mkConfig st lk (thr_upd c t s rest o)) i)) = true.
  Proof.
    intros I E i. destruct (Nat.eq_dec i t) as [->|Hi].
    - rewrite A_self. simpl. rewrite thr_self. simpl.
      pose proof (inv_ok c I t) as H. rewrite E in H. simpl in H. apply andb_true_iff in H. exact (proj2 H).
    - rewrite A_other by exact Hi. simpl. rewrite thr_other by exact Hi. apply (inv_ok c I).
  Qed.

  (* ---- one step preserves the invariant *)
  Lemma step_preserves t c c' : inv c -> step_thread t c = Some c' -> inv c'.
  Proof.
    intros I Hs. unfold step_thread in Hs.
    destruct (t_todo (c_thr c t)) as [|s rest] eqn:Etodo; [discriminate|].
    pose proof (inv_ok c I t) as Hok. rewrite Etodo in Hok. simpl in Hok. apply andb_true_iff in Hok. destruct Hok as [Hhd _].
    assert (Hin : In s (progs t)).
    { rewrite <- (inv_split c I t), Etodo. apply in_or_app. right. left. reflexivity. }
    pose proof (proj1 (Forall_forall _ _) (Hwrites t) s Hin) as Hwok.
    destruct s as [g f|g| |l|l].
    - (* Write *)
      inversion Hs; subst c'; clear Hs.
      assert (Hacc : W g = true -> may_access disc t (A c t) g = true).
      { intros Wg. rewrite Wg in Hhd. exact Hhd. }
      fold (thr_upd c t (Write g f) rest (t_obs (c_thr c t))).
      constructor; [apply split_after; assumption | | | | | | | apply ok_after; assumption]; intros i.
      + intros l0 Hl. simpl. destruct (Nat.eq_dec i t) as [->|Hi]; [rewrite A_self in Hl | rewrite A_other in Hl by exact Hi];
          apply (inv_held c I); exact Hl.
      + intros l0 Hl. simpl in Hl. destruct (Nat.eq_dec i t) as [->|Hi]; [rewrite A_self | rewrite A_other by exact Hi];
          simpl; apply (inv_locks c I); exact Hl.
      + intros g0 Wg Hg. destruct (Nat.eq_dec i t) as [->|Hi].
        * rewrite A_self in *. simpl in Hg. unfold may_access. simpl.
          destruct Hg as [<-|Hg]; [apply Hacc; exact Wg | apply (inv_prot c I); assumption].
        * rewrite A_other in * by exact Hi. apply (inv_prot c I); assumption.
      + intros g0 Wg Hg. simpl. destruct (Nat.eq_dec i t) as [->|Hi].
        * rewrite A_self in Hg. simpl in Hg. rewrite V_self. simpl.
          unfold upd. destruct (Nat.eqb g0 g) eqn:E.
          { apply Nat.eqb_eq in E. subst g0. simpl in Hwok. apply (Hwok Wg). apply (inv_obs c I). }
          destruct Hg as [<-|Hg]; [rewrite Nat.eqb_refl in E; discriminate|].
          apply (inv_fresh c I); assumption.
        * rewrite A_other in Hg by exact Hi. rewrite V_other by exact Hi.
          assert (g0 <> g).
          { intros ->. apply (access_exclusive c i t g I Hi); [apply (inv_prot c I); assumption | apply Hacc; exact Wg]. }
          rewrite upd_other by assumption. apply (inv_fresh c I); assumption.
      + intros g0 Wg Ho. simpl. destruct (Nat.eq_dec i t) as [->|Hi].
        * rewrite V_self. simpl. unfold upd. destruct (Nat.eqb g0 g) eqn:E.
          { apply Nat.eqb_eq in E. subst g0. simpl in Hwok. apply (Hwok Wg). apply (inv_obs c I). }
          apply (inv_owned c I); assumption.
        * rewrite V_other by exact Hi.
          assert (g0 <> g).
          { intros ->. pose proof (Hacc Wg) as Ht. unfold may_access in Ht. unfold owned_by in Ho.
            destruct (disc g) as [j|l0]; [|discriminate]. apply Nat.eqb_eq in Ht, Ho. subst. apply Hi. reflexivity. }
          rewrite upd_other by assumption. apply (inv_owned c I); assumption.
      + simpl. destruct (Nat.eq_dec i t) as [->|Hi].
        * rewrite V_self, thr_self. simpl. apply (inv_obs c I).
        * rewrite V_other, thr_other by exact Hi. apply (inv_obs c I).
    - (* Read *)
      inversion Hs; subst c'; clear Hs.
      assert (Hfr : W g = true -> c_store c g = v_store (V c t) g).
      { intros Wg. rewrite Wg in Hhd. simpl in Hhd. apply andb_true_iff in Hhd. destruct Hhd as [_ Hh2].
        apply orb_true_iff in Hh2. destruct Hh2 as [Hm|Ho].
        - apply (inv_fresh c I); [exact Wg | apply mem_In; exact Hm].
        - apply (inv_owned c I); assumption. }
      fold (thr_upd c t (Read g) rest ((g, c_store c g) :: t_obs (c_thr c t))).
      constructor; [apply split_after; assumption | | | | | | | apply ok_after; assumption]; intros i.
      + intros l0 Hl. simpl. destruct (Nat.eq_dec i t) as [->|Hi]; [rewrite A_self in Hl | rewrite A_other in Hl by exact Hi];
          apply (inv_held c I); exact Hl.
      + intros l0 Hl. simpl in Hl. destruct (Nat.eq_dec i t) as [->|Hi]; [rewrite A_self | rewrite A_other by exact Hi];
          simpl; apply (inv_locks c I); exact Hl.
      + intros g0 Wg Hg. destruct (Nat.eq_dec i t) as [->|Hi]; [rewrite A_self in * | rewrite A_other in * by exact Hi];
          apply (inv_prot c I); assumption.
      + intros g0 Wg Hg. simpl. destruct (Nat.eq_dec i t) as [->|Hi].
        * rewrite A_self in Hg. rewrite V_self. simpl. apply (inv_fresh c I); assumption.
        * rewrite A_other in Hg by exact Hi. rewrite V_other by exact Hi. apply (inv_fresh c I); assumption.
      + intros g0 Wg Ho. simpl. destruct (Nat.eq_dec i t) as [->|Hi].
        * rewrite V_self. simpl. apply (inv_owned c I); assumption.
        * rewrite V_other by exact Hi. apply (inv_owned c I); assumption.
      + simpl. destruct (Nat.eq_dec i t) as [->|Hi].
        * rewrite V_self, thr_self. simpl. unfold wobs. simpl. destruct (W g) eqn:Wg.
          -- rewrite (Hfr eq_refl). f_equal. apply (inv_obs c I).
          -- apply (inv_obs c I).
        * rewrite V_other, thr_other by exact Hi. apply (inv_obs c I).
    - (* Local *)
      inversion Hs; subst c'; clear Hs.
      fold (thr_upd c t Local rest (t_obs (c_thr c t))).
      constructor; [apply split_after; assumption | | | | | | | apply ok_after; assumption]; intros i.
      + intros l0 Hl. simpl. destruct (Nat.eq_dec i t) as [->|Hi]; [rewrite A_self in Hl | rewrite A_other in Hl by exact Hi];
          apply (inv_held c I); exact Hl.
      + intros l0 Hl. simpl in Hl. destruct (Nat.eq_dec i t) as [->|Hi]; [rewrite A_self | rewrite A_other by exact Hi];
          simpl; apply (inv_locks c I); exact Hl.
      + intros g0 Wg Hg. destruct (Nat.eq_dec i t) as [->|Hi]; [rewrite A_self in * | rewrite A_other in * by exact Hi];
          apply (inv_prot c I); assumption.
      + intros g0 Wg Hg. simpl. destruct (Nat.eq_dec i t) as [->|Hi].
        * rewrite A_self in Hg. rewrite V_self. simpl. apply (inv_fresh c I); assumption.
        * rewrite A_other in Hg by exact Hi. rewrite V_other by exact Hi. apply (inv_fresh c I); assumption.
      + intros g0 Wg Ho. simpl. destruct (Nat.eq_dec i t) as [->|Hi].
        * rewrite V_self. simpl. apply (inv_owned c I); assumption.
        * rewrite V_other by exact Hi. apply (inv_owned c I); assumption.
      + simpl. destruct (Nat.eq_dec i t) as [->|Hi].
        * rewrite V_self, thr_self. simpl. apply (inv_obs c I).
        * rewrite V_other, thr_other by exact Hi. apply (inv_obs c I).
    - (* Acq *)
      destruct (c_locks c l) eqn:Elock; [discriminate|].
      inversion Hs; subst c'; clear Hs.
      fold (thr_upd c t (Acq l) rest (t_obs (c_thr c t))).
      constructor; [apply split_after; assumption | | | | | | | apply ok_after; assumption]; intros i.
      + intros l0 Hl. simpl. destruct (Nat.eq_dec i t) as [->|Hi].
        * rewrite A_self in Hl. simpl in Hl. destruct Hl as [<-|Hl]; [apply upd_same|].
          destruct (Nat.eq_dec l0 l) as [->|Hl0]; [apply upd_same | rewrite upd_other by exact Hl0; apply (inv_held c I); exact Hl].
        * rewrite A_other in Hl by exact Hi. pose proof (inv_held c I i l0 Hl) as H0.
          destruct (Nat.eq_dec l0 l) as [->|Hl0]; [congruence | rewrite upd_other by exact Hl0; exact H0].
      + intros l0 Hl. simpl in Hl. destruct (Nat.eq_dec l0 l) as [->|Hl0].
        * rewrite upd_same in Hl. inversion Hl; subst i. rewrite A_self. simpl. left. reflexivity.
        * rewrite upd_other in Hl by exact Hl0. destruct (Nat.eq_dec i t) as [->|Hi].
          -- rewrite A_self. simpl. right. apply (inv_locks c I). exact Hl.
          -- rewrite A_other by exact Hi. apply (inv_locks c I). exact Hl.
      + intros g0 Wg Hg. destruct (Nat.eq_dec i t) as [->|Hi].
        * rewrite A_self in *. simpl in Hg. eapply may_access_mono; [|apply (inv_prot c I); assumption]. simpl. auto.
        * rewrite A_other in * by exact Hi. apply (inv_prot c I); assumption.
      + intros g0 Wg Hg. simpl. destruct (Nat.eq_dec i t) as [->|Hi].
        * rewrite A_self in Hg. simpl in Hg. rewrite V_self. simpl. apply (inv_fresh c I); assumption.
        * rewrite A_other in Hg by exact Hi. rewrite V_other by exact Hi. apply (inv_fresh c I); assumption.
      + intros g0 Wg Ho. simpl. destruct (Nat.eq_dec i t) as [->|Hi].
        * rewrite V_self. simpl. apply (inv_owned c I); assumption.
        * rewrite V_other by exact Hi. apply (inv_owned c I); assumption.
      + simpl. destruct (Nat.eq_dec i t) as [->|Hi].
        * rewrite V_self, thr_self. simpl. apply (inv_obs c I).
        * rewrite V_other, thr_other by exact Hi. apply (inv_obs c I).
    - (* Rel *)
      inversion Hs; subst c'; clear Hs. apply mem_In in Hhd.
      pose proof (inv_held c I t l Hhd) as Hlt.
      fold (thr_upd c t (Rel l) rest (t_obs (c_thr c t))).
      constructor; [apply split_after; assumption | | | | | | | apply ok_after; assumption]; intros i.
      + intros l0 Hl. simpl. destruct (Nat.eq_dec i t) as [->|Hi].
        * rewrite A_self in Hl. simpl in Hl. apply In_remove_nat in Hl. destruct Hl as [Hl Hne].
          rewrite upd_other by exact Hne. apply (inv_held c I). exact Hl.
        * rewrite A_other in Hl by exact Hi. pose proof (inv_held c I i l0 Hl) as H0.
          destruct (Nat.eq_dec l0 l) as [->|Hl0]; [congruence | rewrite upd_other by exact Hl0; exact H0].
      + intros l0 Hl. simpl in Hl. destruct (Nat.eq_dec l0 l) as [->|Hl0]; [rewrite upd_same in Hl; discriminate|].
        rewrite upd_other in Hl by exact Hl0. destruct (Nat.eq_dec i t) as [->|Hi].
        * rewrite A_self. simpl. apply In_remove_nat. split; [apply (inv_locks c I); exact Hl | exact Hl0].
        * rewrite A_other by exact Hi. apply (inv_locks c I). exact Hl.
      + intros g0 Wg Hg. destruct (Nat.eq_dec i t) as [->|Hi].
        * rewrite A_self in *. simpl in Hg. apply filter_In in Hg. destruct Hg as [Hg Hnl].
          pose proof (inv_prot c I t g0 Wg Hg) as Hp. unfold may_access in *. unfold locked_by in Hnl.
          destruct (disc g0) as [j|l']; [exact Hp|]. simpl.
          apply negb_true_iff in Hnl. apply Nat.eqb_neq in Hnl.
          apply mem_In. apply In_remove_nat. split; [apply mem_In; exact Hp | exact Hnl].
        * rewrite A_other in * by exact Hi. apply (inv_prot c I); assumption.
      + intros g0 Wg Hg. simpl. destruct (Nat.eq_dec i t) as [->|Hi].
        * rewrite A_self in Hg. simpl in Hg. apply filter_In in Hg. destruct Hg as [Hg _].
          rewrite V_self. simpl. apply (inv_fresh c I); assumption.
        * rewrite A_other in Hg by exact Hi. rewrite V_other by exact Hi. apply (inv_fresh c I); assumption.
      + intros g0 Wg Ho. simpl. destruct (Nat.eq_dec i t) as [->|Hi].
        * rewrite V_self. simpl. apply (inv_owned c I); assumption.
        * rewrite V_other by exact Hi. apply (inv_owned c I); assumption.
      + simpl. destruct (Nat.eq_dec i t) as [->|Hi].
        * rewrite V_self, thr_self. simpl. apply (inv_obs c I).
        * rewrite V_other, thr_other by exact Hi. apply (inv_obs c I).
  Qed.

  Lemma run_preserves sched : forall c, inv c -> inv (run sched c).
  Proof.
    induction sched as [|i r IH]; intros c I; simpl; [exact I|].
    destruct (step_thread i c) as [c'|] eqn:E; [apply IH; eapply step_preserves; eauto | apply IH; exact I].
  Qed.

  Hypothesis Hconf : forall i, confined_res disc W i (progs i) = true.

  Lemma inv_init : inv (init st0 progs).
  Proof.
    constructor; intros i; unfold A, V; simpl; try (intros; contradiction); try discriminate; try reflexivity.
    apply Hconf.
  Qed.

  (* under EVERY interleaving, what a call has observed of the watched globals so far is what it observes alone after the same steps *)
  Theorem confined_prefix :
    forall sched i, let c := run sched (init st0 progs) in
    wobs W (t_obs (c_thr c i)) = wobs W (v_obs (view_of st0 (t_done (c_thr c i)))) /\ t_done (c_thr c i) ++ t_todo (c_thr c i) = progs i.
  Proof.
    intros sched i c. pose proof (run_preserves sched _ inv_init) as I. fold c in I.
    split; [apply (inv_obs c I) | apply (inv_split c I)].
  Qed.

  (* ... hence a completed call has exactly the result it has alone from the same initial state *)
  Theorem confined_serializable_st :
    forall sched i, let c := run sched (init st0 progs) in
    t_todo (c_thr c i) = [] -> wobs W (t_obs (c_thr c i)) = wobs W (solo_result st0 (progs i)).
  Proof.
    intros sched i c Hdone. destruct (confined_prefix sched i) as [Ho Hs]. fold c in Ho, Hs.
    rewrite Hdone, app_nil_r in Hs. rewrite Ho, Hs. reflexivity.
  Qed.
End Conf.

Lemma ok_from_res_of_ok disc W i : forall p a, ok_from disc W i a p = true -> ok_from_res disc W i a p = true.
Proof.
  induction p as [|s r IH]; intros a H; [reflexivity|]. simpl in *. apply andb_true_iff in H. destruct H as [Hh Hr].
  rewrite (IH _ Hr), andb_true_r. destruct s; auto.
  destruct (W g); simpl in *; [|reflexivity]. apply andb_true_iff in Hh. destruct Hh as [-> ->]. reflexivity.
Qed.

(* the solo result of a confined call does not depend on the store it starts from (nor, therefore, on what earlier calls
   left behind) *)
Lemma solo_indep_gen disc W i : forall p a v v',
  Forall (write_ok W) p ->
  (forall g, W g = true -> In g (a_fresh a) -> v_store v g = v_store v' g) -> wobs W (v_obs v) = wobs W (v_obs v') ->
  ok_from disc W i a p = true ->
  wobs W (v_obs (fold_left view_step p v)) = wobs W (v_obs (fold_left view_step p v')).
Proof.
  induction p as [|s r IH]; intros a v v' Hw Hf Ho Hok; simpl; [exact Ho|].
  simpl in Hok. apply andb_true_iff in Hok. destruct Hok as [Hhd Hr].
  inversion Hw as [|s' r' Hs Hwr]; subst.
  apply (IH (ast_step disc a s)); [exact Hwr| | |exact Hr].
  - destruct s as [g f|g| |l|l]; simpl; intros g0 Wg Hg; try (apply Hf; assumption).
    + unfold upd. destruct (Nat.eqb g0 g) eqn:E.
      * apply Nat.eqb_eq in E. subst g0. simpl in Hs. apply (Hs Wg). exact Ho.
      * destruct Hg as [<-|Hg]; [rewrite Nat.eqb_refl in E; discriminate | apply Hf; assumption].
    + apply filter_In in Hg. apply Hf; [exact Wg | exact (proj1 Hg)].
  - destruct s as [g f|g| |l|l]; simpl; try exact Ho.
    unfold wobs. simpl. destruct (W g) eqn:Wg; [|exact Ho].
    simpl in Hhd. apply andb_true_iff in Hhd. destruct Hhd as [_ Hm]. apply mem_In in Hm.
    rewrite (Hf g Wg Hm). f_equal. exact Ho.
Qed.

Theorem solo_indep disc W i p st st' :
  Forall (write_ok W) p -> confined disc W i p = true -> wobs W (solo_result st p) = wobs W (solo_result st' p).
Proof.
  intros Hw H. unfold solo_result, view_of. apply (solo_indep_gen disc W i p (mkAst [] [])); simpl; auto. intros g _ [].
Qed.

(* the headline statement: unbounded threads, unbounded steps, every schedule, any initial store; W = the globals the
   statement is about (reads of the others are not constrained and not compared) *)
Theorem confined_serializable_W :
  forall (disc : gvar -> prot) (W : gvar -> bool) (progs : tid -> prog),
  (forall i, Forall (write_ok W) (progs i)) ->
  (forall i, confined disc W i (progs i) = true) ->
  forall (st0 : gvar -> val) (sched : list tid) (i : tid),
  t_todo (c_thr (run sched (init st0 progs)) i) = [] ->
  wobs W (t_obs (c_thr (run sched (init st0 progs)) i)) = wobs W (solo_result zero_store (progs i)).
Proof.
  intros disc W progs Hw Hc st0 sched i Hd.
  rewrite (confined_serializable_st disc W progs st0 Hw (fun j => ok_from_res_of_ok disc W j _ _ (Hc j)) sched i Hd).
  apply (solo_indep disc W i); [apply Hw | apply Hc].
Qed.

Lemma wobs_all o : wobs W_all o = o.
Proof. unfold wobs, W_all. induction o; simpl; [reflexivity | f_equal; assumption]. Qed.

Lemma write_ok_all p : Forall (write_ok W_all) p.
Proof.
  apply Forall_forall. intros s _. destruct s; simpl; auto. intros _ o o' H. rewrite !wobs_all in H. subst. reflexivity.
Qed.

(* all globals watched: every observation of a completed call is its solo observation *)
Theorem confined_serializable :
  forall (disc : gvar -> prot) (progs : tid -> prog),
  (forall i, confined disc W_all i (progs i) = true) ->
  forall (st0 : gvar -> val) (sched : list tid) (i : tid),
  t_todo (c_thr (run sched (init st0 progs)) i) = [] ->
  t_obs (c_thr (run sched (init st0 progs)) i) = solo_result zero_store (progs i).
Proof.
  intros disc progs Hc st0 sched i Hd.
  pose proof (confined_serializable_W disc W_all progs (fun j => write_ok_all (progs j)) Hc st0 sched i Hd) as H.
  rewrite !wobs_all in H. exact H.
Qed.

(* `solo_result` deserves its name: executed with every other thread idle, a call that completes observed exactly that *)
Corollary solo_is_alone :
  forall disc i p, confined disc W_all i p = true ->
  forall st0 sched, let progs := fun j => if Nat.eqb j i then p else [] in
  t_todo (c_thr (run sched (init st0 progs)) i) = [] ->
  t_obs (c_thr (run sched (init st0 progs)) i) = solo_result zero_store p.
Proof.
  intros disc i p Hc st0 sched progs Hd.
  assert (Hall : forall j, confined disc W_all j (progs j) = true).
  { intros j. unfold progs. destruct (Nat.eqb j i) eqn:E; [apply Nat.eqb_eq in E; subst; exact Hc | reflexivity]. }
  pose proof (confined_serializable disc progs Hall st0 sched i Hd) as H.
  unfold progs in H at 2. rewrite Nat.eqb_refl in H. exact H.
Qed.

(* ------------------------------------------------------------------ confinement of concatenated programs *)
Lemma ok_from_app disc W i : forall p q a,
  ok_from disc W i a (p ++ q) = ok_from disc W i a p && ok_from disc W i (fold_left (ast_step disc) p a) q.
Proof.
  induction p as [|s r IH]; intros q a; simpl; [reflexivity|].
  rewrite IH. rewrite andb_assoc. reflexivity.
Qed.

(* ------------------------------------------------------------------ the SPEC skeleton (per-thread globals) is confined *)
Lemma disc_spec_tl i g : 0 < g -> g < 10 -> disc_spec (gmap_spec i g) = Owned i.
Proof.
  intros H0 H1. unfold gmap_spec, disc_spec, GParse.
  destruct (Nat.eqb g 0) eqn:E; [apply Nat.eqb_eq in E; lia|].
  destruct (Nat.ltb (100 + 10 * i + g) 100) eqn:E2; [apply Nat.ltb_lt in E2; lia|].
  f_equal. replace (100 + 10 * i + g - 100) with (g + i * 10) by lia.
  rewrite Nat.div_add by lia. rewrite Nat.div_small by lia. reflexivity.
Qed.

Lemma gmap_spec_ge i g : 0 < g -> 100 <= gmap_spec i g.
Proof. intros H. unfold gmap_spec, GParse. destruct (Nat.eqb g 0) eqn:E; [apply Nat.eqb_eq in E; lia | lia]. Qed.

(* state invariant while walking a spec skeleton: no lock held, own registry and counters fresh *)
Definition spec_ready (i : tid) (a : ast) : Prop :=
  a_held a = [] /\ In (gmap_spec i GRegistry) (a_fresh a) /\ In (gmap_spec i GVcDs) (a_fresh a) /\ In (gmap_spec i GVcDc) (a_fresh a)
  /\ In (gmap_spec i GDsOut) (a_fresh a).

Lemma spec_tag_ok i tok a t :
  spec_ready i a ->
  match t with TParse | TRegSet | TRegGet | TVcReset | TVcDs | TVcDc | TTpSet | TDsOutSet | TDsOutClear | TRaise => True | TTpGet => False end ->
  ok_from disc_spec W_all i a (steps_of_tag (gmap_spec i) tok t) = true /\
  spec_ready i (fold_left (ast_step disc_spec) (steps_of_tag (gmap_spec i) tok t) a).
Proof.
  intros [Hh [Hr [Hd [Hc Ho]]]] Ht.
  assert (Eg : forall g, 0 < g -> g < 10 -> may_access disc_spec i a (gmap_spec i g) = true).
  { intros g H0 H1. unfold may_access. rewrite disc_spec_tl by assumption. apply Nat.eqb_refl. }
  assert (Eg' : forall a' g, 0 < g -> g < 10 -> may_access disc_spec i a' (gmap_spec i g) = true).
  { intros a' g H0 H1. unfold may_access. rewrite disc_spec_tl by assumption. apply Nat.eqb_refl. }
  assert (Enl : forall g, 0 < g -> g < 10 -> locked_by disc_spec PL (gmap_spec i g) = false).
  { intros g H0 H1. unfold locked_by. rewrite disc_spec_tl by assumption. reflexivity. }
  destruct t; try contradiction; unfold steps_of_tag.
  - (* TParse *)
    destruct a as [held fresh]. simpl in Hh. subst held. cbn -[gmap_spec disc_spec].
    unfold may_access. simpl. split; [reflexivity|].
    unfold spec_ready. cbn -[gmap_spec disc_spec]. split; [reflexivity|].
    assert (Hk : forall g, 0 < g -> g < 10 -> In (gmap_spec i g) fresh ->
                 In (gmap_spec i g) (filter (fun g0 => negb (locked_by disc_spec PL g0)) (GParse :: fresh))).
    { intros g H0 H1 Hin. apply filter_In. split; [right; exact Hin | rewrite Enl by assumption; reflexivity]. }
    unfold GRegistry, GVcDs, GVcDc, GDsOut in *. repeat split; apply Hk; try lia; assumption.
  - (* TRegSet *) cbn -[gmap_spec disc_spec]. rewrite Eg by (unfold GRegistry; lia). split; [reflexivity|].
    unfold spec_ready; cbn -[gmap_spec disc_spec]; repeat split; auto.
  - (* TRegGet *) cbn -[gmap_spec disc_spec]. rewrite Eg by (unfold GRegistry; lia).
    rewrite (proj2 (mem_In _ _) Hr). split; [reflexivity|]. unfold spec_ready; repeat split; auto.
  - (* TVcReset *) cbn -[gmap_spec disc_spec]. rewrite Eg by (unfold GVcDs; lia). rewrite Eg' by (unfold GVcDc; lia). split; [reflexivity|].
    unfold spec_ready; cbn -[gmap_spec disc_spec]; repeat split; auto.
  - (* TVcDs *) cbn -[gmap_spec disc_spec]. rewrite Eg by (unfold GVcDs; lia). rewrite (proj2 (mem_In _ _) Hd). split; [reflexivity|].
    unfold spec_ready; cbn -[gmap_spec disc_spec]; repeat split; auto.
  - (* TVcDc *) cbn -[gmap_spec disc_spec]. rewrite Eg by (unfold GVcDc; lia). rewrite (proj2 (mem_In _ _) Hc). split; [reflexivity|].
    unfold spec_ready; cbn -[gmap_spec disc_spec]; repeat split; auto.
  - (* TTpSet *) cbn -[gmap_spec disc_spec]. rewrite Eg by (unfold GTPConfig; lia). split; [reflexivity|].
    unfold spec_ready; cbn -[gmap_spec disc_spec]; repeat split; auto.
  - (* TDsOutSet *) cbn -[gmap_spec disc_spec]. rewrite Eg by (unfold GDsOut; lia). split; [reflexivity|].
    unfold spec_ready; cbn -[gmap_spec disc_spec]; repeat split; auto.
  - (* TDsOutClear *) cbn -[gmap_spec disc_spec]. rewrite Eg by (unfold GDsOut; lia). split; [reflexivity|].
    unfold spec_ready; cbn -[gmap_spec disc_spec]; repeat split; auto.
  - (* TRaise *) cbn -[gmap_spec disc_spec]. rewrite Eg by (unfold GDsOut; lia). rewrite (proj2 (mem_In _ _) Ho). split; [reflexivity|].
    unfold spec_ready; repeat split; auto.
Qed.

Definition no_tpget (t : tag) : Prop :=
  match t with TTpGet => False | _ => True end.

Lemma spec_trace_ok i tok : forall tr a, spec_ready i a -> Forall no_tpget tr ->
  ok_from disc_spec W_all i a (prog_of_trace (gmap_spec i) tok tr) = true.
Proof.
  induction tr as [|t r IH]; intros a Ha Hf; [reflexivity|].
  inversion Hf as [|t' r' Ht Hr]; subst. unfold prog_of_trace. simpl. rewrite ok_from_app.
  destruct (spec_tag_ok i tok a t Ha) as [Hok1 Hrdy].
  { destruct t; simpl in *; auto. }
  rewrite Hok1. simpl. apply IH; assumption.
Qed.

(* SPEC run() skeleton: the call first publishes its own registry, resets its counters and clears its output name *)
Definition spec_prefix : list tag := [TRegSet; TVcReset; TDsOutClear].
Definition run_tags_spec (n k : nat) : list tag := spec_prefix ++ run_tags n k.

Lemma rep_forall {A} (P : A -> Prop) n l : Forall P l -> Forall P (rep n l).
Proof. intros H. induction n; simpl; [constructor | apply Forall_app; split; assumption]. Qed.

Lemma spec_run_confined i tok n k : confined disc_spec W_all i (prog_of_trace (gmap_spec i) tok (run_tags_spec n k)) = true.
Proof.
  unfold confined, run_tags_spec, spec_prefix, prog_of_trace.
  change (flat_map (steps_of_tag (gmap_spec i) tok) ([TRegSet; TVcReset; TDsOutClear] ++ run_tags n k))
    with (steps_of_tag (gmap_spec i) tok TRegSet ++ steps_of_tag (gmap_spec i) tok TVcReset ++ steps_of_tag (gmap_spec i) tok TDsOutClear
          ++ flat_map (steps_of_tag (gmap_spec i) tok) (run_tags n k)).
  assert (Eg : forall a' g, 0 < g -> g < 10 -> may_access disc_spec i a' (gmap_spec i g) = true).
  { intros a' g H0 H1. unfold may_access. rewrite disc_spec_tl by assumption. apply Nat.eqb_refl. }
  cbn -[gmap_spec disc_spec flat_map run_tags].
  rewrite !Eg by (unfold GRegistry, GVcDs, GVcDc, GDsOut; lia). cbn -[gmap_spec disc_spec flat_map run_tags].
  apply (spec_trace_ok i tok (run_tags n k)).
  - unfold spec_ready. cbn -[gmap_spec]. repeat split; auto 10.
  - unfold run_tags. repeat (apply Forall_app; split); try apply rep_forall; repeat constructor.
Qed.

(* the parse-only calls (create_ast, prettify) are confined in the FAITHFUL model: parser_lock guards the parse state *)
Lemma parse_confined i tok : confined disc_impl W_all i (prog_of_trace (gmap_impl i) tok parse_tags) = true.
Proof. reflexivity. Qed.

(* ------------------------------------------------------------------ FAITHFUL (current code): registry and dataset_output confined *)
(* a trace never reads the registry before the call has published its own (visit_Start does set_current_registry first), nor
   the output-dataset name before the call has written its own *)
Fixpoint cells_wf (sreg sout : bool) (tr : list tag) : bool :=
  match tr with
  | [] => true
  | TRegSet :: r => cells_wf true sout r
  | TRegGet :: r => sreg && cells_wf sreg sout r
  | TDsOutSet :: r | TDsOutClear :: r => cells_wf sreg true r
  | TRaise :: r => sout && cells_wf sreg sout r
  | _ :: r => cells_wf sreg sout r
  end.

Lemma gmap_impl_reg i : gmap_impl i GRegistry = gmap_spec i GRegistry.
Proof. reflexivity. Qed.
Lemma gmap_impl_out i : gmap_impl i GDsOut = gmap_spec i GDsOut.
Proof. reflexivity. Qed.

Definition impl_ready (i : tid) (sreg sout : bool) (a : ast) : Prop :=
  a_held a = [] /\ (sreg = true -> In (gmap_impl i GRegistry) (a_fresh a)) /\ (sout = true -> In (gmap_impl i GDsOut) (a_fresh a)).

Definition next_reg (t : tag) (b : bool) : bool := match t with TRegSet => true | _ => b end.
Definition next_out (t : tag) (b : bool) : bool := match t with TDsOutSet | TDsOutClear => true | _ => b end.

Lemma impl_cell i g : In g [GRegistry; GVcDs; GVcDc; GDsOut] ->
  disc_spec (gmap_impl i g) = Owned i /\ W_reg (gmap_impl i g) = true /\ locked_by disc_spec PL (gmap_impl i g) = false.
Proof.
  intros H.
  assert (E : gmap_impl i g = gmap_spec i g /\ 0 < g /\ g < 10).
  { simpl in H. destruct H as [<-|[<-|[<-|[<-|[]]]]]; unfold GRegistry, GVcDs, GVcDc, GDsOut; (split; [reflexivity | lia]). }
  destruct E as [E [H0 H1]].
  assert (Eo : disc_spec (gmap_impl i g) = Owned i) by (rewrite E; apply disc_spec_tl; assumption).
  split; [exact Eo|]. split.
  - rewrite E. unfold W_reg. pose proof (gmap_spec_ge i g H0) as Hge. apply orb_true_iff. right. apply Nat.leb_le. exact Hge.
  - unfold locked_by. rewrite Eo. reflexivity.
Qed.

Lemma impl_tag_ok i tok a sreg sout t :
  impl_ready i sreg sout a ->
  (match t with TRegGet => sreg = true | TRaise => sout = true | _ => True end) ->
  ok_from_res disc_spec W_reg i a (steps_of_tag (gmap_impl i) tok t) = true /\
  impl_ready i (next_reg t sreg) (next_out t sout) (fold_left (ast_step disc_spec) (steps_of_tag (gmap_impl i) tok t) a).
Proof.
  intros [Hh [Hr Ho]] Ht.
  destruct (impl_cell i GRegistry) as [Eown [EW Enl]]; [simpl; auto|].
  destruct (impl_cell i GDsOut) as [Eown2 [EW2 Enl2]]; [simpl; auto 6|].
  destruct (impl_cell i GVcDs) as [Eown3 [EW3 _]]; [simpl; auto|].
  destruct (impl_cell i GVcDc) as [Eown4 [EW4 _]]; [simpl; auto|].
  destruct a as [held fresh]. simpl in Hh. subst held. simpl in Hr, Ho. unfold impl_ready.
  destruct t; unfold steps_of_tag; cbn [next_reg next_out].
  - (* TParse *) cbn -[gmap_impl]. split; [reflexivity|]. split; [reflexivity|]. split; intros Hs; apply filter_In.
    + split; [apply Hr; exact Hs | rewrite Enl; reflexivity].
    + split; [apply Ho; exact Hs | rewrite Enl2; reflexivity].
  - (* TRegSet *) cbn -[gmap_impl disc_spec W_reg]. rewrite EW. unfold may_access. rewrite Eown, Nat.eqb_refl. simpl.
    split; [reflexivity|]. split; [reflexivity|]. split; [intros _; left; reflexivity | intros Hs; right; apply Ho; exact Hs].
  - (* TRegGet *) cbn -[gmap_impl disc_spec W_reg]. rewrite EW. unfold may_access. rewrite Eown, Nat.eqb_refl.
    pose proof (proj2 (mem_In _ _) (Hr Ht)) as Hm. unfold mem in Hm. rewrite Hm. split; [reflexivity|]. split; [reflexivity | split; assumption].
  - (* TVcReset *) cbn -[gmap_impl disc_spec W_reg]. rewrite EW3, EW4. unfold may_access. rewrite Eown3, Eown4, Nat.eqb_refl. simpl.
    split; [reflexivity|]. split; [reflexivity|]. split; intros Hs; right; right; [apply Hr | apply Ho]; exact Hs.
  - (* TVcDs *) cbn -[gmap_impl disc_spec W_reg]. rewrite EW3. unfold may_access, owned_by. rewrite Eown3, Nat.eqb_refl. simpl.
    rewrite orb_true_r. simpl. split; [reflexivity|]. split; [reflexivity|]. split; intros Hs; right; [apply Hr | apply Ho]; exact Hs.
  - (* TVcDc *) cbn -[gmap_impl disc_spec W_reg]. rewrite EW4. unfold may_access, owned_by. rewrite Eown4, Nat.eqb_refl. simpl.
    rewrite orb_true_r. simpl. split; [reflexivity|]. split; [reflexivity|]. split; intros Hs; right; [apply Hr | apply Ho]; exact Hs.
  - (* TTpSet *) cbn. split; [reflexivity|]. split; [reflexivity|]. split; intros Hs; simpl; right; [apply Hr | apply Ho]; exact Hs.
  - (* TTpGet *) cbn. split; [reflexivity|]. split; [reflexivity | split; assumption].
  - (* TDsOutSet *) cbn -[gmap_impl disc_spec W_reg]. rewrite EW2. unfold may_access. rewrite Eown2, Nat.eqb_refl. simpl.
    split; [reflexivity|]. split; [reflexivity|]. split; [intros Hs; right; apply Hr; exact Hs | intros _; left; reflexivity].
  - (* TDsOutClear *) cbn -[gmap_impl disc_spec W_reg]. rewrite EW2. unfold may_access. rewrite Eown2, Nat.eqb_refl. simpl.
    split; [reflexivity|]. split; [reflexivity|]. split; [intros Hs; right; apply Hr; exact Hs | intros _; left; reflexivity].
  - (* TRaise *) cbn -[gmap_impl disc_spec W_reg]. rewrite EW2. unfold may_access. rewrite Eown2, Nat.eqb_refl.
    pose proof (proj2 (mem_In _ _) (Ho Ht)) as Hm. unfold mem in Hm. rewrite Hm. split; [reflexivity|]. split; [reflexivity | split; assumption].
Qed.

Lemma ok_from_res_app disc W i : forall p q a,
  ok_from_res disc W i a (p ++ q) = ok_from_res disc W i a p && ok_from_res disc W i (fold_left (ast_step disc) p a) q.
Proof.
  induction p as [|s r IH]; intros q a; simpl; [reflexivity|].
  rewrite IH. rewrite andb_assoc. reflexivity.
Qed.

Lemma impl_trace_ok i tok : forall tr a sreg sout, impl_ready i sreg sout a -> cells_wf sreg sout tr = true ->
  ok_from_res disc_spec W_reg i a (prog_of_trace (gmap_impl i) tok tr) = true.
Proof.
  induction tr as [|t r IH]; intros a sreg sout Ha Hwf; [reflexivity|].
  unfold prog_of_trace. simpl. rewrite ok_from_res_app.
  assert (Ht : match t with TRegGet => sreg = true | TRaise => sout = true | _ => True end).
  { destruct t; auto; simpl in Hwf; apply andb_true_iff in Hwf; exact (proj1 Hwf). }
  destruct (impl_tag_ok i tok a sreg sout t Ha Ht) as [Hok1 Hrdy].
  rewrite Hok1. simpl. apply (IH _ (next_reg t sreg) (next_out t sout)); [exact Hrdy|].
  destruct t; simpl in Hwf; simpl; auto; apply andb_true_iff in Hwf; exact (proj2 Hwf).
Qed.

Lemma impl_trace_confined i tok tr : cells_wf false false tr = true ->
  confined_res disc_spec W_reg i (prog_of_trace (gmap_impl i) tok tr) = true.
Proof.
  intros H. unfold confined_res. apply (impl_trace_ok i tok tr _ false false); [|exact H].
  split; [reflexivity | split; discriminate].
Qed.

(* every value written to a watched global by a skeleton is a constant token or the increment of the call's own last read *)
Lemma incr_wobs W g o : W g = true -> incr g o = incr g (wobs W o).
Proof.
  intros Wg. induction o as [|[g' v] r IH]; [reflexivity|]. simpl. unfold wobs in *. simpl.
  destruct (Nat.eqb g' g) eqn:E.
  - apply Nat.eqb_eq in E. subst g'. rewrite Wg. simpl. rewrite Nat.eqb_refl. reflexivity.
  - destruct (W g'); simpl; [rewrite E|]; exact IH.
Qed.

Lemma impl_trace_writes i tok tr : Forall (write_ok W_reg) (prog_of_trace (gmap_impl i) tok tr).
Proof.
  unfold prog_of_trace. induction tr as [|t r IH]; simpl; [constructor|].
  apply Forall_app. split; [|exact IH].
  destruct t; unfold steps_of_tag; repeat constructor; simpl; try (intros; reflexivity); try discriminate;
    intros Wg o o' H; rewrite (incr_wobs W_reg _ o Wg), (incr_wobs W_reg _ o' Wg), H; reflexivity.
Qed.
