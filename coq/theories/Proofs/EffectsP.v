(* Lemmas about Model/Effects.v and Model/Skeleton.v (used by Props/C16.v). *)
From Coq Require Import List Bool Arith ZArith Lia.
Import ListNotations.
From VTL Require Import Model.Effects Model.Skeleton.
Local Open Scope nat_scope.

(* ------------------------------------------------------------------------------------------------ sets as lists *)
Lemma mem_In : forall x l, mem x l = true <-> In x l.
Proof.
  intros x l. unfold mem. rewrite existsb_exists. split.
  - intros [y [Hy He]]. apply Nat.eqb_eq in He. subst. exact Hy.
  - intros H. exists x. split; [exact H | apply Nat.eqb_refl].
Qed.

Lemma In_add : forall r x l, In x (add r l) -> x = r \/ In x l.
Proof.
  intros r x l. unfold add. destruct (mem r l); simpl; intros H; [right; exact H|].
  destruct H as [H|H]; [left; symmetry; exact H | right; exact H].
Qed.

Lemma In_remove : forall r x l, In x (remove r l) <-> In x l /\ x <> r.
Proof.
  intros r x l. unfold remove. rewrite filter_In. split.
  - intros [H1 H2]. split; [exact H1|]. intros ->. rewrite Nat.eqb_refl in H2. discriminate.
  - intros [H1 H2]. split; [exact H1|]. destruct (Nat.eqb r x) eqn:E; [|reflexivity].
    apply Nat.eqb_eq in E. congruence.
Qed.

Lemma subset_In : forall a b, subset a b = true <-> (forall x, In x a -> In x b).
Proof.
  intros a b. unfold subset. rewrite forallb_forall. split; intros H x Hx.
  - apply mem_In. apply H. exact Hx.
  - apply mem_In. apply H. exact Hx.
Qed.

Lemma nil_of_no_member : forall (l : list nat), (forall x, In x l -> False) -> l = [].
Proof. intros [|a l] H; [reflexivity|]. exfalso. apply (H a). left. reflexivity. Qed.

(* ------------------------------------------------------------------------------------ infallible finally blocks *)
Lemma exec_fin_ok : forall f k s, fin_ok f = true ->
  fst (exec k f s) = Ok /\
  cnt (snd (exec k f s)) = cnt s /\
  (forall r, In r (live (snd (exec k f s))) -> In r (live s) /\ ~ In r (released f)).
Proof.
  induction f; intros k s H; simpl in *; try discriminate;
    try (split; [reflexivity | split; [reflexivity | intros x Hx; split; [exact Hx | intros []]]]).
  - (* Release *)
    split; [reflexivity | split; [reflexivity|]]. intros x Hx. apply In_remove in Hx. destruct Hx as [H1 H2].
    split; [exact H1|]. intros [E|[]]. congruence.
  - (* Seq *)
    apply andb_true_iff in H. destruct H as [H1 H2].
    destruct (IHf1 k s H1) as [A1 [B1 C1]]. destruct (exec k f1 s) as [o1 s1]. simpl in *. subst o1.
    destruct (IHf2 k s1 H2) as [A2 [B2 C2]]. split; [exact A2 | split; [congruence|]].
    intros x Hx. destruct (C2 x Hx) as [D1 D2]. destruct (C1 x D1) as [E1 E2].
    split; [exact E1|]. intros F. apply in_app_or in F. tauto.
  - (* TryFinally *)
    apply andb_true_iff in H. destruct H as [H1 H2].
    destruct (IHf1 k s H1) as [A1 [B1 C1]]. destruct (exec k f1 s) as [o1 s1]. simpl in *. subst o1.
    destruct (IHf2 k s1 H2) as [A2 [B2 C2]]. destruct (exec k f2 s1) as [o2 s2]. simpl in *. subst o2. simpl.
    split; [reflexivity | split; [congruence|]].
    intros x Hx. destruct (C2 x Hx) as [D1 D2]. destruct (C1 x D1) as [E1 E2].
    split; [exact E1|]. intros F. apply in_app_or in F. tauto.
Qed.

(* ------------------------------------------------------------------------------------------ the bracket lemma *)
Lemma wb_sound : forall p A k s, wb A p = true ->
  forall r, In r (live (snd (exec k p s))) -> In r (live s) \/ In r A.
Proof.
  induction p; intros A k s H x Hx; simpl in *; try (left; exact Hx).
  - (* Acquire *) apply In_add in Hx. destruct Hx as [->|Hx]; [right; apply mem_In; exact H | left; exact Hx].
  - (* Release *) apply In_remove in Hx. left. tauto.
  - (* Check *) destruct (ok (glb s g)); simpl in Hx; left; exact Hx.
  - (* Step *) destruct (hits k (cnt s)); simpl in Hx; left; exact Hx.
  - (* Seq *)
    apply andb_true_iff in H. destruct H as [H1 H2].
    specialize (IHp1 A k s H1). destruct (exec k p1 s) as [[] s1]; simpl in *.
    + destruct (IHp2 A k s1 H2 x Hx) as [D|D]; [apply IHp1; exact D | right; exact D].
    + apply IHp1. exact Hx.
  - (* TryFinally *)
    apply andb_true_iff in H. destruct H as [H1 H2].
    specialize (IHp1 (released p2 ++ A) k s H2). destruct (exec k p1 s) as [o1 s1]. simpl in *.
    destruct (exec_fin_ok p2 k s1 H1) as [A2 [B2 C2]]. destruct (exec k p2 s1) as [o2 s2]. simpl in *. subst o2.
    simpl in Hx. destruct (C2 x Hx) as [D1 D2]. destruct (IHp1 x D1) as [E|E]; [left; exact E|].
    apply in_app_or in E. destruct E as [E|E]; [contradiction | right; exact E].
Qed.

Theorem bracketed_safe : forall p, bracketed p = true ->
  forall k s, live s = [] -> live (snd (exec k p s)) = [].
Proof.
  intros p H k s Hs. apply nil_of_no_member. intros x Hx.
  destruct (wb_sound p [] k s H x Hx) as [D|[]]. rewrite Hs in D. exact D.
Qed.

Lemma next_run_live : forall s, live (next_run s) = live s.
Proof. reflexivity. Qed.

Theorem run_seq_no_leak : forall runs s,
  (forall p k, In (p, k) runs -> bracketed p = true) -> live s = [] -> live (run_seq runs s) = [].
Proof.
  induction runs as [|[p k] rest IH]; intros s H Hs; simpl; [exact Hs|].
  apply IH.
  - intros q kq Hq. apply (H q kq). right. exact Hq.
  - rewrite next_run_live. apply bracketed_safe; [apply (H p k); left; reflexivity | exact Hs].
Qed.

(* ---------------------------------------------------------------------------- every fault position raises *)
Lemma exec_ok_counts : forall p k s, fst (exec k p s) = Ok ->
  cnt (snd (exec k p s)) = cnt s + nsteps p /\
  (forall j, k = Some j -> ~ (cnt s <= j < cnt s + nsteps p)).
Proof.
  induction p; intros k s H; simpl in *; try (split; [lia | intros; lia]).
  - destruct (ok (glb s g)); simpl in *; [split; [lia | intros; lia] | discriminate].
  - destruct (hits k (cnt s)) eqn:E; simpl in *; [discriminate|]. split; [lia|].
    intros j ->. simpl in E. apply Nat.eqb_neq in E. lia.
  - specialize (IHp1 k s). destruct (exec k p1 s) as [[] s1]; simpl in *; [|discriminate].
    destruct (IHp1 eq_refl) as [A1 B1]. destruct (IHp2 k s1 H) as [A2 B2]. split; [lia|].
    intros j Hj. specialize (B1 j Hj). specialize (B2 j Hj). lia.
  - specialize (IHp1 k s). destruct (exec k p1 s) as [o1 s1]. specialize (IHp2 k s1).
    destruct (exec k p2 s1) as [[] s2]; simpl in *; [|discriminate]. subst o1.
    destruct (IHp1 eq_refl) as [A1 B1]. destruct (IHp2 eq_refl) as [A2 B2]. split; [lia|].
    intros j Hj. specialize (B1 j Hj). specialize (B2 j Hj). lia.
Qed.

Theorem fault_raises : forall p k s, cnt s <= k < cnt s + nsteps p -> fst (exec (Some k) p s) = Fail.
Proof.
  intros p k s H. destruct (fst (exec (Some k) p s)) eqn:E; [|reflexivity].
  destruct (exec_ok_counts p (Some k) s E) as [_ B]. exfalso. exact (B k eq_refl H).
Qed.

Lemma exec_cnt_bounds : forall p k s, cnt s <= cnt (snd (exec k p s)) <= cnt s + nsteps p.
Proof.
  induction p; intros k s; simpl; try lia.
  - destruct (ok (glb s g)); simpl; lia.
  - destruct (hits k (cnt s)); simpl; lia.
  - specialize (IHp1 k s). destruct (exec k p1 s) as [[] s1]; simpl in *; [specialize (IHp2 k s1)|]; lia.
  - specialize (IHp1 k s). destruct (exec k p1 s) as [o1 s1]. specialize (IHp2 k s1).
    destruct (exec k p2 s1) as [[] s2]; simpl in *; lia.
Qed.

(* without value-dependent checks the ONLY failures are the injected ones *)
Theorem only_faults_fail : forall p k s, check_free p = true -> fst (exec k p s) = Fail ->
  exists j, k = Some j /\ cnt s <= j < cnt s + nsteps p.
Proof.
  induction p; intros k s Hc H; simpl in *; try discriminate.
  - destruct k as [j|]; simpl in *; [|discriminate]. destruct (Nat.eqb j (cnt s)) eqn:E; [|discriminate].
    apply Nat.eqb_eq in E. exists j. split; [reflexivity | lia].
  - apply andb_true_iff in Hc. destruct Hc as [C1 C2].
    specialize (IHp1 k s C1). pose proof (exec_ok_counts p1 k s) as O1.
    destruct (exec k p1 s) as [[] s1]; simpl in *.
    + destruct (O1 eq_refl) as [A1 _]. destruct (IHp2 k s1 C2 H) as [j [Hj Hr]]. exists j. split; [exact Hj | lia].
    + destruct (IHp1 eq_refl) as [j [Hj Hr]]. exists j. split; [exact Hj | lia].
  - apply andb_true_iff in Hc. destruct Hc as [C1 C2].
    specialize (IHp1 k s C1). pose proof (exec_cnt_bounds p1 k s) as Bd.
    destruct (exec k p1 s) as [o1 s1]. specialize (IHp2 k s1 C2).
    destruct (exec k p2 s1) as [[] s2]; simpl in *.
    + subst o1. destruct (IHp1 eq_refl) as [j [Hj Hr]]. exists j. split; [exact Hj | lia].
    + destruct (IHp2 eq_refl) as [j [Hj Hr]]. exists j. split; [exact Hj | lia].
Qed.

Corollary no_fault_no_failure : forall p s, check_free p = true -> fst (exec None p s) = Ok.
Proof.
  intros p s Hc. destruct (fst (exec None p s)) eqn:E; [reflexivity|].
  destruct (only_faults_fail p None s Hc E) as [j [Hj _]]. discriminate.
Qed.

(* ------------------------------------------------------------------------ globals: self-initialising programs *)
Definition agree (W : list glob) (G1 G2 : glob -> Z) : Prop := forall g, In g W -> G1 g = G2 g.

Lemma agree_sub : forall W W' G1 G2, (forall g, In g W -> In g W') -> agree W' G1 G2 -> agree W G1 G2.
Proof. intros W W' G1 G2 H A g Hg. apply A. apply H. exact Hg. Qed.

Lemma observe_agree : forall rd W s1 s2, subset rd W = true -> agree W (glb s1) (glb s2) ->
  observe s1 rd = observe s2 rd.
Proof.
  intros rd W s1 s2 Hs A. unfold observe. apply map_ext_in. intros g Hg.
  rewrite (A g); [reflexivity|]. apply (proj1 (subset_In rd W) Hs). exact Hg.
Qed.

Lemma si_mono : forall p W W', (forall g, In g W -> In g W') -> si W p = true -> si W' p = true.
Proof.
  induction p; intros W W' Hi H; simpl in *; try reflexivity.
  - apply mem_In. apply Hi. apply mem_In. exact H.
  - apply andb_true_iff in H. destruct H as [H1 H2]. apply andb_true_iff. split.
    + apply mem_In. apply Hi. apply mem_In. exact H1.
    + apply subset_In. intros x Hx. apply Hi. apply (proj1 (subset_In rd W) H2). exact Hx.
  - apply subset_In. intros x Hx. apply Hi. apply (proj1 (subset_In rd W) H). exact Hx.
  - apply andb_true_iff in H. destruct H as [H1 H2]. apply andb_true_iff. split.
    + apply (IHp1 W W' Hi H1).
    + apply (IHp2 (dw p1 ++ W) (dw p1 ++ W')); [|exact H2].
      intros g Hg. apply in_or_app. apply in_app_or in Hg. destruct Hg; [left; assumption | right; apply Hi; assumption].
  - apply andb_true_iff in H. destruct H as [H1 H2]. apply andb_true_iff. split.
    + apply (IHp1 W W' Hi H1).
    + apply (IHp2 W W' Hi H2).
Qed.

Lemma si_sound : forall p W k s1 s2, si W p = true -> agree W (glb s1) (glb s2) -> cnt s1 = cnt s2 ->
  fst (exec k p s1) = fst (exec k p s2) /\
  cnt (snd (exec k p s1)) = cnt (snd (exec k p s2)) /\
  agree W (glb (snd (exec k p s1))) (glb (snd (exec k p s2))) /\
  (fst (exec k p s1) = Ok -> agree (dw p ++ W) (glb (snd (exec k p s1))) (glb (snd (exec k p s2)))) /\
  (exists o, obs (snd (exec k p s1)) = o ++ obs s1 /\ obs (snd (exec k p s2)) = o ++ obs s2).
Proof.
  induction p; intros W k s1 s2 H A C; simpl in *.
  - (* Skip *) repeat split; auto. exists []. auto.
  - repeat split; auto. exists []. auto.
  - repeat split; auto. exists []. auto.
  - (* Write *)
    assert (forall W0, agree W0 (glb s1) (glb s2) -> agree W0 (upd (glb s1) g v) (upd (glb s2) g v)) as U.
    { intros W0 A0 x Hx. unfold upd. destruct (Nat.eqb x g); [reflexivity | apply A0; exact Hx]. }
    repeat split; auto.
    + intros _ x Hx. unfold upd. destruct (Nat.eqb x g) eqn:E; [reflexivity|].
      destruct Hx as [Hx|Hx]; [subst; rewrite Nat.eqb_refl in E; discriminate | apply A; exact Hx].
    + exists []. auto.
  - (* Read *)
    repeat split; auto. exists [(g, glb s1 g)]. split; [reflexivity|].
    rewrite (A g); [reflexivity | apply mem_In; exact H].
  - (* Check *)
    apply andb_true_iff in H. destruct H as [H1 H2]. rewrite <- (A g) by (apply mem_In; exact H1).
    destruct (ok (glb s1 g)); simpl.
    + repeat split; auto. exists []. auto.
    + repeat split; auto; try discriminate. exists (observe s1 rd). split; [reflexivity|].
      rewrite (observe_agree rd W s1 s2 H2 A). reflexivity.
  - (* Step *)
    rewrite <- C. destruct (hits k (cnt s1)); simpl.
    + repeat split; auto; try discriminate. exists (observe s1 rd). split; [reflexivity|].
      rewrite (observe_agree rd W s1 s2 H A). reflexivity.
    + repeat split; auto. exists []. auto.
  - (* Seq *)
    apply andb_true_iff in H. destruct H as [H1 H2].
    destruct (IHp1 W k s1 s2 H1 A C) as [E1 [E2 [E3 [E4 [o1 [E5 E6]]]]]].
    destruct (exec k p1 s1) as [[] t1]; destruct (exec k p1 s2) as [[] t2]; simpl in *; try discriminate.
    + destruct (IHp2 (dw p1 ++ W) k t1 t2 H2 (E4 eq_refl) E2) as [F1 [F2 [F3 [F4 [o2 [F5 F6]]]]]].
      split; [exact F1 | split; [exact F2 | split; [|split]]].
      * apply (agree_sub W (dw p1 ++ W)); [intros; apply in_or_app; right; assumption | exact F3].
      * intros Ok2. rewrite <- app_assoc. apply F4. exact Ok2.
      * exists (o2 ++ o1). rewrite F5, F6, E5, E6, !app_assoc. auto.
    + repeat split; auto; try discriminate. exists o1. auto.
  - (* TryFinally *)
    apply andb_true_iff in H. destruct H as [H1 H2].
    destruct (IHp1 W k s1 s2 H1 A C) as [E1 [E2 [E3 [E4 [o1 [E5 E6]]]]]].
    destruct (exec k p1 s1) as [ob t1]; destruct (exec k p1 s2) as [ob' t2]; simpl in *. subst ob'.
    destruct ob.
    + (* body Ok: the finally block is analysed with the larger certain set *)
      assert (si (dw p1 ++ W) p2 = true) as H2'.
      { apply (si_mono p2 W); [intros; apply in_or_app; right; assumption | exact H2]. }
      destruct (IHp2 (dw p1 ++ W) k t1 t2 H2' (E4 eq_refl) E2) as [F1 [F2 [F3 [F4 [o2 [F5 F6]]]]]].
      destruct (exec k p2 t1) as [[] u1]; destruct (exec k p2 t2) as [[] u2]; simpl in *; try discriminate.
      * split; [reflexivity | split; [exact F2 | split; [|split]]].
        -- apply (agree_sub W (dw p1 ++ W)); [intros; apply in_or_app; right; assumption | exact F3].
        -- intros _. rewrite <- app_assoc. apply F4. reflexivity.
        -- exists (o2 ++ o1). rewrite F5, F6, E5, E6, !app_assoc. auto.
      * split; [reflexivity | split; [exact F2 | split; [|split]]].
        -- apply (agree_sub W (dw p1 ++ W)); [intros; apply in_or_app; right; assumption | exact F3].
        -- discriminate.
        -- exists (o2 ++ o1). rewrite F5, F6, E5, E6, !app_assoc. auto.
    + destruct (IHp2 W k t1 t2 H2 E3 E2) as [F1 [F2 [F3 [F4 [o2 [F5 F6]]]]]].
      destruct (exec k p2 t1) as [[] u1]; destruct (exec k p2 t2) as [[] u2]; simpl in *; try discriminate.
      * split; [reflexivity | split; [exact F2 | split; [exact F3 | split; [discriminate|]]]].
        exists (o2 ++ o1). rewrite F5, F6, E5, E6, !app_assoc. auto.
      * split; [reflexivity | split; [exact F2 | split; [exact F3 | split; [discriminate|]]]].
        exists (o2 ++ o1). rewrite F5, F6, E5, E6, !app_assoc. auto.
Qed.

(* ------------------------------------------------------------------------------- restored globals (invariant) *)
Lemma write_free_keeps : forall p L k s, write_free L p = true ->
  forall g, In g L -> glb (snd (exec k p s)) g = glb s g.
Proof.
  induction p; intros L k s H x Hx; simpl in *; try reflexivity.
  - unfold upd. destruct (Nat.eqb x g) eqn:E; [|reflexivity]. apply Nat.eqb_eq in E. subst.
    apply negb_true_iff in H. assert (mem g L = true) by (apply mem_In; exact Hx). congruence.
  - destruct (ok (glb s g)); reflexivity.
  - destruct (hits k (cnt s)); reflexivity.
  - apply andb_true_iff in H. destruct H as [H1 H2]. specialize (IHp1 L k s H1 x Hx).
    destruct (exec k p1 s) as [[] s1]; simpl in *; [|exact IHp1]. rewrite (IHp2 L k s1 H2 x Hx). exact IHp1.
  - apply andb_true_iff in H. destruct H as [H1 H2]. specialize (IHp1 L k s H1 x Hx).
    destruct (exec k p1 s) as [o1 s1]. specialize (IHp2 L k s1 H2 x Hx).
    destruct (exec k p2 s1) as [[] s2]; simpl in *; congruence.
Qed.

Lemma write_free_preserves : forall R p k s, write_free (map fst R) p = true -> inv R s -> inv R (snd (exec k p s)).
Proof.
  intros R p k s H I g v Hg. rewrite (write_free_keeps p (map fst R) k s H).
  - apply I. exact Hg.
  - apply in_map_iff. exists (g, v). auto.
Qed.

Lemma resetp_exec : forall R k s, NoDup (map fst R) ->
  fst (exec k (resetp R) s) = Ok /\ inv R (snd (exec k (resetp R) s)) /\
  (forall g, ~ In g (map fst R) -> glb (snd (exec k (resetp R) s)) g = glb s g).
Proof.
  induction R as [|[g v] R IH]; intros k s N; simpl.
  - split; [reflexivity | split; [intros ? ? [] | reflexivity]].
  - inversion N as [|? ? N1 N2]; subst.
    destruct (IH k (set_glb (upd (glb s) g v) s) N2) as [A [B C]].
    split; [exact A | split].
    + intros g' v' [E|E].
      * inversion E; subst. rewrite (C g' N1). simpl. unfold upd. rewrite Nat.eqb_refl. reflexivity.
      * apply B. exact E.
    + intros g' Hg'. rewrite C by (intros F; apply Hg'; right; exact F). simpl. unfold upd.
      destruct (Nat.eqb g' g) eqn:E; [|reflexivity]. apply Nat.eqb_eq in E. exfalso. apply Hg'. left. auto.
Qed.

Lemma try_reset_preserves : forall R b k s, NoDup (map fst R) -> inv R (snd (exec k (TryFinally b (resetp R)) s)).
Proof.
  intros R b k s N. simpl. destruct (exec k b s) as [o1 s1].
  destruct (resetp_exec R k s1 N) as [A [B _]]. destruct (exec k (resetp R) s1) as [[] s2]; simpl in *; exact B.
Qed.

Lemma seq_preserves : forall (P : st -> Prop) p q k s,
  (forall s, P s -> P (snd (exec k p s))) -> (forall s, P s -> P (snd (exec k q s))) ->
  P s -> P (snd (exec k (Seq p q) s)).
Proof.
  intros P p q k s Hp Hq Hs. simpl. specialize (Hp s Hs). destruct (exec k p s) as [[] s1]; simpl in *.
  - apply Hq. exact Hp.
  - exact Hp.
Qed.

Lemma run_seq_inv : forall R runs s,
  (forall q kq, In (q, kq) runs -> forall s, inv R s -> inv R (snd (exec kq q s))) ->
  inv R s -> inv R (run_seq runs s).
Proof.
  induction runs as [|[q kq] rest IH]; intros s H I; simpl; [exact I|].
  apply IH.
  - intros q' k' Hq. apply (H q' k'). right. exact Hq.
  - assert (inv R (next_run s)) as I' by exact I.
    assert (inv R (snd (exec kq q s))) as I2 by (apply (H q kq); [left; reflexivity | exact I]).
    exact I2.
Qed.

(* A run whose reads are covered by the restored globals (and by what it wrote itself) behaves the same after ANY
   sequence of earlier runs -- failed or not, any number of them -- that leave the restored globals at their baseline. *)
Theorem history_independence : forall R runs p k G,
  (forall q kq, In (q, kq) runs -> forall s, inv R s -> inv R (snd (exec kq q s))) ->
  inv R (init G) -> si (map fst R) p = true ->
  behaviour k p (run_seq runs (init G)) = behaviour k p (init G).
Proof.
  intros R runs p k G H I S. unfold behaviour.
  pose proof (run_seq_inv R runs (init G) H I) as I2.
  assert (agree (map fst R) (glb (next_run (run_seq runs (init G)))) (glb (next_run (init G)))) as A.
  { intros g Hg. apply in_map_iff in Hg. destruct Hg as [[g' v] [E Hg]]. simpl in E. subst g'.
    simpl. transitivity v; [exact (I2 g v Hg) | symmetry; exact (I g v Hg)]. }
  destruct (si_sound p (map fst R) k _ _ S A eq_refl) as [E1 [_ [_ [_ [o [E5 E6]]]]]].
  rewrite E1. f_equal. rewrite E5, E6. reflexivity.
Qed.

(* ------------------------------------------------------------------------------------------- the run skeleton *)
Lemma wb_seqs : forall A ps, wb A (seqs ps) = forallb (wb A) ps.
Proof. induction ps; simpl; [reflexivity | rewrite IHps; reflexivity]. Qed.

Lemma wb_load : forall A kd, wb A (load_prog kd) = true.
Proof. intros A [|]; simpl; rewrite ?Nat.eqb_refl; reflexivity. Qed.

Lemma wb_cleanup : forall A f, wb A (cleanup_prog f) = true.
Proof. intros A [|]; reflexivity. Qed.

Lemma forallb_map_true : forall {X} (f : X -> prog) A l, (forall x, wb A (f x) = true) -> forallb (wb A) (map f l) = true.
Proof. intros X f A l H. induction l; simpl; [reflexivity | rewrite H, IHl; reflexivity]. Qed.

Lemma wb_stmt : forall A s, wb A (stmt_prog s) = true.
Proof.
  intros A s. unfold stmt_prog. rewrite wb_seqs. simpl. rewrite !wb_seqs.
  rewrite (forallb_map_true load_prog A _ (wb_load A)), (forallb_map_true cleanup_prog A _ (wb_cleanup A)). reflexivity.
Qed.

Lemma wb_repeat : forall A p n, wb A p = true -> forallb (wb A) (repeat p n) = true.
Proof. intros A p n H. induction n; simpl; [reflexivity | rewrite H, IHn; reflexivity]. Qed.

(* execute_queries, for every schedule: its only acquisition (the temporary view) is bracketed *)
Lemma wb_exec_queries : forall A ss nfinal save, wb A (exec_queries ss nfinal save) = true.
Proof.
  intros A ss nfinal save. unfold exec_queries. rewrite wb_seqs. simpl. rewrite !wb_seqs.
  rewrite (forallb_map_true stmt_prog A _ (wb_stmt A)), (wb_repeat A (Step LFetch [GDsOut]) nfinal eq_refl). destruct save; reflexivity.
Qed.

Lemma wb_sem_stmts : forall A n i, wb A (sem_stmts i n) = true.
Proof. induction n; intros i; simpl; [reflexivity | apply IHn]. Qed.

Lemma wb_decimal_impl : forall A w s, wb A (decimal_impl w s) = true.
Proof. reflexivity. Qed.

Lemma wb_decimal_before_fix : forall A w s, wb A (decimal_before_fix w s) = true.
Proof. intros A [|] [|]; reflexivity. Qed.

Lemma conn_impl_bracketed : forall fb dec body,
  wb [RConn; RDbFile; RDir] dec = true -> wb [RConn; RDbFile; RDir] body = true ->
  bracketed (conn_impl fb dec body) = true.
Proof.
  intros fb dec body Hd Hb. unfold bracketed, conn_impl. simpl. rewrite Hd, Hb. destruct fb; reflexivity.
Qed.

Theorem run_impl_bracketed : forall n fb envW envS ss nfinal save,
  bracketed (run_impl n fb envW envS (exec_queries ss nfinal save)) = true.
Proof.
  intros. unfold bracketed, run_impl.
  change (wb [] (semantic_impl n) && wb [] (conn_impl fb (decimal_impl envW envS) (exec_queries ss nfinal save)) = true).
  apply andb_true_iff. split.
  - simpl. apply wb_sem_stmts.
  - apply conn_impl_bracketed; [apply wb_decimal_impl | apply wb_exec_queries].
Qed.

(* ---- the faithful connection skeleton: exact leak per fault position ---------------------------------------- *)
Definition shift (d : nat) (s : st) : st := mkSt (live s) (glb s) (obs s) (cnt s + d) (trace s).

Lemma exec_shift : forall p k d s,
  exec (Some (k + d)) p (shift d s) = (fst (exec (Some k) p s), shift d (snd (exec (Some k) p s))).
Proof.
  induction p; intros k d s; simpl; try reflexivity.
  - destruct (ok (glb s g)); reflexivity.
  - replace (Nat.eqb (k + d) (cnt s + d)) with (Nat.eqb k (cnt s)).
    + destruct (Nat.eqb k (cnt s)); reflexivity.
    + destruct (Nat.eqb k (cnt s)) eqn:E.
      * apply Nat.eqb_eq in E. symmetry. apply Nat.eqb_eq. lia.
      * apply Nat.eqb_neq in E. symmetry. apply Nat.eqb_neq. lia.
  - rewrite IHp1. destruct (exec (Some k) p1 s) as [[] s1]; simpl; [apply IHp2 | reflexivity].
  - rewrite IHp1. destruct (exec (Some k) p1 s) as [o1 s1]; simpl. rewrite IHp2.
    destruct (exec (Some k) p2 s1) as [[] s2]; reflexivity.
Qed.

(* programs that touch no resource and have no failable step *)
Fixpoint quiet (p : prog) : bool :=
  match p with
  | Acquire _ | Release _ | Step _ _ => false
  | Seq p q => quiet p && quiet q
  | TryFinally b f => quiet b && quiet f
  | _ => true
  end.

Lemma quiet_exec : forall p k s, quiet p = true ->
  live (snd (exec k p s)) = live s /\ cnt (snd (exec k p s)) = cnt s.
Proof.
  induction p; intros k s H; simpl in *; try discriminate; try (split; reflexivity).
  - destruct (ok (glb s g)); split; reflexivity.
  - apply andb_true_iff in H. destruct H as [H1 H2]. destruct (IHp1 k s H1) as [A B].
    destruct (exec k p1 s) as [[] s1]; simpl in *; [|split; assumption].
    destruct (IHp2 k s1 H2) as [A2 B2]. split; congruence.
  - apply andb_true_iff in H. destruct H as [H1 H2]. destruct (IHp1 k s H1) as [A B].
    destruct (exec k p1 s) as [o1 s1]; simpl in *. destruct (IHp2 k s1 H2) as [A2 B2].
    destruct (exec k p2 s1) as [[] s2]; simpl in *; split; congruence.
Qed.

Lemma quiet_decimal_before_fix : forall w s, quiet (decimal_before_fix w s) = true.
Proof. intros [|] [|]; reflexivity. Qed.

(* the try/finally part of configured_connection releases everything, whatever happens in the body *)
Lemma conn_try_clean : forall fb body k s,
  wb [RConn; RDbFile; RDir] body = true -> (forall r, In r (live s) -> In r (leakset fb)) ->
  live (snd (exec k (TryFinally body conn_finally) s)) = [].
Proof.
  intros fb body k s Hb Hl. apply nil_of_no_member. intros x Hx.
  assert (fin_ok conn_finally = true) as F by reflexivity.
  change (exec k (TryFinally body conn_finally) s) with
    (match exec k body s with
     | (o, s1) => match exec k conn_finally s1 with (Ok, s2) => (o, s2) | (Fail, s2) => (Fail, s2) end
     end) in Hx.
  pose proof (wb_sound body [RConn; RDbFile; RDir] k s Hb) as S1.
  destruct (exec k body s) as [o1 s1].
  destruct (exec_fin_ok conn_finally k s1 F) as [A [B C]].
  destruct (exec k conn_finally s1) as [[] s2]; cbn [fst snd] in *; try discriminate.
  destruct (C x Hx) as [D1 D2]. apply D2. destruct (S1 x D1) as [G|G].
  - specialize (Hl x G). destruct fb; simpl in Hl; simpl; tauto.
  - simpl in G. simpl. tauto.
Qed.

(* outcome and leak of the faithful skeleton when all configuration checks pass *)
Lemma dec_ok_exec : forall envW envS k s, valid_cfg_before_fix envW envS (glb s) = true ->
  fst (exec k (decimal_before_fix envW envS) s) = Ok.
Proof.
  intros envW envS k s H. unfold valid_cfg_before_fix in H. apply andb_true_iff in H. destruct H as [H1 H2].
  destruct envW as [w|]; destruct envS as [sc|]; simpl in *; unfold upd; simpl; rewrite ?H1; simpl; rewrite ?H2; reflexivity.
Qed.

Lemma dec_bad_exec : forall envW envS k s, valid_cfg_before_fix envW envS (glb s) = false ->
  fst (exec k (decimal_before_fix envW envS) s) = Fail.
Proof.
  intros envW envS k s H. unfold valid_cfg_before_fix in H. apply andb_false_iff in H.
  destruct envW as [w|]; destruct envS as [sc|]; simpl in *; unfold upd; simpl;
    destruct H as [H|H]; rewrite ?H; simpl; try reflexivity;
    match goal with |- context [if ?c then _ else _] => destruct c end; simpl; rewrite ?H; reflexivity.
Qed.

Lemma conn_pre_exec : forall fb k s, live s = [] -> cnt s = 0 ->
  match k with
  | Some 0 => fst (exec k (conn_pre fb) s) = Fail /\ live (snd (exec k (conn_pre fb) s)) = []
  | Some 1 => fst (exec k (conn_pre fb) s) = Fail /\ live (snd (exec k (conn_pre fb) s)) = [RDir]
  | Some 2 | Some 3 | Some 4 =>
      fst (exec k (conn_pre fb) s) = Fail /\ live (snd (exec k (conn_pre fb) s)) = leakset fb
  | _ => fst (exec k (conn_pre fb) s) = Ok /\ live (snd (exec k (conn_pre fb) s)) = leakset fb /\
         cnt (snd (exec k (conn_pre fb) s)) = 5 /\ glb (snd (exec k (conn_pre fb) s)) = glb s
  end.
Proof.
  intros fb k [l G o c t] Hl Hc. simpl in Hl, Hc. subst.
  destruct k as [[|[|[|[|[|k]]]]]|]; destruct fb; simpl; repeat split; reflexivity.
Qed.

Theorem conn_before_fix_leaks : forall fb envW envS body k s,
  live s = [] -> cnt s = 0 -> valid_cfg_before_fix envW envS (glb s) = true -> wb [RConn; RDbFile; RDir] body = true ->
  live (snd (exec (Some k) (conn_before_fix fb (decimal_before_fix envW envS) body) s)) = predicted_leak fb k.
Proof.
  intros fb envW envS body k s Hl Hc Hv Hb. unfold conn_before_fix.
  pose proof (conn_pre_exec fb (Some k) s Hl Hc) as P.
  assert (forall p, exec (Some k) (Seq (conn_pre fb) p) s =
                    match exec (Some k) (conn_pre fb) s with (Ok, s1) => exec (Some k) p s1 | (Fail, s1) => (Fail, s1) end) as U
    by reflexivity.
  rewrite U. clear U.
  destruct k as [|[|[|[|[|k]]]]].
  1-5: destruct P as [P1 P2]; destruct (exec _ (conn_pre fb) s) as [[] s1]; simpl in *; try discriminate; exact P2.
  destruct P as [P1 [P2 [P3 P4]]]. destruct (exec _ (conn_pre fb) s) as [[] s1]; simpl in P1, P2, P3, P4; try discriminate.
  rewrite <- P4 in Hv.
  pose proof (dec_ok_exec envW envS (Some (S (S (S (S (S k)))))) s1 Hv) as D.
  destruct (quiet_exec (decimal_before_fix envW envS) (Some (S (S (S (S (S k)))))) s1 (quiet_decimal_before_fix _ _)) as [Q1 Q2].
  change (exec (Some (S (S (S (S (S k)))))) (Seq (decimal_before_fix envW envS) (Seq (Step LSetTemp []) (TryFinally body conn_finally))) s1)
    with (match exec (Some (S (S (S (S (S k)))))) (decimal_before_fix envW envS) s1 with
          | (Ok, s2) => exec (Some (S (S (S (S (S k)))))) (Seq (Step LSetTemp []) (TryFinally body conn_finally)) s2
          | (Fail, s2) => (Fail, s2) end).
  destruct (exec _ (decimal_before_fix envW envS) s1) as [[] s2]; simpl in D, Q1, Q2; try discriminate.
  change (exec (Some (S (S (S (S (S k)))))) (Seq (Step LSetTemp []) (TryFinally body conn_finally)) s2)
    with (match (if hits (Some (S (S (S (S (S k)))))) (cnt s2) then (Fail, add_obs (observe s2 []) (tick LSetTemp s2)) else (Ok, tick LSetTemp s2)) with
          | (Ok, s3) => exec (Some (S (S (S (S (S k)))))) (TryFinally body conn_finally) s3
          | (Fail, s3) => (Fail, s3) end).
  rewrite Q2, P3. destruct k as [|k]; simpl hits; cbv iota.
  - simpl. rewrite Q1, P2. reflexivity.
  - simpl predicted_leak. apply (conn_try_clean fb); [exact Hb|]. simpl. rewrite Q1, P2. auto.
Qed.

(* a configuration error (a real one, no injected fault needed) leaks everything acquired before the try *)
Theorem conn_before_fix_config_error_leaks : forall fb envW envS body k s,
  live s = [] -> cnt s = 0 -> valid_cfg_before_fix envW envS (glb s) = false ->
  (match k with Some j => 5 <= j | None => True end) ->
  fst (exec k (conn_before_fix fb (decimal_before_fix envW envS) body) s) = Fail /\
  live (snd (exec k (conn_before_fix fb (decimal_before_fix envW envS) body) s)) = leakset fb.
Proof.
  intros fb envW envS body k s Hl Hc Hv Hk. unfold conn_before_fix.
  pose proof (conn_pre_exec fb k s Hl Hc) as P.
  assert (forall p, exec k (Seq (conn_pre fb) p) s =
                    match exec k (conn_pre fb) s with (Ok, s1) => exec k p s1 | (Fail, s1) => (Fail, s1) end) as U
    by reflexivity.
  rewrite U. clear U.
  assert (fst (exec k (conn_pre fb) s) = Ok /\ live (snd (exec k (conn_pre fb) s)) = leakset fb /\
          cnt (snd (exec k (conn_pre fb) s)) = 5 /\ glb (snd (exec k (conn_pre fb) s)) = glb s) as P'.
  { destruct k as [[|[|[|[|[|j]]]]]|]; try lia; exact P. }
  clear P. destruct P' as [P1 [P2 [P3 P4]]]. destruct (exec k (conn_pre fb) s) as [[] s1]; simpl in P1, P2, P3, P4; try discriminate.
  rewrite <- P4 in Hv. pose proof (dec_bad_exec envW envS k s1 Hv) as D.
  destruct (quiet_exec (decimal_before_fix envW envS) k s1 (quiet_decimal_before_fix _ _)) as [Q1 Q2].
  change (exec k (Seq (decimal_before_fix envW envS) (Seq (Step LSetTemp []) (TryFinally body conn_finally))) s1)
    with (match exec k (decimal_before_fix envW envS) s1 with
          | (Ok, s2) => exec k (Seq (Step LSetTemp []) (TryFinally body conn_finally)) s2
          | (Fail, s2) => (Fail, s2) end).
  destruct (exec k (decimal_before_fix envW envS) s1) as [[] s2]; simpl in D, Q1; try discriminate.
  simpl. split; [reflexivity | congruence].
Qed.

(* ---- run() = semantic analysis ; connection ------------------------------------------------------------------ *)
Fixpoint res_free (p : prog) : bool :=
  match p with
  | Acquire _ | Release _ => false
  | Seq p q => res_free p && res_free q
  | TryFinally b f => res_free b && res_free f
  | _ => true
  end.

Lemma res_free_live : forall p k s, res_free p = true -> live (snd (exec k p s)) = live s.
Proof.
  induction p; intros k s H; simpl in *; try discriminate; try reflexivity.
  - destruct (ok (glb s g)); reflexivity.
  - destruct (hits k (cnt s)); reflexivity.
  - apply andb_true_iff in H. destruct H as [H1 H2]. specialize (IHp1 k s H1).
    destruct (exec k p1 s) as [[] s1]; simpl in *; [rewrite (IHp2 k s1 H2)|]; exact IHp1.
  - apply andb_true_iff in H. destruct H as [H1 H2]. specialize (IHp1 k s H1).
    destruct (exec k p1 s) as [o1 s1]. specialize (IHp2 k s1 H2).
    destruct (exec k p2 s1) as [[] s2]; simpl in *; congruence.
Qed.

Lemma sem_stmts_facts : forall n i,
  nsteps (sem_stmts i n) = n /\ check_free (sem_stmts i n) = true /\ res_free (sem_stmts i n) = true /\
  write_free [GWidth; GScale] (sem_stmts i n) = true.
Proof.
  induction n; intros i; simpl; [repeat split; reflexivity|].
  destruct (IHn (S i)) as [A [B [C D]]]. repeat split; [rewrite A; reflexivity | exact B | exact C | exact D].
Qed.

Lemma semantic_body_facts : forall n,
  nsteps (semantic_body n) = n /\ check_free (semantic_body n) = true /\ res_free (semantic_body n) = true /\
  write_free [GWidth; GScale] (semantic_body n) = true.
Proof. intros n. destruct (sem_stmts_facts n 0) as [A [B [C D]]]. simpl. repeat split; assumption. Qed.

Lemma valid_cfg_ext : forall envW envS G G', G' GWidth = G GWidth -> G' GScale = G GScale ->
  valid_cfg_before_fix envW envS G' = valid_cfg_before_fix envW envS G.
Proof. intros envW envS G G' H1 H2. unfold valid_cfg_before_fix. rewrite H1, H2. reflexivity. Qed.

(* the faithful run skeleton, for every number of statements, every schedule, every fault position:
   a fault during semantic analysis (k < n) leaks nothing; afterwards the leak is that of the connection skeleton *)
Theorem run_before_fix_leaks : forall n fb envW envS body k G,
  valid_cfg_before_fix envW envS G = true -> wb [RConn; RDbFile; RDir] body = true ->
  live (snd (exec (Some k) (run_before_fix n fb envW envS body) (init G))) =
    if k <? n then [] else predicted_leak fb (k - n).
Proof.
  intros n fb envW envS body k G Hv Hb. unfold run_before_fix.
  destruct (semantic_body_facts n) as [Fn [Fc [Fr Fw]]].
  change (exec (Some k) (Seq (semantic_body n) (conn_before_fix fb (decimal_before_fix envW envS) body)) (init G))
    with (match exec (Some k) (semantic_body n) (init G) with
          | (Ok, s1) => exec (Some k) (conn_before_fix fb (decimal_before_fix envW envS) body) s1
          | (Fail, s1) => (Fail, s1) end).
  pose proof (res_free_live (semantic_body n) (Some k) (init G) Fr) as L.
  destruct (k <? n) eqn:E.
  - apply Nat.ltb_lt in E.
    pose proof (fault_raises (semantic_body n) k (init G)) as R. rewrite Fn in R. change (cnt (init G)) with 0 in R.
    specialize (R (conj (Nat.le_0_l k) E)).
    destruct (exec (Some k) (semantic_body n) (init G)) as [[] s1]; cbn [fst snd] in *; [discriminate | exact L].
  - apply Nat.ltb_ge in E.
    pose proof (only_faults_fail (semantic_body n) (Some k) (init G) Fc) as O. rewrite Fn in O. change (cnt (init G)) with 0 in O.
    pose proof (exec_ok_counts (semantic_body n) (Some k) (init G)) as C. rewrite Fn in C. change (cnt (init G)) with 0 in C.
    pose proof (write_free_keeps (semantic_body n) [GWidth; GScale] (Some k) (init G) Fw) as K.
    destruct (exec (Some k) (semantic_body n) (init G)) as [[] s1]; cbn [fst snd] in *.
    + destruct (C eq_refl) as [C1 _]. simpl in C1.
      set (s0 := mkSt (live s1) (glb s1) (obs s1) 0 (trace s1)).
      assert (s1 = shift n s0) as Es by (destruct s1; simpl in *; subst; reflexivity).
      replace (Some k) with (Some ((k - n) + n)) by (f_equal; lia).
      rewrite Es, exec_shift. cbn [snd]. unfold shift at 1. cbn [live]. apply conn_before_fix_leaks; try reflexivity; try exact Hb.
      * exact L.
      * simpl. rewrite <- Hv. apply valid_cfg_ext; apply K; simpl; auto.
    + destruct (O eq_refl) as [j [Hj Hr]]. inversion Hj. lia.
Qed.

(* ---- spec skeleton: restored globals and self-initialisation -------------------------------------------------- *)
Lemma si_seqs_cons : forall W p ps, si W (seqs (p :: ps)) = si W p && si (dw p ++ W) (seqs ps).
Proof. reflexivity. Qed.

Definition knows (W : list glob) : Prop := In GDsOut W /\ In GWidth W /\ In GScale W.

Lemma knows_app : forall W X, knows W -> knows (X ++ W).
Proof. intros W X [A [B C]]. repeat split; apply in_or_app; right; assumption. Qed.

Lemma si_load : forall W kd, knows W -> si W (load_prog kd) = true.
Proof.
  intros W kd [A [B C]]. apply mem_In in A. apply mem_In in B. apply mem_In in C.
  destruct kd; simpl; rewrite ?A, ?B, ?C; reflexivity.
Qed.

Lemma si_cleanup : forall W f, knows W -> si W (cleanup_prog f) = true.
Proof. intros W f [A _]. apply mem_In in A. destruct f; simpl; rewrite ?A; reflexivity. Qed.

Lemma si_seqs_all : forall ps W, knows W ->
  (forall p, In p ps -> forall W', knows W' -> si W' p = true) -> si W (seqs ps) = true.
Proof.
  induction ps; intros W K H; simpl; [reflexivity|].
  rewrite (H a (or_introl eq_refl) W K). simpl. apply IHps; [apply knows_app; exact K|].
  intros p Hp. apply H. right. exact Hp.
Qed.

Lemma si_step_dsout : forall l W, knows W -> si W (Step l [GDsOut]) = true.
Proof. intros l W [A _]. simpl. rewrite (proj2 (mem_In _ _) A). reflexivity. Qed.

Lemma si_stmt : forall W s, knows W -> si W (stmt_prog s) = true.
Proof.
  intros W s K. unfold stmt_prog. apply si_seqs_all; [exact K|].
  intros p [<-|[<-|[<-|[]]]] W' K'.
  - apply si_seqs_all; [exact K'|]. intros q Hq W2 K2. apply in_map_iff in Hq. destruct Hq as [x [<- _]]. apply si_load. exact K2.
  - apply si_step_dsout. exact K'.
  - apply si_seqs_all; [exact K'|]. intros q Hq W2 K2. apply in_map_iff in Hq. destruct Hq as [x [<- _]]. apply si_cleanup. exact K2.
Qed.

Lemma si_exec_queries : forall W ss nfinal save, knows W -> si W (exec_queries ss nfinal save) = true.
Proof.
  intros W ss nfinal save K. unfold exec_queries. apply si_seqs_all; [exact K|].
  intros p [<-|[<-|[<-|[<-|[]]]]] W' K'.
  - apply si_step_dsout. exact K'.
  - apply si_seqs_all; [exact K'|]. intros q Hq W2 K2. apply in_map_iff in Hq. destruct Hq as [x [<- _]]. apply si_stmt. exact K2.
  - apply si_seqs_all; [exact K'|]. intros q Hq W2 K2. apply repeat_spec in Hq. subst. apply si_step_dsout. exact K2.
  - destruct save; reflexivity.
Qed.

Lemma si_sem_stmts : forall n i W, In GDsOut W -> In GRegistry W -> si W (sem_stmts i n) = true.
Proof.
  induction n; intros i W A B; [reflexivity|].
  change (si W (sem_stmts i (S n))) with
    (true && (subset [GDsOut; GRegistry] ([GDsOut] ++ W) &&
              (true && si (dw (Write GDsOut 0) ++ dw (Step LSem [GDsOut; GRegistry]) ++ [GDsOut] ++ W) (sem_stmts (S i) n)))).
  assert (subset [GDsOut; GRegistry] ([GDsOut] ++ W) = true) as S1.
  { apply subset_In. intros x [<-|[<-|[]]]; simpl; auto. }
  rewrite S1. simpl andb. apply IHn; simpl; auto.
Qed.

(* the spec skeleton of run(), for every number of statements / schedule / environment setting, reads only what it
   wrote itself or the restored global dataset_output *)
Theorem run_impl_self_init : forall n fb envW envS ss nfinal save,
  si (map fst restored) (run_impl n fb envW envS (exec_queries ss nfinal save)) = true.
Proof.
  intros. unfold run_impl, conn_impl, semantic_impl, semantic_body, decimal_impl.
  pose proof (fun W K => si_exec_queries W ss nfinal save K) as HB.
  generalize dependent (exec_queries ss nfinal save). intros body HB.
  destruct fb; simpl; rewrite si_sem_stmts by (simpl; auto); rewrite HB by (repeat split; simpl; auto 12); reflexivity.
Qed.

Lemma write_free_exec_queries : forall L ss nfinal save, write_free L (exec_queries ss nfinal save) = true.
Proof.
  intros L ss nfinal save.
  assert (forall ps, (forall p, In p ps -> write_free L p = true) -> write_free L (seqs ps) = true) as Hs.
  { induction ps; intros H; simpl; [reflexivity|]. rewrite (H a (or_introl eq_refl)). apply IHps. intros p Hp. apply H. right. exact Hp. }
  assert (forall kd, write_free L (load_prog kd) = true) as Hl by (intros [|]; reflexivity).
  assert (forall f, write_free L (cleanup_prog f) = true) as Hc by (intros [|]; reflexivity).
  assert (forall s, write_free L (stmt_prog s) = true) as Hst.
  { intros s. unfold stmt_prog. apply Hs. intros p [<-|[<-|[<-|[]]]].
    - apply Hs. intros q Hq. apply in_map_iff in Hq. destruct Hq as [x [<- _]]. apply Hl.
    - reflexivity.
    - apply Hs. intros q Hq. apply in_map_iff in Hq. destruct Hq as [x [<- _]]. apply Hc. }
  unfold exec_queries. apply Hs. intros p [<-|[<-|[<-|[<-|[]]]]].
  - reflexivity.
  - apply Hs. intros q Hq. apply in_map_iff in Hq. destruct Hq as [x [<- _]]. apply Hst.
  - apply Hs. intros q Hq. apply repeat_spec in Hq. subst. reflexivity.
  - destruct save; reflexivity.
Qed.

(* ... and leaves dataset_output at its baseline whatever happens (any fault, any failing check) *)
Theorem run_impl_restores : forall n fb envW envS ss nfinal save k s,
  inv restored s -> inv restored (snd (exec k (run_impl n fb envW envS (exec_queries ss nfinal save)) s)).
Proof.
  intros. unfold run_impl. apply (seq_preserves (inv restored)); [| |assumption].
  - intros s0 _. apply try_reset_preserves. simpl. constructor; [intros []|constructor].
  - intros s0 I0. apply write_free_preserves; [|exact I0].
    unfold conn_impl, decimal_impl. pose proof (write_free_exec_queries (map fst restored) ss nfinal save) as HB.
    generalize dependent (exec_queries ss nfinal save). intros body HB.
    destruct fb; simpl in *; rewrite HB; reflexivity.
Qed.

Lemma validate_restores : forall k s, inv restored s -> inv restored (snd (exec k validate_prog s)).
Proof. intros k s I. apply write_free_preserves; [reflexivity | exact I]. Qed.

(* ---- statements used verbatim by Props/C16.v ------------------------------------------------------------------ *)
Corollary run_before_fix_leaks_positions : forall n fb envW envS body k G,
  valid_cfg_before_fix envW envS G = true -> wb [RConn; RDbFile; RDir] body = true ->
  (live (snd (exec (Some k) (run_before_fix n fb envW envS body) (init G))) <> [] <-> n + 1 <= k <= n + 5).
Proof.
  intros n fb envW envS body k G Hv Hb. rewrite (run_before_fix_leaks n fb envW envS body k G Hv Hb).
  destruct (k <? n) eqn:E.
  - apply Nat.ltb_lt in E. split; [intros H; exfalso; apply H; reflexivity | lia].
  - apply Nat.ltb_ge in E. remember (k - n) as j eqn:Ej.
    destruct j as [|[|[|[|[|[|j]]]]]]; simpl; split; intros H; try lia; try (exfalso; apply H; reflexivity);
      try (destruct fb; discriminate).
Qed.

Theorem run_before_fix_bracketed_refuted : forall n fb envW envS ss nfinal save G,
  valid_cfg_before_fix envW envS G = true ->
  live (snd (exec (Some (n + 1)) (run_before_fix n fb envW envS (exec_queries ss nfinal save)) (init G))) = [RDir] /\
  live (snd (exec (Some (n + 4)) (run_before_fix n fb envW envS (exec_queries ss nfinal save)) (init G))) = leakset fb.
Proof.
  intros. split; rewrite run_before_fix_leaks by (try assumption; apply wb_exec_queries).
  - replace (n + 1 <? n) with false by (symmetry; apply Nat.ltb_ge; lia). replace (n + 1 - n) with 1 by lia. reflexivity.
  - replace (n + 4 <? n) with false by (symmetry; apply Nat.ltb_ge; lia). replace (n + 4 - n) with 4 by lia. reflexivity.
Qed.

Theorem config_error_leaks : forall fb envW envS body s,
  live s = [] -> cnt s = 0 -> valid_cfg_before_fix envW envS (glb s) = false ->
  fst (exec None (conn_before_fix fb (decimal_before_fix envW envS) body) s) = Fail /\
  live (snd (exec None (conn_before_fix fb (decimal_before_fix envW envS) body) s)) = leakset fb.
Proof. intros. apply conn_before_fix_config_error_leaks; auto. Qed.

Theorem run_impl_never_leaks : forall n fb envW envS ss nfinal save k G,
  live (snd (exec k (run_impl n fb envW envS (exec_queries ss nfinal save)) (init G))) = [].
Proof. intros. apply bracketed_safe; [apply run_impl_bracketed | reflexivity]. Qed.

Lemma api_call_si : forall p, api_call p -> si (map fst restored) p = true.
Proof. intros p [n fb envW envS ss nfinal save|]; [apply run_impl_self_init | reflexivity]. Qed.

Lemma api_call_inv : forall p, api_call p -> forall k s, inv restored s -> inv restored (snd (exec k p s)).
Proof. intros p [n fb envW envS ss nfinal save|] k s I; [apply run_impl_restores; exact I | apply validate_restores; exact I]. Qed.

Theorem history_independence_impl : forall runs p k G,
  (forall q kq, In (q, kq) runs -> api_call q) -> api_call p -> G GDsOut = 0%Z ->
  behaviour k p (run_seq runs (init G)) = behaviour k p (init G).
Proof.
  intros runs p k G Hr Hp HG. apply (history_independence restored).
  - intros q kq Hq. apply api_call_inv. exact (Hr q kq Hq).
  - intros g v [E|[]]. inversion E; subst. exact HG.
  - apply api_call_si. exact Hp.
Qed.
