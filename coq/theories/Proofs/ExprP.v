From Coq Require Import ZArith QArith String List Bool Permutation.
Import ListNotations.
From VTL Require Import Base.Val Model.Table Model.Scalar Model.Expr Proofs.TableP Proofs.MonadP.
Open Scope string_scope.
Open Scope list_scope.

(* =============================================================== value level (C01) *)

(* strict operators propagate null *)
Lemma arith_null_l op v : (exists z, v = VInt z) \/ (exists q, v = VNum q) \/ v = VNull ->
  op <> Div -> arith op VNull v = Ok VNull.
Proof. intros [[z ->]|[[q ->]| ->]] Hop; destruct op; simpl; auto; congruence. Qed.

Lemma arith_null_r op v : (exists z, v = VInt z) \/ (exists q, v = VNum q) \/ v = VNull ->
  arith op v VNull = Ok VNull.
Proof. intros [[z ->]|[[q ->]| ->]]; destruct op; simpl; auto. Qed.

Lemma compare_null_l op v : In op [Eq; Neq; Gt; Ge; Lt; Le] -> compare_op op VNull v = Ok VNull.
Proof. intros _. reflexivity. Qed.
Lemma compare_null_r op v : In op [Eq; Neq; Gt; Ge; Lt; Le] -> compare_op op v VNull = Ok VNull.
Proof. intros _. unfold compare_op. rewrite orb_true_r. reflexivity. Qed.

Lemma concat_null v : concat_op VNull v = Ok VNull /\ concat_op v VNull = Ok VNull.
Proof. unfold concat_op. simpl. rewrite orb_true_r. auto. Qed.

Lemma between_null a lo hi : is_null a = true \/ is_null lo = true \/ is_null hi = true -> between_val a lo hi = Ok VNull.
Proof. unfold between_val. intros [->|[->| ->]]; simpl; rewrite ?orb_true_r; reflexivity. Qed.

(* three-valued logic: the complete truth tables *)
Lemma kleene_and_table :
  k_and (Some true) (Some true) = Some true /\ k_and (Some true) (Some false) = Some false /\ k_and (Some true) None = None /\
  k_and (Some false) (Some true) = Some false /\ k_and (Some false) (Some false) = Some false /\ k_and (Some false) None = Some false /\
  k_and None (Some true) = None /\ k_and None (Some false) = Some false /\ k_and None None = None.
Proof. repeat split. Qed.
Lemma kleene_or_table :
  k_or (Some true) (Some true) = Some true /\ k_or (Some true) (Some false) = Some true /\ k_or (Some true) None = Some true /\
  k_or (Some false) (Some true) = Some true /\ k_or (Some false) (Some false) = Some false /\ k_or (Some false) None = None /\
  k_or None (Some true) = Some true /\ k_or None (Some false) = None /\ k_or None None = None.
Proof. repeat split. Qed.
Lemma kleene_xor_null a : k_xor None a = None /\ k_xor a None = None.
Proof. destruct a as [[]|]; auto. Qed.
Lemma kleene_not_table : k_not (Some true) = Some false /\ k_not (Some false) = Some true /\ k_not None = None.
Proof. repeat split. Qed.
(* the engine's XOR template (a AND NOT b) OR (NOT a AND b) is the Kleene xor *)
Lemma xor_template_is_kleene a b : k_or (k_and a (k_not b)) (k_and (k_not a) b) = k_xor a b.
Proof. destruct a as [[]|], b as [[]|]; reflexivity. Qed.

(* division by zero is an error, never a value *)
Lemma div_zero_is_error a : (exists z, a = VInt z) \/ (exists q, a = VNum q) \/ a = VNull ->
  arith Div a (VInt 0) = Err ERR_DIV0 /\ forall q, q_is_zero q = true -> arith Div a (VNum q) = Err ERR_DIV0.
Proof.
  intros [[z ->]|[[q ->]| ->]]; split; try reflexivity; intros q0 Hq; simpl; rewrite ?Hq; reflexivity.
Qed.

(* =============================================================== filter (C02) *)
Lemma is_true_iff v : is_true v = true <-> v = VBool true.
Proof. destruct v as [| | | |[]]; simpl; split; congruence. Qed.

Lemma d_filter_spec d c d' :
  d_filter d c = Ok d' ->
  d_ids d' = d_ids d /\ d_ms d' = d_ms d /\
  forall r, In r (d_rows d') <-> In r (d_rows d) /\ ceval (row_env d r) c = Ok (VBool true).
Proof.
  unfold d_filter. intros H. apply bind_ok in H. destruct H as [l [Hl H]]. injection H as <-. simpl.
  split; [reflexivity|]. split; [reflexivity|]. intros r. rewrite in_map_iff. split.
  - intros [[r0 v] [<- Hin]]. apply filter_In in Hin. destruct Hin as [Hin Ht]. simpl in *.
    destruct (mapM_ok_inv _ _ _ Hl _ Hin) as [x [Hx Hf]]. apply bind_ok in Hf. destruct Hf as [v' [Hv Hf]].
    injection Hf as -> ->. apply is_true_iff in Ht. subst. auto.
  - intros [Hin Hc]. destruct (mapM_ok_all _ _ _ Hl _ Hin) as [[r0 v] [Hf Hy]].
    rewrite Hc in Hf. simpl in Hf. injection Hf as <- <-. exists (r, VBool true). split; [reflexivity|].
    apply filter_In. auto.
Qed.

(* false and null conditions drop the datapoint *)
Lemma d_filter_drops d c d' r v :
  d_filter d c = Ok d' -> In r (d_rows d) -> ceval (row_env d r) c = Ok v -> v <> VBool true ->
  uniq_keys (d_rows d) = true -> ~ In r (d_rows d').
Proof.
  intros H Hin Hc Hv _ Hin'. destruct (d_filter_spec _ _ _ H) as [_ [_ Hs]]. apply Hs in Hin'. destruct Hin' as [_ Hc'].
  congruence.
Qed.

Lemma d_filter_error_iff d c :
  (exists e, d_filter d c = Err e) <-> exists r e, In r (d_rows d) /\ ceval (row_env d r) c = Err e.
Proof.
  unfold d_filter. split.
  - intros [e H]. apply bind_err in H. destruct H as [H|[l [_ H]]]; [|discriminate].
    apply mapM_err_some in H. destruct H as [r [Hr Hf]]. apply bind_err in Hf. destruct Hf as [Hf|[v [_ Hf]]]; [|discriminate].
    eauto.
  - intros [r [e [Hr Hc]]].
    destruct (mapM_some_err (fun r => bind (ceval (row_env d r) c) (fun v => Ok (r, v))) (d_rows d) r e Hr) as [c' Hc'].
    + rewrite Hc. reflexivity.
    + exists c'. rewrite Hc'. reflexivity.
Qed.

(* =============================================================== keep / drop / rename / sub (C02) *)
Lemma combine_split_id {A B} (l : list (A * B)) : combine (map fst l) (map snd l) = l.
Proof. induction l as [|[a b] t IH]; simpl; congruence. Qed.

Lemma filter_combine_names (f : string -> bool) ms (vals : list val) :
  List.length ms = List.length vals ->
  combine (filter f ms) (select_by ms f vals) = filter (fun p => f (fst p)) (combine ms vals).
Proof.
  unfold select_by. revert vals. induction ms as [|m t IH]; intros [|v vs] Hl; simpl in *; try discriminate; auto.
  injection Hl as Hl. destruct (f m); simpl; rewrite IH by exact Hl; reflexivity.
Qed.

Lemma elook_filter (f : string -> bool) n (e : env) :
  elook n (filter (fun p => f (fst p)) e) = if f n then elook n e else None.
Proof.
  induction e as [|[k v] t IH]; simpl; [destruct (f n); reflexivity|].
  destruct (f k) eqn:Fk; simpl.
  - destruct (String.eqb n k) eqn:E; [apply String.eqb_eq in E; subst; rewrite Fk; reflexivity | exact IH].
  - destruct (String.eqb n k) eqn:E; [apply String.eqb_eq in E; subst; rewrite Fk in *; rewrite IH; reflexivity | exact IH].
Qed.

(* keep/drop touch only the listed components: a retained component keeps its value in every datapoint, a removed
   one is gone, identifiers and the set of datapoints are unchanged *)
Lemma d_project_frame d f :
  d_ids (d_project d f) = d_ids d /\
  map fst (d_rows (d_project d f)) = map fst (d_rows d) /\
  forall r, In r (d_rows d) -> List.length (d_ms d) = List.length (snd r) ->
    forall n, elook n (combine (d_ms (d_project d f)) (select_by (d_ms d) f (snd r))) =
              if f n then elook n (combine (d_ms d) (snd r)) else None.
Proof.
  unfold d_project. simpl. split; [reflexivity|]. split; [rewrite map_map; reflexivity|].
  intros r _ Hl n. rewrite filter_combine_names by exact Hl. apply elook_filter.
Qed.

Lemma d_rename_frame d l : d_rows (d_rename d l) = d_rows d /\
  d_ids (d_rename d l) = map (ren l) (d_ids d) /\ d_ms (d_rename d l) = map (ren l) (d_ms d).
Proof. unfold d_rename. simpl. auto. Qed.

Lemma ren_untouched l n : ~ In n (map fst l) -> ren l n = n.
Proof.
  induction l as [|[o nw] t IH]; simpl; auto. intros H. destruct (String.eqb n o) eqn:E.
  - apply String.eqb_eq in E. subst. exfalso. auto.
  - apply IH. auto.
Qed.

Lemma d_sub_spec d fixed r' :
  In r' (d_rows (d_sub d fixed)) <->
  exists r, In r (d_rows d) /\ sub_match (d_ids d) fixed (fst r) = true /\
            r' = (select_by (d_ids d) (fun n => negb (mem_s n (map fst fixed))) (fst r), snd r).
Proof.
  unfold d_sub. simpl. rewrite in_map_iff. split.
  - intros [r [<- Hin]]. apply filter_In in Hin. exists r. tauto.
  - intros [r [Hin [Hm ->]]]. exists r. split; [reflexivity|]. apply filter_In. auto.
Qed.

(* =============================================================== dataset-level element-wise operators (C01) *)
Lemma d_map_spec d body d' :
  d_map d body = Ok d' ->
  d_ids d' = d_ids d /\ d_ms d' = d_ms d /\
  Forall2 (fun r r' => fst r' = fst r /\ Forall2 (fun v v' => ceval [(HOLE, v)] body = Ok v') (snd r) (snd r'))
          (d_rows d) (d_rows d').
Proof.
  unfold d_map. intros H. apply bind_ok in H. destruct H as [rows [Hr H]]. injection H as <-. simpl.
  split; [reflexivity|]. split; [reflexivity|].
  apply mapM_ok_iff in Hr. induction Hr as [|r r' l l' Hrr _ IH]; constructor; auto.
  apply bind_ok in Hrr. destruct Hrr as [ms [Hms Hrr]]. injection Hrr as <-. simpl. split; [reflexivity|].
  apply mapM_ok_iff. exact Hms.
Qed.

Lemma find_key_spec k rows r :
  uniq_keys rows = true -> (find_key k rows = Some r <-> In r rows /\ key_eqb k (fst r) = true).
Proof.
  intros Hu. unfold find_key. split.
  - intros H. apply find_some in H. exact H.
  - intros [Hin He]. induction rows as [|x t IH]; simpl in *; [tauto|].
    apply andb_true_iff in Hu. destruct Hu as [Hn Hu]. rewrite negb_true_iff in Hn.
    destruct Hin as [->|Hin]; [rewrite He; reflexivity|].
    destruct (key_eqb k (fst x)) eqn:E; [|apply IH; auto].
    exfalso. assert (has_key (fst x) t = true); [|congruence].
    apply has_key_In. exists r. split; auto. rewrite key_eqb_sym in E. eapply key_eqb_trans; eauto.
Qed.

Lemma find_key_none k rows : find_key k rows = None <-> has_key k rows = false.
Proof.
  unfold find_key, has_key. induction rows as [|x t IH]; simpl; [tauto|].
  destruct (key_eqb k (fst x)); simpl; [split; discriminate | exact IH].
Qed.

Lemma flat_some_In {A} (l : list (option A)) x :
  In x (flat_map (fun o => match o with Some r => [r] | None => [] end) l) <-> In (Some x) l.
Proof.
  induction l as [|[a|] t IH]; simpl.
  - tauto.
  - split; intros [H|H]; [left; congruence | right; apply IH; exact H | left; congruence | right; apply IH; exact H].
  - split; [intros H; right; apply IH; exact H | intros [H|H]; [discriminate | apply IH; exact H]].
Qed.

(* dataset ∘ dataset, the left operand carrying all identifiers: the result contains exactly one datapoint for each
   datapoint of A whose identifiers (projected on B's) have a partner in B — the operator applied per measure — and
   nothing else; datapoints without partner are absent *)
Lemma d_binop_matches_left op a b res :
  subset_s (d_ids b) (d_ids a) = true -> uniq_keys (d_rows b) = true ->
  d_binop op a b = Ok res ->
  d_ids res = d_ids a /\ d_ms res = d_ms a /\
  forall r, In r (d_rows res) <->
    exists ra rb k ms, In ra (d_rows a) /\ In rb (d_rows b) /\
      proj_key (d_ids a) (fst ra) (d_ids b) = Some k /\ key_eqb k (fst rb) = true /\
      pair_measures op (d_ms a) (snd ra) (d_ms b) (snd rb) = Ok ms /\ r = (fst ra, ms).
Proof.
  intros Hsub Hu. unfold d_binop. destruct (negb _); [discriminate|]. rewrite Hsub.
  intros H. apply bind_ok in H. destruct H as [l [Hl H]]. injection H as <-. simpl.
  split; [reflexivity|]. split; [reflexivity|]. intros r. rewrite flat_some_In. split.
  - intros Hin. destruct (mapM_ok_inv _ _ _ Hl _ Hin) as [ra [Hra Hf]].
    destruct (proj_key (d_ids a) (fst ra) (d_ids b)) as [k|] eqn:Ek; [|discriminate].
    destruct (find_key k (d_rows b)) as [rb|] eqn:Ef; [|discriminate].
    apply bind_ok in Hf. destruct Hf as [ms [Hms Hf]]. injection Hf as <-.
    apply (find_key_spec _ _ _ Hu) in Ef. destruct Ef as [Hrb He].
    exists ra, rb, k, ms. repeat split; auto.
  - intros [ra [rb [k [ms [Hra [Hrb [Ek [He [Hms ->]]]]]]]]].
    destruct (mapM_ok_all _ _ _ Hl _ Hra) as [y [Hf Hy]]. rewrite Ek in Hf.
    assert (find_key k (d_rows b) = Some rb) as Ef by (apply find_key_spec; auto).
    rewrite Ef, Hms in Hf. simpl in Hf. injection Hf as <-. exact Hy.
Qed.

(* a datapoint of A without partner in B contributes nothing *)
Lemma d_binop_unmatched_absent op a b res ra k :
  subset_s (d_ids b) (d_ids a) = true -> uniq_keys (d_rows b) = true -> uniq_keys (d_rows a) = true ->
  d_binop op a b = Ok res -> In ra (d_rows a) ->
  proj_key (d_ids a) (fst ra) (d_ids b) = Some k -> has_key k (d_rows b) = false ->
  has_key (fst ra) (d_rows res) = false.
Proof.
  intros Hsub Hub Hua H Hra Ek Hn.
  destruct (d_binop_matches_left _ _ _ _ Hsub Hub H) as [_ [_ Hs]].
  apply has_key_false. intros r Hr. apply Hs in Hr.
  destruct Hr as [ra' [rb [k' [ms [Hra' [Hrb [Ek' [He [_ ->]]]]]]]]]. simpl.
  destruct (key_eqb (fst ra) (fst ra')) eqn:E; auto. exfalso.
  assert (ra = ra') by (eapply uniq_keys_same_row; eauto). subst ra'.
  rewrite Ek in Ek'. injection Ek' as <-.
  assert (has_key k (d_rows b) = true) by (apply has_key_In; eauto). congruence.
Qed.

(* a zero divisor in some matched pair makes the whole operation an error — never a value *)
Lemma d_binop_error_if_pair_fails op a b ra rb k c :
  subset_s (d_ids b) (d_ids a) = true -> uniq_keys (d_rows b) = true ->
  In ra (d_rows a) -> In rb (d_rows b) ->
  proj_key (d_ids a) (fst ra) (d_ids b) = Some k -> key_eqb k (fst rb) = true ->
  pair_measures op (d_ms a) (snd ra) (d_ms b) (snd rb) = Err c ->
  forall res, d_binop op a b <> Ok res.
Proof.
  intros Hsub Hu Hra Hrb Ek He Hp res H.
  destruct (d_binop_matches_left _ _ _ _ Hsub Hu H) as [_ [_ Hs]].
  revert H. unfold d_binop. destruct (negb _); [discriminate|]. rewrite Hsub. intros H.
  apply bind_ok in H. destruct H as [l [Hl _]].
  destruct (mapM_ok_all _ _ _ Hl _ Hra) as [y [Hf _]]. rewrite Ek in Hf.
  assert (find_key k (d_rows b) = Some rb) as Ef by (apply find_key_spec; auto).
  rewrite Ef, Hp in Hf. discriminate.
Qed.

(* =============================================================== calc (C02) *)
Lemma index_of_none_mem n ms : index_of n ms = None <-> mem_s n ms = false.
Proof.
  unfold mem_s. induction ms as [|h t IH]; simpl; [tauto|].
  destruct (String.eqb n h); simpl; [split; discriminate|].
  destruct (index_of n t); simpl; [split; [discriminate | intros H; apply IH in H; discriminate] | tauto].
Qed.

Lemma elook_none_of_index n ms (vals : list val) : index_of n ms = None -> elook n (combine ms vals) = None.
Proof.
  revert vals. induction ms as [|h t IH]; intros vals; simpl; auto.
  destruct (String.eqb n h) eqn:E; [discriminate|]. destruct (index_of n t) eqn:Ei; [discriminate|].
  intros _. destruct vals; simpl; auto. rewrite E. apply IH. reflexivity.
Qed.

Lemma elook_set_nth n i ms (vals : list val) v n' :
  index_of n ms = Some i -> List.length ms = List.length vals ->
  elook n' (combine ms (set_nth i v vals)) = if String.eqb n' n then Some v else elook n' (combine ms vals).
Proof.
  revert i vals. induction ms as [|h t IH]; intros i vals Hi Hl; simpl in *; [discriminate|].
  destruct vals as [|x xs]; simpl in *; [discriminate|]. injection Hl as Hl.
  destruct (String.eqb n h) eqn:E.
  - injection Hi as <-. simpl. apply String.eqb_eq in E. subst h.
    destruct (String.eqb n' n); reflexivity.
  - destruct (index_of n t) as [j|] eqn:Ej; [|discriminate]. injection Hi as <-. simpl.
    destruct (String.eqb n' h) eqn:E'.
    + apply String.eqb_eq in E'. subst h. destruct (String.eqb n' n) eqn:E2; auto.
      apply String.eqb_eq in E2. subst. rewrite String.eqb_refl in E. discriminate.
    + apply IH; auto.
Qed.

Lemma elook_app_new n ms (vals : list val) v n' :
  index_of n ms = None -> List.length ms = List.length vals ->
  elook n' (combine (ms ++ [n]) (vals ++ [v])) = if String.eqb n' n then Some v else elook n' (combine ms vals).
Proof.
  revert vals. induction ms as [|h t IH]; intros vals Hi Hl; simpl in *.
  - destruct vals; [|discriminate]. simpl. destruct (String.eqb n' n); reflexivity.
  - destruct vals as [|x xs]; simpl in *; [discriminate|]. injection Hl as Hl.
    destruct (String.eqb n h) eqn:E; [discriminate|]. destruct (index_of n t) eqn:Ei; [discriminate|].
    destruct (String.eqb n' h) eqn:E'.
    + apply String.eqb_eq in E'. subst h. destruct (String.eqb n' n) eqn:E2; auto.
      apply String.eqb_eq in E2. subst. rewrite String.eqb_refl in E. discriminate.
    + apply IH; auto.
Qed.

Lemma set_nth_length {A} i (x : A) l : List.length (set_nth i x l) = List.length l.
Proof. revert i. induction l as [|h t IH]; intros [|i]; simpl; auto. Qed.

Lemma calc_put_spec ms vals n v :
  List.length ms = List.length vals ->
  let r := calc_put ms vals n v in
  List.length (fst r) = List.length (snd r) /\
  fst r = (if mem_s n ms then ms else ms ++ [n]) /\
  forall n', elook n' (combine (fst r) (snd r)) = if String.eqb n' n then Some v else elook n' (combine ms vals).
Proof.
  intros Hl. unfold calc_put. destruct (index_of n ms) as [i|] eqn:Ei; simpl.
  - split; [rewrite set_nth_length; exact Hl|]. split.
    + destruct (mem_s n ms) eqn:Em; auto. apply index_of_none_mem in Em. congruence.
    + intros n'. apply elook_set_nth; auto.
  - split; [rewrite !app_length; simpl; congruence|]. split.
    + apply index_of_none_mem in Ei. rewrite Ei. reflexivity.
    + intros n'. apply elook_app_new; auto.
Qed.

(* the value finally bound to a name by a list of definitions: the LAST definition of that name, if any *)
Definition last_def (n : string) (nv : list (string * val)) : option val :=
  fold_left (fun acc p => if String.eqb n (fst p) then Some (snd p) else acc) nv None.

Lemma calc_fold_spec nv : forall ms vals,
  List.length ms = List.length vals ->
  let r := fold_left (fun acc p => calc_put (fst acc) (snd acc) (fst p) (snd p)) nv (ms, vals) in
  List.length (fst r) = List.length (snd r) /\
  fst r = fold_left (fun acc n => if mem_s n acc then acc else acc ++ [n]) (map fst nv) ms /\
  forall n', elook n' (combine (fst r) (snd r)) =
             match fold_left (fun acc p => if String.eqb n' (fst p) then Some (snd p) else acc) nv None with
             | Some v => Some v
             | None => elook n' (combine ms vals)
             end.
Proof.
  induction nv as [|[n v] t IH]; intros ms vals Hl; simpl.
  - auto.
  - destruct (calc_put_spec ms vals n v Hl) as [Hl' [Hn Hlook]].
    destruct (calc_put ms vals n v) as [ms' vals'] eqn:Ecp. simpl in *.
    destruct (IH ms' vals' Hl') as [H1 [H2 H3]]. split; [exact H1|]. split; [rewrite H2, Hn; reflexivity|].
    intros n'. rewrite H3, Hlook.
    (* generalise the accumulator of the inner fold *)
    assert (forall acc0,
      match fold_left (fun acc p => if String.eqb n' (fst p) then Some (snd p) else acc) t acc0 with
      | Some x => Some x | None => if String.eqb n' n then Some v else elook n' (combine ms vals) end =
      match fold_left (fun acc p => if String.eqb n' (fst p) then Some (snd p) else acc) t
              (match acc0 with Some x => Some x | None => if String.eqb n' n then Some v else None end) with
      | Some x => Some x | None => elook n' (combine ms vals) end) as G.
    { clear. induction t as [|[k w] t IHt]; intros acc0; simpl.
      - destruct acc0; auto. destruct (String.eqb n' n); auto.
      - destruct (String.eqb n' k); [apply (IHt (Some w)) | apply IHt]. }
    specialize (G None). simpl in G. rewrite G. reflexivity.
Qed.

Lemma calc_names_fold ms (defs : list (string * cexpr)) :
  calc_names ms defs = fold_left (fun acc n => if mem_s n acc then acc else acc ++ [n]) (map fst defs) ms.
Proof. unfold calc_names. revert ms. induction defs as [|d t IH]; intros ms; simpl; auto. Qed.

(* calc frame: identifiers and the datapoint are kept; every component NOT named by the clause keeps its value; every
   named component holds the value of (the last definition of) its expression evaluated on the INPUT datapoint *)
Lemma calc_row_spec d defs r r' :
  List.length (d_ms d) = List.length (snd r) ->
  calc_row d defs r = Ok r' ->
  fst r' = fst r /\
  exists nv, Forall2 (fun df p => fst p = fst df /\ ceval (row_env d r) (snd df) = Ok (snd p)) defs nv /\
    forall n, elook n (combine (calc_names (d_ms d) defs) (snd r')) =
              match last_def n nv with Some v => Some v | None => elook n (combine (d_ms d) (snd r)) end.
Proof.
  intros Hl H. unfold calc_row in H. apply bind_ok in H. destruct H as [nv [Hnv H]]. injection H as <-. simpl.
  split; [reflexivity|]. exists nv. split.
  - apply mapM_ok_iff in Hnv. clear -Hnv. induction Hnv as [|df p l l' Hp _ IH]; constructor; auto.
    apply bind_ok in Hp. destruct Hp as [v [Hv Hp]]. injection Hp as <-. simpl. auto.
  - intros n. destruct (calc_fold_spec nv (d_ms d) (snd r) Hl) as [_ [Hn Hlook]].
    assert (map fst nv = map fst defs) as Hmap.
    { apply mapM_ok_iff in Hnv. clear -Hnv. induction Hnv as [|df p l l' Hp _ IH]; simpl; auto.
      apply bind_ok in Hp. destruct Hp as [v [_ Hp]]. injection Hp as <-. simpl. congruence. }
    rewrite calc_names_fold, <- Hmap, <- Hn. apply Hlook.
Qed.

Lemma d_calc_spec d defs d' :
  d_calc d defs = Ok d' ->
  d_ids d' = d_ids d /\ d_ms d' = calc_names (d_ms d) defs /\
  Forall2 (fun r r' => calc_row d defs r = Ok r') (d_rows d) (d_rows d') /\
  map fst (d_rows d') = map fst (d_rows d).
Proof.
  unfold d_calc. destruct (existsb _ defs); [discriminate|]. intros H.
  apply bind_ok in H. destruct H as [rows [Hr H]]. injection H as <-. simpl.
  split; [reflexivity|]. split; [reflexivity|]. apply mapM_ok_iff in Hr. split; [exact Hr|].
  induction Hr as [|r r' l l' Hrr _ IH]; simpl; auto. f_equal; auto.
  unfold calc_row in Hrr. apply bind_ok in Hrr. destruct Hrr as [nv [_ Hrr]]. injection Hrr as <-. reflexivity.
Qed.

(* =============================================================== order independence (C33 / C15) *)
Lemma d_filter_perm d c rows' d1 :
  Permutation (d_rows d) rows' -> d_filter d c = Ok d1 ->
  exists d2, d_filter (mkD (d_ids d) (d_ms d) rows') c = Ok d2 /\ Permutation (d_rows d1) (d_rows d2).
Proof.
  intros P H. unfold d_filter in *. apply bind_ok in H. destruct H as [l [Hl H]]. injection H as <-. simpl.
  assert (forall r, row_env (mkD (d_ids d) (d_ms d) rows') r = row_env d r) as Henv by reflexivity.
  destruct (mapM_perm _ _ _ _ P Hl) as [l' [Hl' Pl]].
  exists (mkD (d_ids d) (d_ms d) (map fst (filter (fun p => is_true (snd p)) l'))). split.
  - erewrite (mapM_ext_res _ _ rows'); [rewrite Hl'; reflexivity|]. intros r. reflexivity.
  - simpl. apply Permutation_map. apply Permutation_filter. exact Pl.
Qed.

Lemma d_map_perm d body rows' d1 :
  Permutation (d_rows d) rows' -> d_map d body = Ok d1 ->
  exists d2, d_map (mkD (d_ids d) (d_ms d) rows') body = Ok d2 /\ Permutation (d_rows d1) (d_rows d2).
Proof.
  intros P H. unfold d_map in *. apply bind_ok in H. destruct H as [l [Hl H]]. injection H as <-. simpl.
  destruct (mapM_perm _ _ _ _ P Hl) as [l' [Hl' Pl]].
  exists (mkD (d_ids d) (d_ms d) l'). rewrite Hl'. simpl. auto.
Qed.

Lemma d_calc_perm d defs rows' d1 :
  Permutation (d_rows d) rows' -> d_calc d defs = Ok d1 ->
  exists d2, d_calc (mkD (d_ids d) (d_ms d) rows') defs = Ok d2 /\ Permutation (d_rows d1) (d_rows d2).
Proof.
  intros P H. unfold d_calc in *. simpl. destruct (existsb _ defs); [discriminate|].
  apply bind_ok in H. destruct H as [l [Hl H]]. injection H as <-. simpl.
  destruct (mapM_perm _ _ _ _ P Hl) as [l' [Hl' Pl]].
  exists (mkD (d_ids d) (calc_names (d_ms d) defs) l'). split; [|exact Pl].
  erewrite (mapM_ext_res _ (calc_row d defs)); [rewrite Hl'; reflexivity|]. intros r. reflexivity.
Qed.

Lemma d_project_perm d f rows' :
  Permutation (d_rows d) rows' ->
  Permutation (d_rows (d_project d f)) (d_rows (d_project (mkD (d_ids d) (d_ms d) rows') f)).
Proof. intros P. unfold d_project. simpl. apply Permutation_map. exact P. Qed.

Lemma d_sub_perm d fixed rows' :
  Permutation (d_rows d) rows' ->
  Permutation (d_rows (d_sub d fixed)) (d_rows (d_sub (mkD (d_ids d) (d_ms d) rows') fixed)).
Proof. intros P. unfold d_sub. simpl. apply Permutation_map. apply Permutation_filter. exact P. Qed.

Lemma find_key_perm k rows rows' :
  uniq_keys rows = true -> Permutation rows rows' -> find_key k rows' = find_key k rows.
Proof.
  intros Hu P. assert (uniq_keys rows' = true) as Hu' by (rewrite <- (uniq_keys_perm _ _ P); exact Hu).
  destruct (find_key k rows) as [r|] eqn:E.
  - apply (find_key_spec _ _ _ Hu) in E. destruct E as [Hin He].
    apply (find_key_spec _ _ _ Hu'). split; [eapply Permutation_in; eauto | exact He].
  - apply find_key_none in E. apply find_key_none. rewrite <- (has_key_perm _ _ _ P). exact E.
Qed.

Lemma flat_some_perm {A} (l l' : list (option A)) :
  Permutation l l' ->
  Permutation (flat_map (fun o => match o with Some r => [r] | None => [] end) l)
              (flat_map (fun o => match o with Some r => [r] | None => [] end) l').
Proof.
  intros P. induction P as [|x l l' P IH|x y l|l1 l2 l3 P1 IH1 P2 IH2]; simpl; auto.
  - apply Permutation_app_head. exact IH.
  - destruct x, y; simpl; auto. apply perm_swap.
  - eapply perm_trans; eauto.
Qed.

(* dataset ∘ dataset does not depend on the order of the datapoints of either operand *)
Lemma d_binop_perm_left op a b rows_a rows_b res :
  subset_s (d_ids b) (d_ids a) = true -> uniq_keys (d_rows b) = true ->
  Permutation (d_rows a) rows_a -> Permutation (d_rows b) rows_b ->
  d_binop op a b = Ok res ->
  exists res', d_binop op (mkD (d_ids a) (d_ms a) rows_a) (mkD (d_ids b) (d_ms b) rows_b) = Ok res' /\
               Permutation (d_rows res) (d_rows res').
Proof.
  intros Hsub Hu Pa Pb. unfold d_binop. simpl. destruct (negb _); [discriminate|]. rewrite Hsub.
  intros H. apply bind_ok in H. destruct H as [l [Hl H]]. injection H as <-. simpl.
  destruct (mapM_perm _ _ _ _ Pa Hl) as [l' [Hl' Pl]].
  exists (mkD (d_ids a) (d_ms a) (flat_map (fun o => match o with Some r => [r] | None => [] end) l')). split.
  - erewrite mapM_ext_res; [rewrite Hl'; reflexivity|]. intros r. simpl.
    destruct (proj_key (d_ids a) (fst r) (d_ids b)); auto. rewrite (find_key_perm _ _ _ Hu Pb). reflexivity.
  - simpl. apply flat_some_perm. exact Pl.
Qed.
