From Coq Require Import ZArith QArith String List Bool Permutation.
Import ListNotations.
From VTL Require Import Base.Val Model.Table Model.Scalar Model.SetOps Model.Expr Proofs.TableP Proofs.MonadP Proofs.SetOpsP.
Open Scope string_scope.
Open Scope list_scope.

(* =============================================================== value level (C01) *)

(* strict operators propagate null *)
Lemma arith_null_l op v : (exists z, v = VInt z) \/ (exists q, v = VNum q) \/ v = VNull ->
  op <> Div -> arith op VNull v = Ok VNull.
Proof. intros [[z ->]|[[q ->]| ->]] Hop; destruct op; simpl; auto; congruence. Qed.

Lemma arith_null_r op v : (exists z, v = VInt z) \/ (exists q, v = VNum q) \/ v = VNull ->
  arith op v VNull = Ok VNull.
Proof. intros [[z ->]|[[q ->]| ->]]; destruct op; simpl; auto. Qed.

Lemma compare_null_l op v : In op [Eq; Neq; Gt; Ge; Lt; Le] -> compare_op op VNull v = Ok VNull.
Proof. intros _. reflexivity. Qed.
Lemma compare_null_r op v : In op [Eq; Neq; Gt; Ge; Lt; Le] -> compare_op op v VNull = Ok VNull.
Proof. intros _. unfold compare_op. rewrite orb_true_r. reflexivity. Qed.

Lemma concat_null v : concat_op VNull v = Ok VNull /\ concat_op v VNull = Ok VNull.
Proof. unfold concat_op. simpl. rewrite orb_true_r. auto. Qed.

Lemma between_null a lo hi : is_null a = true \/ is_null lo = true \/ is_null hi = true -> between_val a lo hi = Ok VNull.
Proof. unfold between_val. intros [->|[->| ->]]; simpl; rewrite ?orb_true_r; reflexivity. Qed.

(* three-valued logic: the complete truth tables *)
Lemma kleene_and_table :
  k_and (Some true) (Some true) = Some true /\ k_and (Some true) (Some false) = Some false /\ k_and (Some true) None = None /\
  k_and (Some false) (Some true) = Some false /\ k_and (Some false) (Some false) = Some false /\ k_and (Some false) None = Some false /\
  k_and None (Some true) = None /\ k_and None (Some false) = Some false /\ k_and None None = None.
Proof. repeat split. Qed.
Lemma kleene_or_table :
  k_or (Some true) (Some true) = Some true /\ k_or (Some true) (Some false) = Some true /\ k_or (Some true) None = Some true /\
  k_or (Some false) (Some true) = Some true /\ k_or (Some false) (Some false) = Some false /\ k_or (Some false) None = None /\
  k_or None (Some true) = Some true /\ k_or None (Some false) = None /\ k_or None None = None.
Proof. repeat split. Qed.
Lemma kleene_xor_null a : k_xor None a = None /\ k_xor a None = None.
Proof. destruct a as [[]|]; auto. Qed.
Lemma kleene_not_table : k_not (Some true) = Some false /\ k_not (Some false) = Some true /\ k_not None = None.
Proof. repeat split. Qed.
(* the engine's XOR template (a AND NOT b) OR (NOT a AND b) is the Kleene xor *)
Lemma xor_template_is_kleene a b : k_or (k_and a (k_not b)) (k_and (k_not a) b) = k_xor a b.
Proof. destruct a as [[]|], b as [[]|]; reflexivity. Qed.

(* division by zero is an error, never a value *)
Lemma div_zero_is_error a : (exists z, a = VInt z) \/ (exists q, a = VNum q) \/ a = VNull ->
  arith Div a (VInt 0) = Err ERR_DIV0 /\ forall q, q_is_zero q = true -> arith Div a (VNum q) = Err ERR_DIV0.
Proof.
  intros [[z ->]|[[q ->]| ->]]; split; try reflexivity; intros q0 Hq; simpl; rewrite ?Hq; reflexivity.
Qed.

(* =============================================================== filter (C02) *)
Lemma is_true_iff v : is_true v = true <-> v = VBool true.
Proof. destruct v as [| | | |[]]; simpl; split; congruence. Qed.

Lemma d_filter_spec d c d' :
  d_filter d c = Ok d' ->
  d_ids d' = d_ids d /\ d_ms d' = d_ms d /\
  forall r, In r (d_rows d') <-> In r (d_rows d) /\ ceval (row_env d r) c = Ok (VBool true).
Proof.
  unfold d_filter. intros H. apply bind_ok in H. destruct H as [l [Hl H]]. injection H as <-. simpl.
  split; [reflexivity|]. split; [reflexivity|]. intros r. rewrite in_map_iff. split.
  - intros [[r0 v] [<- Hin]]. apply filter_In in Hin. destruct Hin as [Hin Ht]. simpl in *.
    destruct (mapM_ok_inv _ _ _ Hl _ Hin) as [x [Hx Hf]]. apply bind_ok in Hf. destruct Hf as [v' [Hv Hf]].
    injection Hf as -> ->. apply is_true_iff in Ht. subst. auto.
  - intros [Hin Hc]. destruct (mapM_ok_all _ _ _ Hl _ Hin) as [[r0 v] [Hf Hy]].
    rewrite Hc in Hf. simpl in Hf. injection Hf as <- <-. exists (r, VBool true). split; [reflexivity|].
    apply filter_In. auto.
Qed.

(* false and null conditions drop the datapoint *)
Lemma d_filter_drops d c d' r v :
  d_filter d c = Ok d' -> In r (d_rows d) -> ceval (row_env d r) c = Ok v -> v <> VBool true ->
  uniq_keys (d_rows d) = true -> ~ In r (d_rows d').
Proof.
  intros H Hin Hc Hv _ Hin'. destruct (d_filter_spec _ _ _ H) as [_ [_ Hs]]. apply Hs in Hin'. destruct Hin' as [_ Hc'].
  congruence.
Qed.

Lemma d_filter_error_iff d c :
  (exists e, d_filter d c = Err e) <-> exists r e, In r (d_rows d) /\ ceval (row_env d r) c = Err e.
Proof.
  unfold d_filter. split.
  - intros [e H]. apply bind_err in H. destruct H as [H|[l [_ H]]]; [|discriminate].
    apply mapM_err_some in H. destruct H as [r [Hr Hf]]. apply bind_err in Hf. destruct Hf as [Hf|[v [_ Hf]]]; [|discriminate].
    eauto.
  - intros [r [e [Hr Hc]]].
    destruct (mapM_some_err (fun r => bind (ceval (row_env d r) c) (fun v => Ok (r, v))) (d_rows d) r e Hr) as [c' Hc'].
    + rewrite Hc. reflexivity.
    + exists c'. rewrite Hc'. reflexivity.
Qed.

(* =============================================================== keep / drop / rename / sub (C02) *)
Lemma combine_split_id {A B} (l : list (A * B)) : combine (map fst l) (map snd l) = l.
Proof. induction l as [|[a b] t IH]; simpl; congruence. Qed.

Lemma filter_combine_names (f : string -> bool) ms (vals : list val) :
  List.length ms = List.length vals ->
  combine (filter f ms) (select_by ms f vals) = filter (fun p => f (fst p)) (combine ms vals).
Proof.
  unfold select_by. revert vals. induction ms as [|m t IH]; intros [|v vs] Hl; simpl in *; try discriminate; auto.
  injection Hl as Hl. destruct (f m); simpl; rewrite IH by exact Hl; reflexivity.
Qed.

Lemma elook_filter (f : string -> bool) n (e : env) :
  elook n (filter (fun p => f (fst p)) e) = if f n then elook n e else None.
Proof.
  induction e as [|[k v] t IH]; simpl; [destruct (f n); reflexivity|].
  destruct (f k) eqn:Fk; simpl.
  - destruct (String.eqb n k) eqn:E; [apply String.eqb_eq in E; subst; rewrite Fk; reflexivity | exact IH].
  - destruct (String.eqb n k) eqn:E; [apply String.eqb_eq in E; subst; rewrite Fk in *; rewrite IH; reflexivity | exact IH].
Qed.

(* keep/drop touch only the listed components: a retained component keeps its value in every datapoint, a removed
   one is gone, identifiers and the set of datapoints are unchanged *)
Lemma d_project_frame d f :
  d_ids (d_project d f) = d_ids d /\
  map fst (d_rows (d_project d f)) = map fst (d_rows d) /\
  forall r, In r (d_rows d) -> List.length (d_ms d) = List.length (snd r) ->
    forall n, elook n (combine (d_ms (d_project d f)) (select_by (d_ms d) f (snd r))) =
              if f n then elook n (combine (d_ms d) (snd r)) else None.
Proof.
  unfold d_project. simpl. split; [reflexivity|]. split; [rewrite map_map; reflexivity|].
  intros r _ Hl n. rewrite filter_combine_names by exact Hl. apply elook_filter.
Qed.

Lemma d_rename_frame d l : d_rows (d_rename d l) = d_rows d /\
  d_ids (d_rename d l) = map (ren l) (d_ids d) /\ d_ms (d_rename d l) = map (ren l) (d_ms d).
Proof. unfold d_rename. simpl. auto. Qed.

Lemma ren_untouched l n : ~ In n (map fst l) -> ren l n = n.
Proof.
  induction l as [|[o nw] t IH]; simpl; auto. intros H. destruct (String.eqb n o) eqn:E.
  - apply String.eqb_eq in E. subst. exfalso. auto.
  - apply IH. auto.
Qed.

Lemma d_sub_spec d fixed r' :
  In r' (d_rows (d_sub d fixed)) <->
  exists r, In r (d_rows d) /\ sub_match (d_ids d) fixed (fst r) = true /\
            r' = (select_by (d_ids d) (fun n => negb (mem_s n (map fst fixed))) (fst r), snd r).
Proof.
  unfold d_sub. simpl. rewrite in_map_iff. split.
  - intros [r [<- Hin]]. apply filter_In in Hin. exists r. tauto.
  - intros [r [Hin [Hm ->]]]. exists r. split; [reflexivity|]. apply filter_In. auto.
Qed.

(* =============================================================== dataset-level element-wise operators (C01) *)
Lemma d_map_spec d body d' :
  d_map d body = Ok d' ->
  d_ids d' = d_ids d /\ d_ms d' = d_ms d /\
  Forall2 (fun r r' => fst r' = fst r /\ Forall2 (fun v v' => ceval [(HOLE, v)] body = Ok v') (snd r) (snd r'))
          (d_rows d) (d_rows d').
Proof.
  unfold d_map. intros H. apply bind_ok in H. destruct H as [rows [Hr H]]. injection H as <-. simpl.
  split; [reflexivity|]. split; [reflexivity|].
  apply mapM_ok_iff in Hr. induction Hr as [|r r' l l' Hrr _ IH]; constructor; auto.
  apply bind_ok in Hrr. destruct Hrr as [ms [Hms Hrr]]. injection Hrr as <-. simpl. split; [reflexivity|].
  apply mapM_ok_iff. exact Hms.
Qed.

Lemma find_key_spec k rows r :
  uniq_keys rows = true -> (find_key k rows = Some r <-> In r rows /\ key_eqb k (fst r) = true).
Proof.
  intros Hu. unfold find_key. split.
  - intros H. apply find_some in H. exact H.
  - intros [Hin He]. induction rows as [|x t IH]; simpl in *; [tauto|].
    apply andb_true_iff in Hu. destruct Hu as [Hn Hu]. rewrite negb_true_iff in Hn.
    destruct Hin as [->|Hin]; [rewrite He; reflexivity|].
    destruct (key_eqb k (fst x)) eqn:E; [|apply IH; auto].
    exfalso. assert (has_key (fst x) t = true); [|congruence].
    apply has_key_In. exists r. split; auto. rewrite key_eqb_sym in E. eapply key_eqb_trans; eauto.
Qed.

Lemma find_key_none k rows : find_key k rows = None <-> has_key k rows = false.
Proof.
  unfold find_key, has_key. induction rows as [|x t IH]; simpl; [tauto|].
  destruct (key_eqb k (fst x)); simpl; [split; discriminate | exact IH].
Qed.

Lemma flat_some_In {A} (l : list (option A)) x :
  In x (flat_map (fun o => match o with Some r => [r] | None => [] end) l) <-> In (Some x) l.
Proof.
  induction l as [|[a|] t IH]; simpl.
  - tauto.
  - split; intros [H|H]; [left; congruence | right; apply IH; exact H | left; congruence | right; apply IH; exact H].
  - split; [intros H; right; apply IH; exact H | intros [H|H]; [discriminate | apply IH; exact H]].
Qed.

(* dataset ∘ dataset, the left operand carrying all identifiers: the result contains exactly one datapoint for each
   datapoint of A whose identifiers (projected on B's) have a partner in B — the operator applied per measure — and
   nothing else; datapoints without partner are absent *)
Lemma d_binop_matches_left op a b res :
  subset_s (d_ids b) (d_ids a) = true -> uniq_keys (d_rows b) = true ->
  d_binop op a b = Ok res ->
  d_ids res = d_ids a /\ d_ms res = d_ms a /\
  forall r, In r (d_rows res) <->
    exists ra rb k ms, In ra (d_rows a) /\ In rb (d_rows b) /\
      proj_key (d_ids a) (fst ra) (d_ids b) = Some k /\ key_eqb k (fst rb) = true /\
      pair_measures op (d_ms a) (snd ra) (d_ms b) (snd rb) = Ok ms /\ r = (fst ra, ms).
Proof.
  intros Hsub Hu. unfold d_binop. destruct (negb _); [discriminate|]. rewrite Hsub.
  intros H. apply bind_ok in H. destruct H as [l [Hl H]]. injection H as <-. simpl.
  split; [reflexivity|]. split; [reflexivity|]. intros r. rewrite flat_some_In. split.
  - intros Hin. destruct (mapM_ok_inv _ _ _ Hl _ Hin) as [ra [Hra Hf]].
    destruct (proj_key (d_ids a) (fst ra) (d_ids b)) as [k|] eqn:Ek; [|discriminate].
    destruct (find_key k (d_rows b)) as [rb|] eqn:Ef; [|discriminate].
    apply bind_ok in Hf. destruct Hf as [ms [Hms Hf]]. injection Hf as <-.
    apply (find_key_spec _ _ _ Hu) in Ef. destruct Ef as [Hrb He].
    exists ra, rb, k, ms. repeat split; auto.
  - intros [ra [rb [k [ms [Hra [Hrb [Ek [He [Hms ->]]]]]]]]].
    destruct (mapM_ok_all _ _ _ Hl _ Hra) as [y [Hf Hy]]. rewrite Ek in Hf.
    assert (find_key k (d_rows b) = Some rb) as Ef by (apply find_key_spec; auto).
    rewrite Ef, Hms in Hf. simpl in Hf. injection Hf as <-. exact Hy.
Qed.

(* a datapoint of A without partner in B contributes nothing *)
Lemma d_binop_unmatched_absent op a b res ra k :
  subset_s (d_ids b) (d_ids a) = true -> uniq_keys (d_rows b) = true -> uniq_keys (d_rows a) = true ->
  d_binop op a b = Ok res -> In ra (d_rows a) ->
  proj_key (d_ids a) (fst ra) (d_ids b) = Some k -> has_key k (d_rows b) = false ->
  has_key (fst ra) (d_rows res) = false.
Proof.
  intros Hsub Hub Hua H Hra Ek Hn.
  destruct (d_binop_matches_left _ _ _ _ Hsub Hub H) as [_ [_ Hs]].
  apply has_key_false. intros r Hr. apply Hs in Hr.
  destruct Hr as [ra' [rb [k' [ms [Hra' [Hrb [Ek' [He [_ ->]]]]]]]]]. simpl.
  destruct (key_eqb (fst ra) (fst ra')) eqn:E; auto. exfalso.
  assert (ra = ra') by (eapply uniq_keys_same_row; eauto). subst ra'.
  rewrite Ek in Ek'. injection Ek' as <-.
  assert (has_key k (d_rows b) = true) by (apply has_key_In; eauto). congruence.
Qed.

(* a zero divisor in some matched pair makes the whole operation an error — never a value *)
Lemma d_binop_error_if_pair_fails op a b ra rb k c :
  subset_s (d_ids b) (d_ids a) = true -> uniq_keys (d_rows b) = true ->
  In ra (d_rows a) -> In rb (d_rows b) ->
  proj_key (d_ids a) (fst ra) (d_ids b) = Some k -> key_eqb k (fst rb) = true ->
  pair_measures op (d_ms a) (snd ra) (d_ms b) (snd rb) = Err c ->
  forall res, d_binop op a b <> Ok res.
Proof.
  intros Hsub Hu Hra Hrb Ek He Hp res H.
  destruct (d_binop_matches_left _ _ _ _ Hsub Hu H) as [_ [_ Hs]].
  revert H. unfold d_binop. destruct (negb _); [discriminate|]. rewrite Hsub. intros H.
  apply bind_ok in H. destruct H as [l [Hl _]].
  destruct (mapM_ok_all _ _ _ Hl _ Hra) as [y [Hf _]]. rewrite Ek in Hf.
  assert (find_key k (d_rows b) = Some rb) as Ef by (apply find_key_spec; auto).
  rewrite Ef, Hp in Hf. discriminate.
Qed.

(* =============================================================== calc (C02) *)
Lemma index_of_none_mem n ms : index_of n ms = None <-> mem_s n ms = false.
Proof.
  unfold mem_s. induction ms as [|h t IH]; simpl; [tauto|].
  destruct (String.eqb n h); simpl; [split; discriminate|].
  destruct (index_of n t); simpl; [split; [discriminate | intros H; apply IH in H; discriminate] | tauto].
Qed.

Lemma elook_none_of_index n ms (vals : list val) : index_of n ms = None -> elook n (combine ms vals) = None.
Proof.
  revert vals. induction ms as [|h t IH]; intros vals; simpl; auto.
  destruct (String.eqb n h) eqn:E; [discriminate|]. destruct (index_of n t) eqn:Ei; [discriminate|].
  intros _. destruct vals; simpl; auto. rewrite E. apply IH. reflexivity.
Qed.

Lemma elook_set_nth n i ms (vals : list val) v n' :
  index_of n ms = Some i -> List.length ms = List.length vals ->
  elook n' (combine ms (set_nth i v vals)) = if String.eqb n' n then Some v else elook n' (combine ms vals).
Proof.
  revert i vals. induction ms as [|h t IH]; intros i vals Hi Hl; simpl in *; [discriminate|].
  destruct vals as [|x xs]; simpl in *; [discriminate|]. injection Hl as Hl.
  destruct (String.eqb n h) eqn:E.
  - injection Hi as <-. simpl. apply String.eqb_eq in E. subst h.
    destruct (String.eqb n' n); reflexivity.
  - destruct (index_of n t) as [j|] eqn:Ej; [|discriminate]. injection Hi as <-. simpl.
    destruct (String.eqb n' h) eqn:E'.
    + apply String.eqb_eq in E'. subst h. destruct (String.eqb n' n) eqn:E2; auto.
      apply String.eqb_eq in E2. subst. rewrite String.eqb_refl in E. discriminate.
    + apply IH; auto.
Qed.

Lemma elook_app_new n ms (vals : list val) v n' :
  index_of n ms = None -> List.length ms = List.length vals ->
  elook n' (combine (ms ++ [n]) (vals ++ [v])) = if String.eqb n' n then Some v else elook n' (combine ms vals).
Proof.
  revert vals. induction ms as [|h t IH]; intros vals Hi Hl; simpl in *.
  - destruct vals; [|discriminate]. simpl. destruct (String.eqb n' n); reflexivity.
  - destruct vals as [|x xs]; simpl in *; [discriminate|]. injection Hl as Hl.
    destruct (String.eqb n h) eqn:E; [discriminate|]. destruct (index_of n t) eqn:Ei; [discriminate|].
    destruct (String.eqb n' h) eqn:E'.
    + apply String.eqb_eq in E'. subst h. destruct (String.eqb n' n) eqn:E2; auto.
      apply String.eqb_eq in E2. subst. rewrite String.eqb_refl in E. discriminate.
    + apply IH; auto.
Qed.

Lemma set_nth_length {A} i (x : A) l : List.length (set_nth i x l) = List.length l.
Proof. revert i. induction l as [|h t IH]; intros [|i]; simpl; auto. Qed.

Lemma calc_put_spec ms vals n v :
  List.length ms = List.length vals ->
  let r := calc_put ms vals n v in
  List.length (fst r) = List.length (snd r) /\
  fst r = (if mem_s n ms then ms else ms ++ [n]) /\
  forall n', elook n' (combine (fst r) (snd r)) = if String.eqb n' n then Some v else elook n' (combine ms vals).
Proof.
  intros Hl. unfold calc_put. destruct (index_of n ms) as [i|] eqn:Ei; simpl.
  - split; [rewrite set_nth_length; exact Hl|]. split.
    + destruct (mem_s n ms) eqn:Em; auto. apply index_of_none_mem in Em. congruence.
    + intros n'. apply elook_set_nth; auto.
  - split; [rewrite !app_length; simpl; congruence|]. split.
    + apply index_of_none_mem in Ei. rewrite Ei. reflexivity.
    + intros n'. apply elook_app_new; auto.
Qed.

(* the value finally bound to a name by a list of definitions: the LAST definition of that name, if any *)
Definition last_def (n : string) (nv : list (string * val)) : option val :=
  fold_left (fun acc p => if String.eqb n (fst p) then Some (snd p) else acc) nv None.

Lemma calc_fold_spec nv : forall ms vals,
  List.length ms = List.length vals ->
  let r := fold_left (fun acc p => calc_put (fst acc) (snd acc) (fst p) (snd p)) nv (ms, vals) in
  List.length (fst r) = List.length (snd r) /\
  fst r = fold_left (fun acc n => if mem_s n acc then acc else acc ++ [n]) (map fst nv) ms /\
  forall n', elook n' (combine (fst r) (snd r)) =
             match fold_left (fun acc p => if String.eqb n' (fst p) then Some (snd p) else acc) nv None with
             | Some v => Some v
             | None => elook n' (combine ms vals)
             end.
Proof.
  induction nv as [|[n v] t IH]; intros ms vals Hl; simpl.
  - auto.
  - destruct (calc_put_spec ms vals n v Hl) as [Hl' [Hn Hlook]].
    destruct (calc_put ms vals n v) as [ms' vals'] eqn:Ecp. simpl in *.
    destruct (IH ms' vals' Hl') as [H1 [H2 H3]]. split; [exact H1|]. split; [rewrite H2, Hn; reflexivity|].
    intros n'. rewrite H3, Hlook.
    (* generalise the accumulator of the inner fold *)
    assert (forall acc0,
      match fold_left (fun acc p => if String.eqb n' (fst p) then Some (snd p) else acc) t acc0 with
      | Some x => Some x | None => if String.eqb n' n then Some v else elook n' (combine ms vals) end =
      match fold_left (fun acc p => if String.eqb n' (fst p) then Some (snd p) else acc) t
              (match acc0 with Some x => Some x | None => if String.eqb n' n then Some v else None end) with
      | Some x => Some x | None => elook n' (combine ms vals) end) as G.
    { clear. induction t as [|[k w] t IHt]; intros acc0; simpl.
      - destruct acc0; auto. destruct (String.eqb n' n); auto.
      - destruct (String.eqb n' k); [apply (IHt (Some w)) | apply IHt]. }
    specialize (G None). simpl in G. rewrite G. reflexivity.
Qed.

Lemma calc_names_fold ms (defs : list (string * cexpr)) :
  calc_names ms defs = fold_left (fun acc n => if mem_s n acc then acc else acc ++ [n]) (map fst defs) ms.
Proof. unfold calc_names. revert ms. induction defs as [|d t IH]; intros ms; simpl; auto. Qed.

(* calc frame: identifiers and the datapoint are kept; every component NOT named by the clause keeps its value; every
   named component holds the value of (the last definition of) its expression evaluated on the INPUT datapoint *)
Lemma calc_row_spec d defs r r' :
  List.length (d_ms d) = List.length (snd r) ->
  calc_row d defs r = Ok r' ->
  fst r' = fst r /\
  exists nv, Forall2 (fun df p => fst p = fst df /\ ceval (row_env d r) (snd df) = Ok (snd p)) defs nv /\
    forall n, elook n (combine (calc_names (d_ms d) defs) (snd r')) =
              match last_def n nv with Some v => Some v | None => elook n (combine (d_ms d) (snd r)) end.
Proof.
  intros Hl H. unfold calc_row in H. apply bind_ok in H. destruct H as [nv [Hnv H]]. injection H as <-. simpl.
  split; [reflexivity|]. exists nv. split.
  - apply mapM_ok_iff in Hnv. clear -Hnv. induction Hnv as [|df p l l' Hp _ IH]; constructor; auto.
    apply bind_ok in Hp. destruct Hp as [v [Hv Hp]]. injection Hp as <-. simpl. auto.
  - intros n. destruct (calc_fold_spec nv (d_ms d) (snd r) Hl) as [_ [Hn Hlook]].
    assert (map fst nv = map fst defs) as Hmap.
    { apply mapM_ok_iff in Hnv. clear -Hnv. induction Hnv as [|df p l l' Hp _ IH]; simpl; auto.
      apply bind_ok in Hp. destruct Hp as [v [_ Hp]]. injection Hp as <-. simpl. congruence. }
    rewrite calc_names_fold, <- Hmap, <- Hn. apply Hlook.
Qed.

Lemma d_calc_spec d defs d' :
  d_calc d defs = Ok d' ->
  d_ids d' = d_ids d /\ d_ms d' = calc_names (d_ms d) defs /\
  Forall2 (fun r r' => calc_row d defs r = Ok r') (d_rows d) (d_rows d') /\
  map fst (d_rows d') = map fst (d_rows d).
Proof.
  unfold d_calc. destruct (existsb _ defs); [discriminate|]. intros H.
  apply bind_ok in H. destruct H as [rows [Hr H]]. injection H as <-. simpl.
  split; [reflexivity|]. split; [reflexivity|]. apply mapM_ok_iff in Hr. split; [exact Hr|].
  induction Hr as [|r r' l l' Hrr _ IH]; simpl; auto. f_equal; auto.
  unfold calc_row in Hrr. apply bind_ok in Hrr. destruct Hrr as [nv [_ Hrr]]. injection Hrr as <-. reflexivity.
Qed.

(* =============================================================== order independence (C33 / C15) *)
Lemma d_filter_perm d c rows' d1 :
  Permutation (d_rows d) rows' -> d_filter d c = Ok d1 ->
  exists d2, d_filter (mkD (d_ids d) (d_ms d) rows') c = Ok d2 /\ Permutation (d_rows d1) (d_rows d2).
Proof.
  intros P H. unfold d_filter in *. apply bind_ok in H. destruct H as [l [Hl H]]. injection H as <-. simpl.
  assert (forall r, row_env (mkD (d_ids d) (d_ms d) rows') r = row_env d r) as Henv by reflexivity.
  destruct (mapM_perm _ _ _ _ P Hl) as [l' [Hl' Pl]].
  exists (mkD (d_ids d) (d_ms d) (map fst (filter (fun p => is_true (snd p)) l'))). split.
  - erewrite (mapM_ext_res _ _ rows'); [rewrite Hl'; reflexivity|]. intros r. reflexivity.
  - simpl. apply Permutation_map. apply Permutation_filter. exact Pl.
Qed.

Lemma d_map_perm d body rows' d1 :
  Permutation (d_rows d) rows' -> d_map d body = Ok d1 ->
  exists d2, d_map (mkD (d_ids d) (d_ms d) rows') body = Ok d2 /\ Permutation (d_rows d1) (d_rows d2).
Proof.
  intros P H. unfold d_map in *. apply bind_ok in H. destruct H as [l [Hl H]]. injection H as <-. simpl.
  destruct (mapM_perm _ _ _ _ P Hl) as [l' [Hl' Pl]].
  exists (mkD (d_ids d) (d_ms d) l'). rewrite Hl'. simpl. auto.
Qed.

Lemma d_calc_perm d defs rows' d1 :
  Permutation (d_rows d) rows' -> d_calc d defs = Ok d1 ->
  exists d2, d_calc (mkD (d_ids d) (d_ms d) rows') defs = Ok d2 /\ Permutation (d_rows d1) (d_rows d2).
Proof.
  intros P H. unfold d_calc in *. simpl. destruct (existsb _ defs); [discriminate|].
  apply bind_ok in H. destruct H as [l [Hl H]]. injection H as <-. simpl.
  destruct (mapM_perm _ _ _ _ P Hl) as [l' [Hl' Pl]].
  exists (mkD (d_ids d) (calc_names (d_ms d) defs) l'). split; [|exact Pl].
  erewrite (mapM_ext_res _ (calc_row d defs)); [rewrite Hl'; reflexivity|]. intros r. reflexivity.
Qed.

Lemma d_project_perm d f rows' :
  Permutation (d_rows d) rows' ->
  Permutation (d_rows (d_project d f)) (d_rows (d_project (mkD (d_ids d) (d_ms d) rows') f)).
Proof. intros P. unfold d_project. simpl. apply Permutation_map. exact P. Qed.

Lemma d_sub_perm d fixed rows' :
  Permutation (d_rows d) rows' ->
  Permutation (d_rows (d_sub d fixed)) (d_rows (d_sub (mkD (d_ids d) (d_ms d) rows') fixed)).
Proof. intros P. unfold d_sub. simpl. apply Permutation_map. apply Permutation_filter. exact P. Qed.

Lemma find_key_perm k rows rows' :
  uniq_keys rows = true -> Permutation rows rows' -> find_key k rows' = find_key k rows.
Proof.
  intros Hu P. assert (uniq_keys rows' = true) as Hu' by (rewrite <- (uniq_keys_perm _ _ P); exact Hu).
  destruct (find_key k rows) as [r|] eqn:E.
  - apply (find_key_spec _ _ _ Hu) in E. destruct E as [Hin He].
    apply (find_key_spec _ _ _ Hu'). split; [eapply Permutation_in; eauto | exact He].
  - apply find_key_none in E. apply find_key_none. rewrite <- (has_key_perm _ _ _ P). exact E.
Qed.

Lemma flat_some_perm {A} (l l' : list (option A)) :
  Permutation l l' ->
  Permutation (flat_map (fun o => match o with Some r => [r] | None => [] end) l)
              (flat_map (fun o => match o with Some r => [r] | None => [] end) l').
Proof.
  intros P. induction P as [|x l l' P IH|x y l|l1 l2 l3 P1 IH1 P2 IH2]; simpl; auto.
  - apply Permutation_app_head. exact IH.
  - destruct x, y; simpl; auto. apply perm_swap.
  - eapply perm_trans; eauto.
Qed.

(* dataset ∘ dataset does not depend on the order of the datapoints of either operand *)
Lemma d_binop_perm_left op a b rows_a rows_b res :
  subset_s (d_ids b) (d_ids a) = true -> uniq_keys (d_rows b) = true ->
  Permutation (d_rows a) rows_a -> Permutation (d_rows b) rows_b ->
  d_binop op a b = Ok res ->
  exists res', d_binop op (mkD (d_ids a) (d_ms a) rows_a) (mkD (d_ids b) (d_ms b) rows_b) = Ok res' /\
               Permutation (d_rows res) (d_rows res').
Proof.
  intros Hsub Hu Pa Pb. unfold d_binop. simpl. destruct (negb _); [discriminate|]. rewrite Hsub.
  intros H. apply bind_ok in H. destruct H as [l [Hl H]]. injection H as <-. simpl.
  destruct (mapM_perm _ _ _ _ Pa Hl) as [l' [Hl' Pl]].
  exists (mkD (d_ids a) (d_ms a) (flat_map (fun o => match o with Some r => [r] | None => [] end) l')). split.
  - erewrite mapM_ext_res; [rewrite Hl'; reflexivity|]. intros r. simpl.
    destruct (proj_key (d_ids a) (fst r) (d_ids b)); auto. rewrite (find_key_perm _ _ _ Hu Pb). reflexivity.
  - simpl. apply flat_some_perm. exact Pl.
Qed.

(* =============================================================== set operators of the core language (C05) *)
Lemma mem_s_In n l : mem_s n l = true <-> In n l.
Proof.
  unfold mem_s. rewrite existsb_exists. split.
  - intros [x [Hx He]]. apply String.eqb_eq in He. subst. exact Hx.
  - intros H. exists n. split; [exact H | apply String.eqb_refl].
Qed.

Lemma subset_s_In a b : subset_s a b = true <-> forall n, In n a -> In n b.
Proof.
  unfold subset_s. rewrite forallb_forall. split; intros H n Hn; [apply mem_s_In | apply mem_s_In]; auto.
Qed.

Lemma nodup_s_NoDup l : nodup_s l = true -> NoDup l.
Proof.
  induction l as [|h t IH]; simpl; [constructor|]. rewrite andb_true_iff, negb_true_iff. intros [Hn Ht].
  constructor; [|auto]. intros Hin. apply mem_s_In in Hin. congruence.
Qed.

Lemma proj_key_Forall2 from k to k' :
  proj_key from k to = Some k' <-> Forall2 (fun n v => elook n (combine from k) = Some v) to k'.
Proof.
  unfold proj_key. revert k'. induction to as [|n t IH]; intros k'; simpl.
  - split; [intros H; injection H as <-; constructor | intros H; inversion H; reflexivity].
  - destruct (elook n (combine from k)) as [v|] eqn:En.
    + destruct (fold_right _ _ t) as [l|] eqn:Ef.
      * split.
        -- intros H. injection H as <-. constructor; [exact En | apply IH; reflexivity].
        -- intros H. inversion H as [|? v' ? l' Hv Hl]; subst. rewrite En in Hv. injection Hv as <-.
           apply IH in Hl. injection Hl as <-. reflexivity.
      * split; [discriminate|]. intros H. inversion H as [|? v' ? l' Hv Hl]; subst. apply IH in Hl. discriminate.
    + split; [discriminate|]. intros H. inversion H as [|? v' ? l' Hv Hl]; subst. rewrite En in Hv. discriminate.
Qed.

Lemma elook_In_val n (from : list string) (k : list val) v : elook n (combine from k) = Some v -> In v k.
Proof.
  revert k. induction from as [|h t IH]; intros [|x xs]; simpl; try discriminate.
  destruct (String.eqb n h); [intros H; injection H as <-; auto | intros H; right; eapply IH; eauto].
Qed.

(* alignment only moves values: every value of the aligned key is a value of the original key *)
Lemma proj_key_values from k to k' : proj_key from k to = Some k' -> forall v, In v k' -> In v k.
Proof.
  rewrite proj_key_Forall2. intros F. induction F as [|n v t l Hv _ IH]; intros w Hw; [destruct Hw|].
  destruct Hw as [<-|Hw]; [eapply elook_In_val; eauto | auto].
Qed.

Lemma key_eqb_of_lookups from : forall k1 k2,
  NoDup from -> List.length k1 = List.length from -> List.length k2 = List.length from ->
  (forall n, In n from -> exists v1 v2, elook n (combine from k1) = Some v1 /\ elook n (combine from k2) = Some v2 /\
                                       val_eqb v1 v2 = true) ->
  key_eqb k1 k2 = true.
Proof.
  induction from as [|n f IH]; intros [|v1 t1] [|v2 t2] Hnd H1 H2 Hl; simpl in *; try discriminate; auto.
  inversion Hnd as [|? ? Hnin Hnd']; subst. injection H1 as H1. injection H2 as H2.
  apply andb_true_iff. split.
  - destruct (Hl n (or_introl eq_refl)) as [w1 [w2 [E1 [E2 Ev]]]]. rewrite String.eqb_refl in E1, E2.
    injection E1 as <-. injection E2 as <-. exact Ev.
  - apply IH; auto. intros m Hm. destruct (Hl m (or_intror Hm)) as [w1 [w2 [E1 [E2 Ev]]]].
    assert (String.eqb m n = false) as Hmn.
    { destruct (String.eqb m n) eqn:E; auto. apply String.eqb_eq in E. subst. contradiction. }
    rewrite Hmn in E1, E2. eauto.
Qed.

Lemma Forall2_key_eqb_pointwise {A} (P Q : A -> val -> Prop) to k1 k2 :
  Forall2 P to k1 -> Forall2 Q to k2 -> key_eqb k1 k2 = true ->
  forall n, In n to -> exists v1 v2, P n v1 /\ Q n v2 /\ val_eqb v1 v2 = true.
Proof.
  intros F1. revert k2. induction F1 as [|n v1 t l1 Hp _ IH]; intros k2 F2 He m Hm; [destruct Hm|].
  inversion F2 as [|? v2 ? l2 Hq F2']; subst. simpl in He. apply andb_true_iff in He. destruct He as [Hv Hk].
  destruct Hm as [<-|Hm]; [eauto | eapply IH; eauto].
Qed.

(* alignment by name is injective on keys: two datapoints with different identifier keys keep different keys *)
Lemma proj_key_inj from to k1 k2 k1' k2' :
  NoDup from -> List.length k1 = List.length from -> List.length k2 = List.length from ->
  (forall n, In n from -> In n to) ->
  proj_key from k1 to = Some k1' -> proj_key from k2 to = Some k2' ->
  key_eqb k1' k2' = true -> key_eqb k1 k2 = true.
Proof.
  intros Hnd H1 H2 Hsub P1 P2 He. apply proj_key_Forall2 in P1. apply proj_key_Forall2 in P2.
  apply (key_eqb_of_lookups from); auto. intros n Hn.
  exact (Forall2_key_eqb_pointwise _ _ _ _ _ P1 P2 He n (Hsub n Hn)).
Qed.

Lemma align_row_spec ib mb ia ma r r' :
  align_row ib mb ia ma r = Ok r' ->
  List.length (fst r) = List.length ib /\ proj_key ib (fst r) ia = Some (fst r') /\ proj_key mb (snd r) ma = Some (snd r').
Proof.
  unfold align_row. destruct (Nat.eqb _ _ && Nat.eqb _ _) eqn:El; [|discriminate].
  apply andb_true_iff in El. destruct El as [El _]. apply Nat.eqb_eq in El.
  destruct (proj_key ib (fst r) ia); [|discriminate]. destruct (proj_key mb (snd r) ma); [|discriminate].
  intros H. injection H as <-. auto.
Qed.

Lemma align_rows_uniq ib mb ia ma rows rows' :
  NoDup ib -> (forall n, In n ib -> In n ia) ->
  mapM (align_row ib mb ia ma) rows = Ok rows' -> uniq_keys rows = true -> uniq_keys rows' = true.
Proof.
  intros Hnd Hsub H. apply mapM_ok_iff in H. induction H as [|r r' t t' Hr Ht IH]; simpl; auto.
  rewrite !andb_true_iff, !negb_true_iff. intros [Hn Hu]. split; [|auto].
  destruct (has_key (fst r') t') eqn:E; auto. exfalso.
  apply has_key_In in E. destruct E as [x' [Hx' He]].
  assert (exists x, In x t /\ align_row ib mb ia ma x = Ok x') as [x [Hx Hax]].
  { clear -Ht Hx'. induction Ht as [|a a' l l' Ha _ IHt]; [destruct Hx'|].
    destruct Hx' as [<-|Hx']; [exists a; simpl; auto | destruct (IHt Hx') as [x [H1 H2]]; exists x; simpl; auto]. }
  destruct (align_row_spec _ _ _ _ _ _ Hr) as [L1 [P1 _]]. destruct (align_row_spec _ _ _ _ _ _ Hax) as [L2 [P2 _]].
  assert (has_key (fst r) t = true); [|congruence].
  apply has_key_In. exists x. split; [exact Hx|]. eapply proj_key_inj; eauto.
Qed.

Lemma union_binary_In a b x : In x (union [a; b]) <-> In x a \/ (In x b /\ has_key (fst x) a = false).
Proof.
  rewrite union_binary. unfold union_step. rewrite in_app_iff, filter_In, negb_true_iff. tauto.
Qed.

Lemma set_rows_In op a b x : In x (set_rows op a b) -> In x a \/ In x b.
Proof.
  destruct op; cbn [set_rows].
  - rewrite union_binary_In. tauto.
  - rewrite intersect_spec. tauto.
  - rewrite setdiff_spec. tauto.
  - rewrite symdiff_spec. tauto.
Qed.

Lemma set_rows_uniq op a b : uniq_keys a = true -> uniq_keys b = true -> uniq_keys (set_rows op a b) = true.
Proof.
  intros Ha Hb. destruct op; cbn [set_rows].
  - apply union_uniq. simpl. rewrite Ha, Hb. reflexivity.
  - apply intersect_uniq. exact Ha.
  - apply setdiff_uniq. exact Ha.
  - apply symdiff_uniq; assumption.
Qed.

Lemma set_rows_perm op a a' b b' :
  Permutation a a' -> Permutation b b' -> Permutation (set_rows op a b) (set_rows op a' b').
Proof.
  intros Pa Pb. destruct op; cbn [set_rows].
  - apply union_perm. repeat constructor; assumption.
  - apply intersect_perm; [assumption | repeat constructor; assumption].
  - apply setdiff_perm; assumption.
  - apply symdiff_perm; assumption.
Qed.

Lemma d_setop_spec op a b r :
  d_setop op a b = Ok r ->
  set_compat a b = true /\ d_ids r = d_ids a /\ d_ms r = d_ms a /\
  exists rb, mapM (align_row (d_ids b) (d_ms b) (d_ids a) (d_ms a)) (d_rows b) = Ok rb /\
             d_rows r = set_rows op (d_rows a) rb.
Proof.
  unfold d_setop. destruct (set_compat a b); [|discriminate]. simpl. intros H.
  apply bind_ok in H. destruct H as [rb [Hrb H]]. injection H as <-. simpl. eauto 6.
Qed.

Lemma set_compat_spec a b :
  set_compat a b = true ->
  (forall n, In n (d_ids a) <-> In n (d_ids b)) /\ (forall n, In n (d_ms a) <-> In n (d_ms b)) /\ NoDup (d_ids b).
Proof.
  unfold set_compat, same_names. rewrite !andb_true_iff, !subset_s_In. intros [[[H1 H2] [H3 H4]] H5].
  split; [split; auto|]. split; [split; auto|]. apply nodup_s_NoDup. exact H5.
Qed.

(* structurally incompatible operands are a semantic error, never a value *)
Lemma d_setop_incompatible op a b : set_compat a b = false -> d_setop op a b = Err ERR_SET_STRUCT.
Proof. unfold d_setop. intros ->. reflexivity. Qed.

(* THE LAWS, for the operator of the core language: the result has the structure of the first operand; with B' the
   datapoints of the second operand written in the first operand's column order,
   union = every datapoint of A, and the datapoints of B' whose key A does not have (first operand wins);
   intersect = the datapoints OF A whose key B' has;  setdiff = the datapoints of A whose key B' does not have;
   symdiff = setdiff both ways *)
Definition set_law (op : setop) (a rb : list (list val * list val)) (x : list val * list val) : Prop :=
  match op with
  | OUnion => In x a \/ (In x rb /\ has_key (fst x) a = false)
  | OIntersect => In x a /\ has_key (fst x) rb = true
  | OSetdiff => In x a /\ has_key (fst x) rb = false
  | OSymdiff => (In x a /\ has_key (fst x) rb = false) \/ (In x rb /\ has_key (fst x) a = false)
  end.

Lemma set_rows_law op a rb x : In x (set_rows op a rb) <-> set_law op a rb x.
Proof.
  destruct op; cbn [set_rows set_law].
  - apply union_binary_In.
  - rewrite intersect_spec. split.
    + intros [H1 H2]. split; [exact H1 | apply H2; simpl; auto].
    + intros [H1 H2]. split; [exact H1|]. intros d [<-|[]]. exact H2.
  - apply setdiff_spec.
  - apply symdiff_spec.
Qed.

Lemma d_setop_laws op a b r :
  d_setop op a b = Ok r ->
  d_ids r = d_ids a /\ d_ms r = d_ms a /\
  exists rb, Forall2 (fun x y => align_row (d_ids b) (d_ms b) (d_ids a) (d_ms a) x = Ok y) (d_rows b) rb /\
             forall x, In x (d_rows r) <-> set_law op (d_rows a) rb x.
Proof.
  intros H. destruct (d_setop_spec _ _ _ _ H) as [_ [H1 [H2 [rb [Hrb Hr]]]]]. split; [exact H1|]. split; [exact H2|].
  exists rb. split; [apply mapM_ok_iff; exact Hrb|]. intros x. rewrite Hr. apply set_rows_law.
Qed.

(* when both operands already declare their components in the same order, alignment is the identity *)
Lemma lookups_self (env0 : env) f : forall t,
  NoDup f -> List.length t = List.length f -> (forall m, In m f -> elook m env0 = elook m (combine f t)) ->
  Forall2 (fun n v => elook n env0 = Some v) f t.
Proof.
  induction f as [|n f IH]; intros [|v t] Hnd Hl He; simpl in *; try discriminate; constructor.
  - rewrite (He n (or_introl eq_refl)), String.eqb_refl. reflexivity.
  - inversion Hnd as [|? ? Hnin Hnd']; subst. injection Hl as Hl. apply IH; auto.
    intros m Hm. rewrite (He m (or_intror Hm)).
    destruct (String.eqb m n) eqn:E; auto. apply String.eqb_eq in E. subst. contradiction.
Qed.

Lemma proj_key_self from k : NoDup from -> List.length k = List.length from -> proj_key from k from = Some k.
Proof. intros Hnd Hl. apply proj_key_Forall2. apply lookups_self; auto. Qed.

(* =============================================================== contexts: compositionality (C05 / C01 / C02) *)
(* congruence: an expression can be replaced by any expression with the same value, in any context *)
Lemma plug_congr k : forall e x y, deval e x = deval e y -> deval e (plug k x) = deval e (plug k y).
Proof.
  induction k; intros e x y H; simpl; auto; try (rewrite (IHk e x y H); reflexivity).
Qed.

Lemma deval_weaken n r x : forall e, ~ In n (dvars x) -> deval ((n, r) :: e) x = deval e x.
Proof.
  induction x as [m|op a IHa b IHb|op a IHa b IHb|a IH body|a IH c|a IH defs|a IH l|a IH l|a IH l|a IH l]; intros e Hn; simpl in *;
    try (rewrite IH by exact Hn; reflexivity);
    try (rewrite in_app_iff in Hn; rewrite IHa, IHb by tauto; reflexivity).
  destruct (String.eqb m n) eqn:E; auto. apply String.eqb_eq in E. subst. tauto.
Qed.

(* an operand written in place (one statement) has the value it has when computed by a statement of its own and
   referred to by name: what a sub-expression contributes to ANY enclosing operator is exactly its own result *)
Lemma deval_plug_let k : forall e x r n,
  deval e x = Ok r -> ~ In n (kvars k) -> deval e (plug k x) = deval ((n, r) :: e) (plug k (DVar n)).
Proof.
  induction k; intros e x r n Hx Hn; simpl in *;
    try (rewrite (IHk e x r n Hx Hn); reflexivity);
    try (rewrite in_app_iff in Hn).
  - rewrite String.eqb_refl. exact Hx.
  - rewrite (IHk e x r n Hx) by tauto. rewrite (deval_weaken n r b) by tauto. reflexivity.
  - rewrite (IHk e x r n Hx) by tauto. rewrite (deval_weaken n r a) by tauto. reflexivity.
  - rewrite (IHk e x r n Hx) by tauto. rewrite (deval_weaken n r b) by tauto. reflexivity.
  - rewrite (IHk e x r n Hx) by tauto. rewrite (deval_weaken n r a) by tauto. reflexivity.
Qed.

Lemma nested_is_flat k e x r n out :
  deval e x = Ok r -> ~ In n (kvars k) -> n <> out ->
  run_script e [(out, plug k x)] out = run_script e [(n, x); (out, plug k (DVar n))] out.
Proof.
  intros Hx Hn Hne. unfold run_script. simpl. rewrite Hx. simpl. rewrite <- (deval_plug_let k e x r n Hx Hn).
  destruct (deval e (plug k x)); simpl; [rewrite !String.eqb_refl; reflexivity | reflexivity].
Qed.

(* the set-operator laws hold for a set operator used as an operand of anything: whatever context encloses
   `DSet op a b`, the enclosing operators see exactly the dataset described by d_setop_laws *)
Lemma dset_in_context k e op a b da db r n :
  deval e a = Ok da -> deval e b = Ok db -> d_setop op da db = Ok r -> ~ In n (kvars k) ->
  deval e (plug k (DSet op a b)) = deval ((n, r) :: e) (plug k (DVar n)).
Proof.
  intros Ha Hb Hs Hn. apply deval_plug_let; auto. simpl. rewrite Ha, Hb. exact Hs.
Qed.

(* the shape of the C05 seeds: a set operator under a clause that removes an identifier, in ONE statement — the clause is
   applied to the dataset that the set operator yields on the FULL identifier keys of its operands *)
Lemma dset_under_sub e op a b l da db r :
  deval e a = Ok da -> deval e b = Ok db -> d_setop op da db = Ok r ->
  deval e (DSub (DSet op a b) l) = Ok (d_sub r l).
Proof. intros Ha Hb Hs. simpl. rewrite Ha, Hb. simpl. rewrite Hs. reflexivity. Qed.

(* =============================================================== n-ary set operators at the language level *)
Lemma subset_s_refl l : subset_s l l = true.
Proof. apply subset_s_In. auto. Qed.

Lemma mapM_id {A} (f : A -> res A) l : (forall x, In x l -> f x = Ok x) -> mapM f l = Ok l.
Proof.
  induction l as [|x t IH]; intros H; simpl; [reflexivity|].
  rewrite (H x (or_introl eq_refl)). simpl. rewrite IH; [reflexivity|]. intros y Hy. apply H. right. exact Hy.
Qed.

Definition rows_fit (ids ms : list string) (rows : list (list val * list val)) : Prop :=
  forall r, In r rows -> List.length (fst r) = List.length ids /\ List.length (snd r) = List.length ms.

(* operands that declare the same components in the same order: no realignment, the SetOps function on the rows as they are *)
Lemma d_setop_same_order op a b :
  d_ids b = d_ids a -> d_ms b = d_ms a -> nodup_s (d_ids a) = true -> nodup_s (d_ms a) = true ->
  rows_fit (d_ids b) (d_ms b) (d_rows b) ->
  d_setop op a b = Ok (mkD (d_ids a) (d_ms a) (set_rows op (d_rows a) (d_rows b))).
Proof.
  intros Hi Hm Ni Nm Hfit. unfold d_setop, set_compat, same_names. rewrite Hi, Hm, !subset_s_refl, Ni. simpl.
  rewrite mapM_id; [reflexivity|]. intros [k m] Hr. destruct (Hfit _ Hr) as [L1 L2]. simpl in L1, L2.
  unfold align_row. simpl. rewrite Hi in L1. rewrite Hm in L2. rewrite L1, L2, !Nat.eqb_refl. simpl.
  rewrite (proj_key_self _ _ (nodup_s_NoDup _ Ni) L1), (proj_key_self _ _ (nodup_s_NoDup _ Nm) L2). reflexivity.
Qed.

(* union(A, B1, …, Bn) / intersect(A, B1, …, Bn) written as left-nested DSet nodes evaluate to the n-ary function of
   Model/SetOps.v over the operands' datapoints *)
Lemma dset_nary_rows (op : setop) (f : list (list (list val * list val)) -> list (list val * list val)) :
  (forall a rest, f (a :: rest) = fold_left (fun acc d => set_rows op acc d) rest a) ->
  forall e rest drest a da,
  deval e a = Ok da -> Forall2 (fun x d => deval e x = Ok d) rest drest ->
  nodup_s (d_ids da) = true -> nodup_s (d_ms da) = true ->
  Forall (fun d => d_ids d = d_ids da /\ d_ms d = d_ms da /\ rows_fit (d_ids d) (d_ms d) (d_rows d)) drest ->
  deval e (dset_nary op a rest) = Ok (mkD (d_ids da) (d_ms da) (f (d_rows da :: map d_rows drest))).
Proof.
  intros Hf e rest drest a da Ha F. revert a da Ha. induction F as [|x d rest drest Hx F IH]; intros a da Ha Ni Nm Hall.
  - simpl. rewrite Hf. simpl. rewrite Ha. destruct da; reflexivity.
  - inversion Hall as [|? ? [Hi [Hm Hfit]] Hall']; subst. unfold dset_nary. cbn [fold_left]. fold (dset_nary op (DSet op a x) rest).
    assert (deval e (DSet op a x) = Ok (mkD (d_ids da) (d_ms da) (set_rows op (d_rows da) (d_rows d)))) as Hstep.
    { simpl. rewrite Ha, Hx. simpl. apply d_setop_same_order; auto. }
    rewrite (IH _ _ Hstep); simpl; auto. rewrite !Hf. reflexivity.
Qed.

Theorem dset_nary_union e a rest da drest :
  deval e a = Ok da -> Forall2 (fun x d => deval e x = Ok d) rest drest ->
  nodup_s (d_ids da) = true -> nodup_s (d_ms da) = true ->
  Forall (fun d => d_ids d = d_ids da /\ d_ms d = d_ms da /\ rows_fit (d_ids d) (d_ms d) (d_rows d)) drest ->
  deval e (dset_nary OUnion a rest) = Ok (mkD (d_ids da) (d_ms da) (union (d_rows da :: map d_rows drest))).
Proof. apply (dset_nary_rows OUnion union). exact union_left_nested. Qed.

Theorem dset_nary_intersect e a rest da drest :
  deval e a = Ok da -> Forall2 (fun x d => deval e x = Ok d) rest drest ->
  nodup_s (d_ids da) = true -> nodup_s (d_ms da) = true ->
  Forall (fun d => d_ids d = d_ids da /\ d_ms d = d_ms da /\ rows_fit (d_ids d) (d_ms d) (d_rows d)) drest ->
  deval e (dset_nary OIntersect a rest) = Ok (mkD (d_ids da) (d_ms da) (intersect (d_rows da :: map d_rows drest))).
Proof. apply (dset_nary_rows OIntersect intersect). exact intersect_left_nested. Qed.
