(* Proofs/LoaderP.v — lemmas about Model/Loader.v.
   Part 1  structural validation (duplicates, DWI, nulls, missing columns): for ALL tables, by induction over rows.
   Part 2  arithmetic of the numeric casts (over all of Z).
   Part 3  value level: where the four loaders agree / agree with the documented formats (decidable sub-domains, all strings). *)
From Coq Require Import ZArith Ascii String List Bool Arith Lia.
Import ListNotations.
From VTL Require Import Base.Calendar Model.Types Model.Regex Gen.Regex Model.Loader Proofs.RegexP.

(* ================================================================================================= Part 1 *)
Fixpoint nodupb (l : list (list sval)) : bool :=
  match l with [] => true | k :: t => negb (existsb (key_eqb k) t) && nodupb t end.

(* two different positions holding equal identifier keys *)
Definition dup_pair (l : list (list sval)) : Prop :=
  exists i j k1 k2, (i < j)%nat /\ nth_error l i = Some k1 /\ nth_error l j = Some k2 /\ key_eqb k1 k2 = true.

Lemma dedup_len_le : forall l, (length (dedup l) <= length l)%nat.
Proof. induction l as [|k t IH]; simpl; [lia|]. destruct (existsb (key_eqb k) t); simpl; lia. Qed.

Lemma dedup_len_eq_iff : forall l, length (dedup l) = length l <-> nodupb l = true.
Proof.
  induction l as [|k t IH]; simpl; [tauto|].
  pose proof (dedup_len_le t) as Hle.
  destruct (existsb (key_eqb k) t); simpl.
  - split; intro H; [lia | discriminate].
  - rewrite <- IH. split; intro H; lia.
Qed.

Lemma has_duplicates_nodupb : forall l, has_duplicates l = negb (nodupb l).
Proof.
  intro l. unfold has_duplicates. f_equal.
  destruct (nodupb l) eqn:E.
  - apply dedup_len_eq_iff in E. rewrite E. apply Nat.eqb_refl.
  - apply Nat.eqb_neq. intro H. symmetry in H. apply dedup_len_eq_iff in H. congruence.
Qed.

Lemma existsb_nth : forall (k : list sval) t, existsb (key_eqb k) t = true <-> exists j k2, nth_error t j = Some k2 /\ key_eqb k k2 = true.
Proof.
  intros k t. rewrite existsb_exists. split.
  - intros (x & Hin & He). apply In_nth_error in Hin. destruct Hin as [j Hj]. eauto.
  - intros (j & k2 & Hj & He). exists k2. split; [eapply nth_error_In; eauto | assumption].
Qed.

Lemma nodupb_false_iff : forall l, nodupb l = false <-> dup_pair l.
Proof.
  induction l as [|k t IH]; simpl.
  - split; [discriminate|]. intros (i & j & k1 & k2 & _ & H & _). destruct i; discriminate.
  - rewrite andb_false_iff, negb_false_iff. split.
    + intros [H | H].
      * apply existsb_nth in H. destruct H as (j & k2 & Hj & He). exists 0%nat, (S j), k, k2. simpl. repeat split; auto. lia.
      * apply IH in H. destruct H as (i & j & k1 & k2 & Hlt & Hi & Hj & He). exists (S i), (S j), k1, k2. simpl. repeat split; auto. lia.
    + intros (i & j & k1 & k2 & Hlt & Hi & Hj & He). destruct i as [|i].
      * left. simpl in Hi. inversion Hi; subst. destruct j as [|j]; [lia|]. simpl in Hj. apply existsb_nth. eauto.
      * right. apply IH. destruct j as [|j]; [lia|]. simpl in Hi, Hj. exists i, j, k1, k2. repeat split; auto. lia.
Qed.

(* COUNT( * ) <> COUNT(DISTINCT ids) holds exactly when two datapoints share their identifier values *)
Theorem has_duplicates_spec : forall l, has_duplicates l = true <-> dup_pair l.
Proof. intro l. rewrite has_duplicates_nodupb, negb_true_iff. apply nodupb_false_iff. Qed.

Lemma ids_nil_length : forall st, ids st = [] <-> (length (ids st) =? 0)%nat = true.
Proof. intro st. destruct (ids st); simpl; split; intro; try reflexivity; discriminate. Qed.

(* the structural stage (DWI + duplicates) rejects exactly the tables with one of the two violations — any number of rows *)
Theorem structural_stage_spec : forall st vb,
  structural_stage st vb = None <->
  ((ids st = [] -> (length vb <= 1)%nat) /\ (ids st <> [] -> ~ dup_pair (map (key_of st) vb))).
Proof.
  intros st vb. unfold structural_stage.
  destruct (length (ids st) =? 0)%nat eqn:E.
  - apply ids_nil_length in E. destruct (1 <? length vb)%nat eqn:L.
    + apply Nat.ltb_lt in L. split; [discriminate|]. intros [H _]. specialize (H E). lia.
    + apply Nat.ltb_ge in L. split; [|reflexivity]. intros _. split; [intros _; exact L | intro H; congruence].
  - assert (ids st <> []) as Hne by (intro H; apply ids_nil_length in H; congruence).
    destruct (has_duplicates (map (key_of st) vb)) eqn:D.
    + apply has_duplicates_spec in D. split; [discriminate|]. intros [_ H]. exfalso. exact (H Hne D).
    + split; [|reflexivity]. intros _. split; [intro H; congruence|]. intros _ Hd. apply has_duplicates_spec in Hd. congruence.
Qed.

Theorem dwi_rejected : forall st vb, ids st = [] -> (1 < length vb)%nat -> post_load st vb = TRej E4.
Proof.
  intros st vb Hi Hl. unfold post_load, structural_stage.
  apply ids_nil_length in Hi. rewrite Hi. apply Nat.ltb_lt in Hl. rewrite Hl. reflexivity.
Qed.

Theorem duplicates_rejected : forall st vb, ids st <> [] -> dup_pair (map (key_of st) vb) -> post_load st vb = TRej E7.
Proof.
  intros st vb Hi Hd. unfold post_load, structural_stage.
  destruct (length (ids st) =? 0)%nat eqn:E; [apply ids_nil_length in E; congruence|].
  apply has_duplicates_spec in Hd. rewrite Hd. reflexivity.
Qed.

(* ---- nulls and missing columns *)
Definition is_acc {A} (r : result A) : bool := match r with Acc _ => true | _ => false end.
Definition getv (r : result sval) : sval := match r with Acc v => v | _ => SNull end.

Lemma first_rej_none_forall : forall {A} (l : list (result A)), first_rej l = None <-> forallb is_acc l = true.
Proof.
  induction l as [|x t IH]; simpl; [tauto|]. destruct x; simpl; [exact IH | split; discriminate | split; discriminate].
Qed.

Lemma first_rej_rows_none : forall rows, first_rej_rows rows = None -> forall row, In row rows -> forallb is_acc row = true.
Proof.
  intros rows H row Hin. unfold first_rej_rows in H. apply first_rej_none_forall in H.
  rewrite forallb_forall in *. intros x Hx. apply H. apply in_concat. eauto.
Qed.

Lemma combine_accs_map : forall (f : comp -> result sval) (st : structure),
  forallb is_acc (map f st) = true -> combine st (accs (map f st)) = map (fun c => (c, getv (f c))) st.
Proof.
  induction st as [|c t IH]; simpl; [reflexivity|]. intro H. apply andb_true_iff in H. destruct H as [H1 H2].
  destruct (f c) eqn:E; simpl in *; try discriminate. rewrite IH by assumption. reflexivity.
Qed.

Lemma stageA_null : forall p t nl ts, stageA p t nl ts RNull = Acc SNull.
Proof. intros [] t nl ts; try reflexivity; destruct t; reflexivity. Qed.

Lemma index_of_none : forall n l i, existsb (String.eqb n) l = false -> index_of n l i = None.
Proof.
  induction l as [|x t IH]; simpl; intros i H; [reflexivity|]. apply orb_false_iff in H. destruct H as [H1 H2].
  rewrite H1. apply IH. assumption.
Qed.

Lemma missing_col_cell : forall tb row n, has_col tb n = false -> cell tb row n = None.
Proof. intros tb row n H. unfold cell. unfold has_col in H. rewrite (index_of_none _ _ _ H). reflexivity. Qed.

(* a required component whose loaded value is NULL makes the INSERT fail (whatever else is in the table) *)
Lemma stage_insert_null_required : forall p st tb row c,
  In row (t_rows tb) -> In c st -> required c = true -> loadA_cell p tb row c = Acc SNull ->
  exists code, stage_insert p st tb = Rej code.
Proof.
  intros p st tb row c Hrow Hc Hreq Hnull. unfold stage_insert.
  destruct (first_rej_rows (map (loadA_row p st tb) (t_rows tb))) eqn:F; [eauto|].
  assert (existsb (null_in_required st) (map accs (map (loadA_row p st tb) (t_rows tb))) = true) as Hex.
  { apply existsb_exists. exists (accs (loadA_row p st tb row)). split.
    - apply in_map. apply in_map. assumption.
    - pose proof (first_rej_rows_none _ F (loadA_row p st tb row) (in_map _ _ _ Hrow)) as Hall.
      unfold null_in_required, loadA_row in *. rewrite (combine_accs_map _ _ Hall).
      apply existsb_exists. exists (c, getv (loadA_cell p tb row c)). split.
      + apply in_map_iff. exists c. auto.
      + simpl. rewrite Hreq, Hnull. reflexivity. }
  rewrite Hex. eauto.
Qed.

Inductive violation (p : path) (st : structure) (tb : table) : Prop :=
| V_missing_id_file : (p = PCsv \/ p = PParquet) ->
    (exists c, In c st /\ c_id c = true /\ has_col tb (c_name c) = false) -> violation p st tb
| V_missing_required_with_rows : t_rows tb <> [] ->
    (exists c, In c st /\ required c = true /\ has_col tb (c_name c) = false) -> violation p st tb
| V_missing_non_nullable_csv : p = PCsv ->
    (exists c, In c st /\ c_nullable c = false /\ has_col tb (c_name c) = false) -> violation p st tb
| V_null_required :
    (exists row c, In row (t_rows tb) /\ In c st /\ required c = true /\ cell tb row (c_name c) = Some RNull) -> violation p st tb.

Lemma load_run_insert_rej : forall p st tb code, stage_insert p st tb = Rej code -> exists c, load_run p st tb = TRej c.
Proof. intros p st tb code H. unfold load_run. destruct (file_checks p st tb); [eauto|]. rewrite H. eauto. Qed.

(* null identifier / null in a non-nullable column / missing identifier or non-nullable column: always an input error *)
Theorem structure_violations_rejected : forall p st tb, violation p st tb -> exists code, load_run p st tb = TRej code.
Proof.
  intros p st tb V. destruct V as [Hp (c & Hc & Hid & Hcol) | Hrows (c & Hc & Hreq & Hcol) | Hp (c & Hc & Hnn & Hcol) | (row & c & Hrow & Hc & Hreq & Hcell)].
  - unfold load_run, file_checks.
    assert (existsb (fun c0 => c_id c0 && negb (has_col tb (c_name c0))) st = true) as E.
    { apply existsb_exists. exists c. rewrite Hid, Hcol. auto. }
    destruct Hp; subst; simpl; rewrite E; eauto.
  - destruct (t_rows tb) as [|row rest] eqn:R; [congruence|].
    assert (loadA_cell p tb row c = Acc SNull) as Hn by (unfold loadA_cell; rewrite (missing_col_cell _ _ _ Hcol); reflexivity).
    destruct (stage_insert_null_required p st tb row c) as [code Hcode]; auto.
    + rewrite R. left. reflexivity.
    + eapply load_run_insert_rej; eauto.
  - subst p. unfold load_run, file_checks. simpl.
    destruct (existsb (fun c0 => c_id c0 && negb (has_col tb (c_name c0))) st); [eauto|].
    assert (existsb (fun c0 => negb (c_nullable c0) && negb (has_col tb (c_name c0))) st = true) as E.
    { apply existsb_exists. exists c. rewrite Hnn, Hcol. auto. }
    rewrite E. eauto.
  - assert (loadA_cell p tb row c = Acc SNull) as Hn by (unfold loadA_cell; rewrite Hcell; apply stageA_null).
    destruct (stage_insert_null_required p st tb row c) as [code Hcode]; auto.
    eapply load_run_insert_rej; eauto.
Qed.

(* duplicates and DWI are judged on the STORED rows (after casts and period normalisation): rejected for every table *)
Theorem stored_violations_rejected : forall p st tb va vb,
  file_checks p st tb = None -> stage_insert p st tb = Acc va -> stage_normalize st va = Acc vb ->
  ((ids st = [] /\ (1 < length vb)%nat) \/ (ids st <> [] /\ dup_pair (map (key_of st) vb))) ->
  exists code, load_run p st tb = TRej code.
Proof.
  intros p st tb va vb Hf Hi Hn [[H1 H2] | [H1 H2]]; unfold load_run; rewrite Hf, Hi, Hn.
  - rewrite (dwi_rejected _ _ H1 H2). eauto.
  - rewrite (duplicates_rejected _ _ H1 H2). eauto.
Qed.

(* …and a table with none of them passes the structural stage *)
Theorem no_violation_passes_structural_stage : forall st vb,
  (ids st = [] -> (length vb <= 1)%nat) -> (ids st <> [] -> ~ dup_pair (map (key_of st) vb)) -> structural_stage st vb = None.
Proof. intros. apply structural_stage_spec. auto. Qed.

Theorem file_checks_pass : forall p st tb,
  (forall c, In c st -> required c = true -> has_col tb (c_name c) = true) -> file_checks p st tb = None.
Proof.
  intros p st tb H. unfold file_checks.
  assert (existsb (fun c => c_id c && negb (has_col tb (c_name c))) st = false) as E1.
  { apply not_true_is_false. intro X. apply existsb_exists in X. destruct X as (c & Hc & Hx). apply andb_true_iff in Hx. destruct Hx as [Ha Hb].
    rewrite (H c Hc) in Hb; [discriminate|]. unfold required. rewrite Ha. reflexivity. }
  assert (existsb (fun c => negb (c_nullable c) && negb (has_col tb (c_name c))) st = false) as E2.
  { apply not_true_is_false. intro X. apply existsb_exists in X. destruct X as (c & Hc & Hx). apply andb_true_iff in Hx. destruct Hx as [Ha Hb].
    rewrite (H c Hc) in Hb; [discriminate|]. unfold required. rewrite Ha. apply orb_true_r. }
  rewrite E1, E2. rewrite !andb_false_r. reflexivity.
Qed.

(* the one structural hole: a DataFrame without rows may lack an identifier column *)
Lemma empty_dataframe_missing_identifier_accepted :
  let st := [mkComp "Id_1" TInteger true false; mkComp "Me_1" TNumber false true] in
  let tb := mkTable ["Me_1"%string] [] in
  load_run PDfStr st tb = TAcc [] /\ load_run PCsv st tb = TRej E118.
Proof. vm_compute. auto. Qed.

(* ================================================================================================= Part 2 *)
Open Scope Z_scope.

Lemma pow10_pos : forall k, 0 <= k -> 0 < pow10 k.
Proof. intros k H. unfold pow10. apply Z.pow_pos_nonneg; lia. Qed.

Lemma geb_false : forall n m, n < m -> (n >=? m) = false.
Proof. intros. rewrite Z.geb_leb. apply Z.leb_gt. assumption. Qed.
Lemma geb_true : forall n m, m <= n -> (n >=? m) = true.
Proof. intros. apply Z.geb_le. assumption. Qed.
Lemma gtb_false : forall n m, n <= m -> (n >? m) = false.
Proof. intros. rewrite Z.gtb_ltb. apply Z.ltb_ge. assumption. Qed.
Lemma geb_false_inv : forall n m, (n >=? m) = false -> n < m.
Proof. intros n m H. destruct (Z.geb_spec n m); [discriminate | assumption]. Qed.

(* exact multiples: |m| = p*|k| *)
Lemma integral_decompose : forall m p, 0 < p -> m mod p = 0 ->
  Z.abs m / p = Z.abs (m / p) /\ Z.abs m mod p = 0 /\ m = p * (m / p).
Proof.
  intros m p Hp H.
  assert (m = p * (m / p)) as Hm by (apply Z_div_exact_full_2; lia).
  set (k := m / p) in *.
  assert (Z.abs m = Z.abs k * p) as Ha by (rewrite Hm, Z.abs_mul, (Z.abs_eq p); lia).
  rewrite Ha, Z.mod_mul, Z.div_mul by lia. auto.
Qed.

Lemma round_half_away_integral : forall m e, dec_integral m e = true -> round_half_away m e = dec_exact_Z m e.
Proof.
  intros m e H. unfold dec_integral, round_half_away, dec_exact_Z in *.
  destruct (e >=? 0) eqn:E; [reflexivity|].
  apply geb_false_inv in E.
  pose proof (pow10_pos (- e) ltac:(lia)) as Hp. set (p := pow10 (- e)) in *.
  apply Z.eqb_eq in H.
  destruct (integral_decompose m p Hp H) as (Hq & Hr & Hm). rewrite Hq, Hr.
  rewrite (geb_false (2 * 0) p) by lia.
  set (k := m / p) in *.
  destruct (m <? 0) eqn:S.
  - apply Z.ltb_lt in S. assert (k < 0) by nia. lia.
  - apply Z.ltb_ge in S. assert (0 <= k) by nia. lia.
Qed.

Lemma round_half_even_integral : forall m e, dec_integral m e = true -> round_half_even m e = dec_exact_Z m e.
Proof.
  intros m e H. unfold dec_integral, round_half_even, dec_exact_Z in *.
  destruct (e >=? 0) eqn:E; [reflexivity|].
  apply geb_false_inv in E.
  pose proof (pow10_pos (- e) ltac:(lia)) as Hp. set (p := pow10 (- e)) in *.
  apply Z.eqb_eq in H.
  destruct (integral_decompose m p Hp H) as (Hq & Hr & Hm). rewrite Hq, Hr.
  rewrite (gtb_false (2 * 0) p) by lia.
  replace (2 * 0 =? p) with false by (symmetry; apply Z.eqb_neq; lia).
  set (k := m / p) in *.
  destruct (m <? 0) eqn:S.
  - apply Z.ltb_lt in S. assert (k < 0) by nia. lia.
  - apply Z.ltb_ge in S. assert (0 <= k) by nia. lia.
Qed.

(* a fractional literal IS rounded, never refused, by the string -> BIGINT cast: the result is an integer at distance <= 1/2 *)
Lemma round_half_away_close : forall m e, e < 0 ->
  2 * Z.abs (round_half_away m e * pow10 (- e) - m) <= pow10 (- e).
Proof.
  intros m e He. unfold round_half_away. rewrite (geb_false e 0) by lia.
  pose proof (pow10_pos (- e) ltac:(lia)) as Hp. set (p := pow10 (- e)) in *.
  pose proof (Z.div_mod (Z.abs m) p ltac:(lia)) as Hdm. pose proof (Z.mod_pos_bound (Z.abs m) p Hp) as Hb.
  set (q := Z.abs m / p) in *. set (r := Z.abs m mod p) in *.
  destruct (2 * r >=? p) eqn:G; [apply Z.geb_le in G | apply geb_false_inv in G];
    (destruct (m <? 0) eqn:S; [apply Z.ltb_lt in S | apply Z.ltb_ge in S]); lia.
Qed.

Lemma to_double_int_small : forall n, Z.abs n < 2 ^ 53 -> to_double_int n = n.
Proof. intros n H. unfold to_double_int. apply Z.ltb_lt in H. rewrite H. reflexivity. Qed.

Lemma small_in_int64 : forall n, Z.abs n < 2 ^ 53 -> in_int64 n = true /\ ((- 2 ^ 63 <=? n) && (n <? 2 ^ 63) = true).
Proof.
  intros n H. unfold in_int64. assert (2 ^ 53 < 2 ^ 63) by (vm_compute; reflexivity).
  split; apply andb_true_iff; split; try apply Z.leb_le; try apply Z.ltb_lt; lia.
Qed.

(* the first integer the CSV path (DOUBLE transit) cannot hold *)
Lemma to_double_int_loses_2_53_plus_1 : to_double_int (2 ^ 53 + 1) = 2 ^ 53.
Proof. vm_compute. reflexivity. Qed.

(* ================================================================================================= Part 3 *)
Lemma remove_char_absent : forall c s, mem_char c s = false -> remove_char c s = s.
Proof.
  induction s as [|x t IH]; simpl; [reflexivity|]. intro H. apply orb_false_iff in H. destruct H as [H1 H2].
  rewrite Ascii.eqb_sym, H1. simpl. rewrite IH by assumption. reflexivity.
Qed.

(* ---- C18: sub-domain on which CSV, DataFrame-of-strings and Parquet give the same outcome for a text cell *)
Definition int_plain (s : str) : bool :=
  match lex_radix (strip_c s) with
  | Some _ => false
  | None => match lex_dec (strip_c s) with
            | Some (m, e) => dec_integral m e && (Z.abs (dec_exact_Z m e) <? 2 ^ 53)
            | None => true
            end
  end.
Definition date_no_time (s : str) : bool :=
  match cast_timestamp s with Some (_, us) => us =? 0 | None => true end.
Definition nonempty (s : str) : bool := match s with [] => false | _ => true end.
Definition agree18_ty (t : ty) (s : str) : bool :=
  match t with
  | TInteger => int_plain s
  | TNumber => true
  | TBoolean | TString => negb (mem_char c_quote s)
  | TDate => date_no_time s                      (* Parquet: the column is always DATE *)
  | TTime | TPeriod | TDuration => true
  | TNull => false
  end.
(* "" is NULL in a CSV file and a string elsewhere: excluded *)
Definition agree18 (t : ty) (s : str) : bool := nonempty s && agree18_ty t s.
(* CSV vs DataFrame only: a time of day is kept by both when the DataFrame column is switched to TIMESTAMP by this very value *)
Definition agree18_csv_df (t : ty) (s : str) : bool :=
  nonempty s && match t with TDate => date_no_time s || has_time_at_10 s | _ => agree18_ty t s end.

Lemma csv_integer_plain : forall s, int_plain s = true -> csv_integer s = cast_bigint s.
Proof.
  intros s H. unfold int_plain in H. unfold csv_integer, cast_bigint, duck_int_cast.
  destruct (lex_radix (strip_c s)); [discriminate|].
  destruct (lex_dec (strip_c s)) as [[m e]|]; [|reflexivity].
  apply andb_true_iff in H. destruct H as [Hi Hs]. apply Z.ltb_lt in Hs.
  rewrite Hi, (round_half_away_integral _ _ Hi), (to_double_int_small _ Hs).
  destruct (small_in_int64 _ Hs) as [H1 H2]. rewrite H1, H2. reflexivity.
Qed.

Lemma stageA_csv_nonempty : forall t s nl, nonempty s = true ->
  stageA PCsv t nl true (RStr s) =
  match t, stageA_str PCsv t true s with
  | TString, Acc (SStr []) => if nl then Acc SNull else Acc (SStr [])
  | TBoolean, Acc SNull => if nl then Acc SNull else Rej E6
  | _, x => x end.
Proof. intros t s nl H. destruct s; [discriminate|reflexivity]. Qed.

Lemma stageA_df_nonempty : forall p t s nl ts, (p = PDfStr \/ p = PParquet) -> nonempty s = true ->
  stageA p t nl ts (RStr s) = stageA_str p t (match p with PDfStr => ts | _ => false end) s.
Proof. intros p t s nl ts [Hp | Hp] H; subst; destruct s; try discriminate; destruct t; reflexivity. Qed.

(* quotes removed from a non-empty string without quotes: still that string *)
Lemma csv_string_case : forall s (nl : bool), nonempty s = true -> mem_char c_quote s = false ->
  match stageA_str PCsv TString true s with
  | Acc (SStr []) => if nl then Acc SNull else Acc (SStr [])
  | x => x end = Acc (SStr s).
Proof.
  intros s nl Hn Hq. unfold stageA_str. simpl path_eqb. cbv iota. rewrite (remove_char_absent _ _ Hq).
  destruct s; [discriminate|reflexivity].
Qed.

Lemma csv_bool_case : forall s (nl : bool), nonempty s = true -> mem_char c_quote s = false ->
  match stageA_str PCsv TBoolean true s with
  | Acc SNull => if nl then Acc SNull else Rej E6
  | x => x end = stageA_str PDfStr TBoolean false s.
Proof.
  intros s nl Hn Hq. unfold stageA_str. simpl path_eqb. cbv iota. rewrite (remove_char_absent _ _ Hq).
  destruct s as [|c s]; [discriminate|]. destruct (cast_bool (c :: s)); reflexivity.
Qed.

Theorem loaders_agree_csv_df_partial : forall t s,
  agree18_csv_df t s = true -> accept_csv t (RStr s) = accept_df_str t (RStr s).
Proof.
  intros t s H. unfold agree18_csv_df in H. apply andb_true_iff in H. destruct H as [Hn H].
  unfold accept_csv, accept_df_str, accept_run.
  assert (stageA PCsv t true (own_col_ts PCsv (RStr s)) (RStr s) = stageA PDfStr t true (own_col_ts PDfStr (RStr s)) (RStr s)) as E.
  { unfold own_col_ts. rewrite (stageA_csv_nonempty _ _ _ Hn), (stageA_df_nonempty PDfStr _ _ _ _ (or_introl eq_refl) Hn).
    destruct t; cbn [agree18_ty] in H; try discriminate.
    - (* String *) apply negb_true_iff in H. unfold stageA_str. simpl path_eqb. cbv iota. rewrite (remove_char_absent _ _ H).
      destruct s; [discriminate | reflexivity].
    - (* Number *) reflexivity.
    - (* Integer *) unfold stageA_str. simpl path_eqb. cbv iota. rewrite (csv_integer_plain _ H). destruct (cast_bigint s); reflexivity.
    - (* Time *) reflexivity.
    - (* Date *) unfold stageA_str. destruct (matches re_VALID_DATE s); [|reflexivity].
      unfold date_no_time in H. destruct (cast_timestamp s) as [[d us]|]; [|reflexivity].
      unfold date_of_ts. simpl fst. simpl snd. destruct (has_time_at_10 s); [reflexivity|].
      rewrite orb_false_r in H. apply Z.eqb_eq in H. subst. reflexivity.
    - (* Time_Period *) reflexivity.
    - (* Duration *) reflexivity.
    - (* Boolean *) apply negb_true_iff in H. unfold stageA_str. simpl path_eqb. cbv iota. rewrite (remove_char_absent _ _ H).
      destruct s as [|c s]; [discriminate|]. destruct (cast_bool (c :: s)); reflexivity. }
  rewrite E. reflexivity.
Qed.

Theorem loaders_agree_df_parquet_partial : forall t s,
  agree18 t s = true -> accept_df_str t (RStr s) = accept_parquet t (RStr s).
Proof.
  intros t s H. unfold agree18 in H. apply andb_true_iff in H. destruct H as [Hn H].
  unfold accept_df_str, accept_parquet, accept_run.
  assert (stageA PDfStr t true (own_col_ts PDfStr (RStr s)) (RStr s) = stageA PParquet t true (own_col_ts PParquet (RStr s)) (RStr s)) as E.
  { unfold own_col_ts. rewrite (stageA_df_nonempty PDfStr _ _ _ _ (or_introl eq_refl) Hn), (stageA_df_nonempty PParquet _ _ _ _ (or_intror eq_refl) Hn).
    destruct t; cbn [agree18_ty] in H; try discriminate; try reflexivity.
    unfold stageA_str. destruct (matches re_VALID_DATE s); [|reflexivity].
    unfold date_no_time in H. destruct (cast_timestamp s) as [[d us]|]; [|reflexivity].
    apply Z.eqb_eq in H. subst. unfold date_of_ts. simpl fst. simpl snd. destruct (has_time_at_10 s); reflexivity. }
  rewrite E. reflexivity.
Qed.

Lemma agree18_implies_csv_df : forall t s, agree18 t s = true -> agree18_csv_df t s = true.
Proof.
  intros t s H. unfold agree18, agree18_csv_df in *. apply andb_true_iff in H. destruct H as [Hn H]. rewrite Hn. simpl.
  destruct t; auto. cbn [agree18_ty] in H. rewrite H. reflexivity.
Qed.

Theorem loaders_agree_partial : forall t s, agree18 t s = true ->
  accept_csv t (RStr s) = accept_df_str t (RStr s) /\ accept_df_str t (RStr s) = accept_parquet t (RStr s).
Proof.
  intros t s H. split; [apply loaders_agree_csv_df_partial, agree18_implies_csv_df | apply loaders_agree_df_parquet_partial]; assumption.
Qed.

(* nulls agree on every path *)
Theorem loaders_agree_null : forall t, accept_csv t RNull = Acc SNull /\ accept_df_str t RNull = Acc SNull /\
                                      accept_df_native t RNull = Acc SNull /\ accept_parquet t RNull = Acc SNull.
Proof. intro t. destruct t; vm_compute; auto. Qed.

(* ---- the DataFrame path accepts EVERY fractional decimal literal of an Integer component (it rounds), the CSV path refuses it *)
Theorem integer_fraction_rounded_by_dataframe_refused_by_csv : forall s m e,
  lex_radix (strip_c s) = None -> lex_dec (strip_c s) = Some (m, e) -> dec_integral m e = false ->
  in_int64 (round_half_away m e) = true -> s <> [] ->
  accept_df_str TInteger (RStr s) = Acc (SInt (round_half_away m e)) /\
  accept_parquet TInteger (RStr s) = Acc (SInt (round_half_away m e)) /\
  accept_csv TInteger (RStr s) = Rej E6.
Proof.
  intros s m e Hr Hl Hi Hrange Hne.
  assert (nonempty s = true) as Hn by (destruct s; [congruence | reflexivity]).
  unfold accept_df_str, accept_parquet, accept_csv, accept_run, own_col_ts.
  rewrite (stageA_csv_nonempty _ _ _ Hn), (stageA_df_nonempty PDfStr _ _ _ _ (or_introl eq_refl) Hn),
          (stageA_df_nonempty PParquet _ _ _ _ (or_intror eq_refl) Hn).
  unfold stageA_str. simpl path_eqb. cbv iota.
  unfold cast_bigint, duck_int_cast, csv_integer. rewrite Hr, Hl, Hi, Hrange. simpl. auto.
Qed.

(* ---- Duration: the loader pattern on UPPER(TRIM(x)) vs the six documented letters *)
Lemma matches_cls1 : forall neg rs s, matches (RCls neg rs) s = match s with [c] => cls_mem neg rs c | _ => false end.
Proof.
  intros neg rs s. destruct s as [|c [|d t]]; simpl; auto.
  - destruct (cls_mem neg rs c); reflexivity.
  - destruct (cls_mem neg rs c); simpl; apply matches_emp.
Qed.

Definition ascii_all (f : ascii -> bool) : bool :=
  forallb (fun n => f (ascii_of_nat n)) (seq 0 256).
Lemma ascii_all_sound : forall f, ascii_all f = true -> forall c, f c = true.
Proof.
  intros f H c. unfold ascii_all in H. rewrite forallb_forall in H.
  rewrite <- (ascii_nat_embedding c). apply H. apply in_seq. pose proof (nat_ascii_bounded c). lia.
Qed.

Lemma str_eqb_eq : forall a b, str_eqb a b = true -> a = b.
Proof.
  induction a as [|x a IH]; destruct b as [|y b]; simpl; intro H; try discriminate; auto.
  apply andb_true_iff in H. destruct H as [H1 H2]. apply Ascii.eqb_eq in H1. subst. f_equal. auto.
Qed.
Lemma str_eqb_refl : forall a, str_eqb a a = true.
Proof. induction a; simpl; auto. rewrite Ascii.eqb_refl. assumption. Qed.

(* ---- C19, value level: the acceptors against the documented formats, on decidable sub-domains (all strings) *)

(* String: every text cell of a DataFrame / Parquet file is returned unchanged *)
Theorem string_dataframe_exact : forall s, accept_df_str TString (RStr s) = Acc (SStr s) /\ accept_parquet TString (RStr s) = Acc (SStr s)
                                         /\ denote TString s = Some (SStr s).
Proof. intro s. repeat split; destruct s; reflexivity. Qed.
(* …and of a CSV file when it holds no double quote (and is not empty) *)
Theorem string_csv_exact : forall s, nonempty s = true -> mem_char c_quote s = false -> accept_csv TString (RStr s) = Acc (SStr s).
Proof.
  intros s Hn Hq. unfold accept_csv, accept_run, own_col_ts. rewrite (stageA_csv_nonempty _ _ _ Hn).
  unfold stageA_str. simpl path_eqb. cbv iota. rewrite (remove_char_absent _ _ Hq). destruct s; [discriminate | reflexivity].
Qed.

(* Integer: integral decimal literals inside int64 are accepted with their exact value by the DataFrame/Parquet path *)
Theorem integer_dataframe_partial : forall s m e,
  nonempty s = true -> strip_py s = strip_c s -> lex_radix (strip_c s) = None -> lex_dec (strip_c s) = Some (m, e) ->
  dec_integral m e = true -> in_int64 (dec_exact_Z m e) = true ->
  accept_df_str TInteger (RStr s) = Acc (SInt (dec_exact_Z m e)) /\ denote TInteger s = Some (SInt (dec_exact_Z m e)).
Proof.
  intros s m e Hn Hs Hr Hl Hi Hrg. split.
  - unfold accept_df_str, accept_run, own_col_ts. rewrite (stageA_df_nonempty PDfStr _ _ _ _ (or_introl eq_refl) Hn).
    unfold stageA_str. simpl path_eqb. cbv iota. unfold cast_bigint, duck_int_cast.
    rewrite Hr, Hl, (round_half_away_integral _ _ Hi), Hrg. reflexivity.
  - unfold denote, spec_integer. rewrite Hs, Hl, Hi. reflexivity.
Qed.
(* …and by the CSV path below 2^53 *)
Theorem integer_csv_partial : forall s m e,
  nonempty s = true -> strip_py s = strip_c s -> lex_dec (strip_c s) = Some (m, e) ->
  dec_integral m e = true -> Z.abs (dec_exact_Z m e) < 2 ^ 53 ->
  accept_csv TInteger (RStr s) = Acc (SInt (dec_exact_Z m e)) /\ denote TInteger s = Some (SInt (dec_exact_Z m e)).
Proof.
  intros s m e Hn Hs Hl Hi Hb. split.
  - unfold accept_csv, accept_run, own_col_ts. rewrite (stageA_csv_nonempty _ _ _ Hn).
    unfold stageA_str. simpl path_eqb. cbv iota. unfold csv_integer.
    rewrite Hl, Hi, (to_double_int_small _ Hb). destruct (small_in_int64 _ Hb) as [_ H2]. rewrite H2. reflexivity.
  - unfold denote, spec_integer. rewrite Hs, Hl, Hi. reflexivity.
Qed.

(* Number: same lexer on both sides, the only difference is the set of blanks stripped *)
Theorem number_partial : forall s, nonempty s = true -> strip_py s = strip_c s ->
  match denote TNumber s with
  | Some v => accept_df_str TNumber (RStr s) = Acc v /\ accept_csv TNumber (RStr s) = Acc v /\ accept_parquet TNumber (RStr s) = Acc v
  | None => accept_df_str TNumber (RStr s) = Rej E6 /\ accept_csv TNumber (RStr s) = Rej E6 /\ accept_parquet TNumber (RStr s) = Rej E6
  end.
Proof.
  intros s Hn Hs. unfold denote, spec_number, accept_df_str, accept_csv, accept_parquet, accept_run, own_col_ts.
  rewrite (stageA_csv_nonempty _ _ _ Hn), (stageA_df_nonempty PDfStr _ _ _ _ (or_introl eq_refl) Hn),
          (stageA_df_nonempty PParquet _ _ _ _ (or_intror eq_refl) Hn).
  unfold stageA_str, cast_decimal. rewrite Hs.
  destruct (lex_dec (strip_c s)) as [[m e]|]; [|auto].
  destruct (cast_decimal_me m e); simpl; auto.
Qed.

(* Boolean: every documented spelling is accepted with its value *)
Lemma lower_keeps_quote : forall s, mem_char c_quote (lower s) = false -> mem_char c_quote s = false.
Proof.
  induction s as [|x t IH]; [reflexivity|]. unfold mem_char, lower in *. cbn [map existsb]. intro H.
  apply orb_false_iff in H. destruct H as [H1 H2]. apply orb_false_iff. split; [|apply IH; exact H2].
  destruct (Ascii.eqb c_quote x) eqn:Q; [|reflexivity]. apply Ascii.eqb_eq in Q. subst x. vm_compute in H1. discriminate.
Qed.
Lemma lower_nonempty : forall s, nonempty (lower s) = true -> nonempty s = true.
Proof. destruct s; auto. Qed.

Lemma boolean_word_accepted : forall s b, cast_bool s = Some b -> nonempty s = true -> mem_char c_quote s = false ->
  accept_df_str TBoolean (RStr s) = Acc (SBool b) /\ accept_parquet TBoolean (RStr s) = Acc (SBool b) /\ accept_csv TBoolean (RStr s) = Acc (SBool b).
Proof.
  intros s b C Hn Hq. unfold accept_df_str, accept_parquet, accept_csv, accept_run, own_col_ts.
  rewrite (stageA_csv_nonempty _ _ _ Hn), (stageA_df_nonempty PDfStr _ _ _ _ (or_introl eq_refl) Hn),
          (stageA_df_nonempty PParquet _ _ _ _ (or_intror eq_refl) Hn).
  unfold stageA_str. simpl path_eqb. cbv iota. rewrite (remove_char_absent _ _ Hq), C.
  destruct s; [discriminate Hn|]. auto.
Qed.

Theorem boolean_documented_accepted : forall s b, spec_boolean s = Some b ->
  accept_df_str TBoolean (RStr s) = Acc (SBool b) /\ accept_parquet TBoolean (RStr s) = Acc (SBool b) /\ accept_csv TBoolean (RStr s) = Acc (SBool b).
Proof.
  intros s b H. unfold spec_boolean in H.
  destruct (is_str (lower s) "true" || is_str s "1") eqn:T.
  - inversion H; subst b. apply orb_true_iff in T. destruct T as [T | T]; apply str_eqb_eq in T.
    + apply boolean_word_accepted.
      * unfold cast_bool. rewrite T. reflexivity.
      * apply lower_nonempty. rewrite T. reflexivity.
      * apply lower_keeps_quote. rewrite T. reflexivity.
    + subst s. vm_compute. auto.
  - destruct (is_str (lower s) "false" || is_str s "0") eqn:Fz; [|discriminate].
    inversion H; subst b. apply orb_true_iff in Fz. destruct Fz as [T2 | T2]; apply str_eqb_eq in T2.
    + apply boolean_word_accepted.
      * unfold cast_bool. rewrite T2. reflexivity.
      * apply lower_nonempty. rewrite T2. reflexivity.
      * apply lower_keeps_quote. rewrite T2. reflexivity.
    + subst s. vm_compute. auto.
Qed.

(* Duration: on strings without lowercase letters or outer blanks, accepted exactly when documented, and returned unchanged *)
Lemma duration_pattern_is_documented : forall s, matches re_DURATION s = spec_duration s.
Proof.
  intro s. unfold re_DURATION. rewrite matches_cls1. unfold spec_duration.
  destruct s as [|c [|d t]]; [reflexivity | | ].
  - revert c. apply ascii_all_sound with (f := fun c => Bool.eqb (cls_mem false _ c) (in_strs [c] _)) || idtac.
    intro c. apply Bool.eqb_prop.
    exact (ascii_all_sound (fun c => Bool.eqb (cls_mem false [(ascii_of_nat 65, ascii_of_nat 65); (ascii_of_nat 83, ascii_of_nat 83);
                                                           (ascii_of_nat 81, ascii_of_nat 81); (ascii_of_nat 77, ascii_of_nat 77);
                                                           (ascii_of_nat 87, ascii_of_nat 87); (ascii_of_nat 68, ascii_of_nat 68)] c)
                                            (in_strs [c] [s_ "A"; s_ "S"; s_ "Q"; s_ "M"; s_ "W"; s_ "D"]))
             ltac:(vm_compute; reflexivity) c).
  - unfold in_strs. simpl. rewrite !andb_false_r. reflexivity.
Qed.

Theorem duration_partial : forall s, nonempty s = true -> upper (trim_sp s) = s ->
  accept_df_str TDuration (RStr s) = (if spec_duration s then Acc (SStr s) else Rej E6) /\
  accept_csv TDuration (RStr s) = (if spec_duration s then Acc (SStr s) else Rej E6) /\
  accept_parquet TDuration (RStr s) = (if spec_duration s then Acc (SStr s) else Rej E6).
Proof.
  intros s Hn Hu. unfold accept_df_str, accept_csv, accept_parquet, accept_run, own_col_ts.
  rewrite (stageA_csv_nonempty _ _ _ Hn), (stageA_df_nonempty PDfStr _ _ _ _ (or_introl eq_refl) Hn),
          (stageA_df_nonempty PParquet _ _ _ _ (or_intror eq_refl) Hn).
  unfold stageA_str. simpl stageB. unfold temporal_ok. destruct s as [|c t]; [discriminate|].
  rewrite Hu, duration_pattern_is_documented. destruct (spec_duration (c :: t)); auto.
Qed.

(* Date: every documented representation is accepted by the CSV path with the value it denotes *)
Theorem date_csv_documented_accepted : forall s v, spec_date s = Some v -> accept_csv TDate (RStr s) = Acc (STs (fst v) (snd v)).
Proof.
  intros s v H. unfold spec_date in H.
  destruct (matches re_VALID_DATE s && two_digit_md s) eqn:M; [|discriminate].
  apply andb_true_iff in M. destruct M as [M1 M2].
  destruct (lex_datetime s) as [f|] eqn:L; [|discriminate].
  destruct (year_ok_date (d_y f) && valid_date (d_y f) (d_m f) (d_d f) && match d_time f with Some t => time_ok t | None => true end) eqn:C; [|discriminate].
  inversion H; subst v. apply andb_true_iff in C. destruct C as [C C3]. apply andb_true_iff in C. destruct C as [C1 C2].
  assert (nonempty s = true) as Hn by (destruct s; [discriminate L | reflexivity]).
  unfold accept_csv, accept_run, own_col_ts. rewrite (stageA_csv_nonempty _ _ _ Hn).
  unfold stageA_str. rewrite M1. unfold cast_timestamp. rewrite L.
  assert ((1 <=? d_y f) = true) as Hy.
  { unfold year_ok_date in C1. apply andb_true_iff in C1. destruct C1 as [C1 _]. apply Z.leb_le in C1. apply Z.leb_le. lia. }
  rewrite Hy, C2, C3. reflexivity.
Qed.

(* Time: an interval written as the pattern demands, without lowercase letters or outer blanks, is returned unchanged — whatever its
   dates are (no calendar or order check at all) *)
Theorem time_interval_accepted_without_calendar_check : forall s, nonempty s = true -> upper (trim_sp s) = s ->
  accept_df_str TTime (RStr s) = (if matches re_TIME_INTERVAL s then Acc (SStr s) else Rej E6).
Proof.
  intros s Hn Hu. unfold accept_df_str, accept_run, own_col_ts.
  rewrite (stageA_df_nonempty PDfStr _ _ _ _ (or_introl eq_refl) Hn).
  unfold stageA_str. simpl stageB. unfold temporal_ok. destruct s as [|c t]; [discriminate|].
  rewrite Hu. destruct (matches re_TIME_INTERVAL (c :: t)); reflexivity.
Qed.

(* ---- C20: sub-domain on which validate_dataset and run() decide a text cell of a DataFrame alike *)
Definition agree20 (t : ty) (s : str) : bool :=
  nonempty s &&
  match t with
  | TString => true
  | TBoolean => match cast_bool s with Some _ => true | None => false end          (* the validator accepts ANY string *)
  | TDuration => (str_eqb (upper (trim_sp s)) s)                                   (* the validator knows the six capitals only *)
  | TNumber => str_eqb (strip_py s) (strip_c s) &&
               match lex_dec (strip_c s) with Some (m, e) => (match cast_decimal_me m e with Some _ => true | None => false end)
                                         | None => negb (match py_float s with Some _ => true | None => false end) end
  | TInteger => str_eqb (strip_py s) (strip_c s) &&
                match lex_radix (strip_c s) with
                | Some _ => false
                | None => match lex_dec (strip_c s) with
                          | Some (m, e) => dec_integral m e && (Z.abs (dec_exact_Z m e) <? 2 ^ 53)
                          | None => negb (match py_float s with Some _ => true | None => false end)
                          end
                end
  | _ => false                                                                     (* Date, Time, Time_Period: see the sweeps / witnesses *)
  end.

Definition accepts {A} (r : result A) : bool := match r with Acc _ => true | _ => false end.

Theorem validators_agree_partial : forall t s, agree20 t s = true ->
  accepts (accept_pandas t (RStr s)) = accepts (accept_df_str t (RStr s)).
Proof.
  intros t s H. unfold agree20 in H. apply andb_true_iff in H. destruct H as [Hn H].
  unfold accept_df_str, accept_run, own_col_ts. rewrite (stageA_df_nonempty PDfStr _ _ _ _ (or_introl eq_refl) Hn).
  unfold accept_pandas, accept_pandas_cell.
  destruct s as [|c0 s0]; [discriminate|]. set (s := c0 :: s0) in *.
  destruct t; try discriminate.
  - (* String *) reflexivity.
  - (* Number *) apply andb_true_iff in H. destruct H as [Hs H]. apply str_eqb_eq in Hs.
    unfold stageA_str, cast_decimal. unfold py_float in *. rewrite Hs in *.
    destruct (lex_dec (strip_c s)) as [[m e]|].
    + destruct (cast_decimal_me m e); [reflexivity | discriminate].
    + destruct (py_float_word (strip_c s)); [discriminate | reflexivity].
  - (* Integer *) apply andb_true_iff in H. destruct H as [Hs H]. apply str_eqb_eq in Hs.
    unfold stageA_str. simpl path_eqb. cbv iota. unfold cast_bigint, duck_int_cast. unfold py_float in *. rewrite Hs in *.
    destruct (lex_radix (strip_c s)); [discriminate|].
    destruct (lex_dec (strip_c s)) as [[m e]|].
    + apply andb_true_iff in H. destruct H as [Hi Hb]. apply Z.ltb_lt in Hb.
      rewrite Hi, (round_half_away_integral _ _ Hi), (to_double_int_small _ Hb).
      destruct (small_in_int64 _ Hb) as [H1 H2]. rewrite H1, H2. reflexivity.
    + destruct (py_float_word (strip_c s)); [discriminate | reflexivity].
  - (* Duration *) apply str_eqb_eq in H. unfold stageA_str. simpl stageB. unfold temporal_ok. fold s.
    rewrite H, duration_pattern_is_documented. unfold spec_duration. destruct (in_strs s _); reflexivity.
  - (* Boolean *) unfold stageA_str. simpl path_eqb. cbv iota. fold s. destruct (cast_bool s); [reflexivity | discriminate].
Qed.

(* ---- Time_Period: finite sweep over EVERY string of a documented shape (any digits in the number part, so that out-of-range
   numbers are included) for a set of years holding the four calendar kinds (common/leap x 52/53 ISO weeks) and the year bounds.
   Bound of the statement: the years of tp_years (stated in the evidence); the tails are complete for the documented shapes. *)
Definition dchars : list ascii := map (fun n => ascii_of_nat (48 + n)) (seq 0 10).
Fixpoint dstrs (k : nat) : list str := match k with O => [[]] | S j => flat_map (fun c => map (cons c) (dstrs j)) dchars end.
Definition pre (p : string) (l : list str) : list str := map (fun x => s_ p ++ x) l.
Definition two (n : nat) : str := lpad0 (render_Z (Z.of_nat n)) 2.
Definition tp_tails : list str :=
  [s_ ""; s_ "A"; s_ "-A1"] ++ pre "S" (dstrs 1) ++ pre "-S" (dstrs 1) ++ pre "Q" (dstrs 1) ++ pre "-Q" (dstrs 1)
  ++ pre "M" (dstrs 1 ++ dstrs 2) ++ pre "-M" (dstrs 1 ++ dstrs 2) ++ pre "-" (dstrs 1 ++ dstrs 2)
  ++ pre "W" (dstrs 1 ++ dstrs 2) ++ pre "-W" (dstrs 2)
  ++ pre "D" (dstrs 1 ++ dstrs 2 ++ dstrs 3) ++ pre "-D" (dstrs 1 ++ dstrs 2 ++ dstrs 3)
  ++ flat_map (fun m => map (fun d => s_ "-" ++ two m ++ s_ "-" ++ two d) (seq 0 33)) (seq 0 14).     (* YYYY-MM-DD, months 00-13, days 00-32 *)
Definition tp_years : list Z := [1000; 1800; 9999; 1996; 1997; 1998; 2004].   (* bounds; leap/52, common/52, common/53, leap/53 *)
Definition y4 (y : Z) : str := lpad0 (render_Z y) 4.
(* the acceptor and the documented formats say the same thing about s (same value, or both refuse) *)
Definition consistent19 (d : option sval) (a : result sval) : bool :=
  match d, a with
  | Some v, Acc w => sval_eqb v w
  | None, Acc _ => false
  | Some _, _ => false
  | None, _ => true end.
Definition tp_consistent (s : str) : bool := consistent19 (denote TPeriod s) (accept_df_str TPeriod (RStr s)).
(* the one gap on documented shapes: week 53 of a year that has 52 ISO weeks *)
Definition tp_gap (y : Z) (t : str) : bool := (weeks_in_year y =? 52) && (is_str t "W53" || is_str t "-W53").
Definition gap_shape (d : option sval) (a : result sval) : bool :=
  match a, d with Acc (SPer _ _ 53), None => true | _, _ => false end.
Definition tp_gap_witness (s : str) : bool := gap_shape (denote TPeriod s) (accept_df_str TPeriod (RStr s)).
Definition tp_c20 (s : str) : bool := Bool.eqb (accepts (accept_pandas TPeriod (RStr s))) (accepts (accept_df_str TPeriod (RStr s))).
Definition tp_point (y : Z) (t : str) : bool :=
  let s := y4 y ++ t in
  let a := accept_df_str TPeriod (RStr s) in let d := denote TPeriod s in
  (if tp_gap y t then gap_shape d a else consistent19 d a) && Bool.eqb (accepts (accept_pandas TPeriod (RStr s))) (accepts a).

Lemma tp_sweep : forallb (fun y => forallb (tp_point y) tp_tails) tp_years = true.
Proof. vm_compute. reflexivity. Qed.
Lemma tp_sweep_at : forall y t, In y tp_years -> In t tp_tails -> tp_point y t = true.
Proof.
  intros y t Hy Ht. pose proof tp_sweep as H. rewrite forallb_forall in H. specialize (H y Hy).
  rewrite forallb_forall in H. exact (H t Ht).
Qed.

Theorem period_documented_shapes_partial : forall y t, In y tp_years -> In t tp_tails -> tp_gap y t = false ->
  tp_consistent (y4 y ++ t) = true.
Proof.
  intros y t Hy Ht Hg. pose proof (tp_sweep_at y t Hy Ht) as H. unfold tp_point in H. rewrite Hg in H.
  apply andb_true_iff in H. exact (proj1 H).
Qed.
Theorem period_week53_gap : forall y t, In y tp_years -> In t tp_tails -> tp_gap y t = true -> tp_gap_witness (y4 y ++ t) = true.
Proof.
  intros y t Hy Ht Hg. pose proof (tp_sweep_at y t Hy Ht) as H. unfold tp_point in H. rewrite Hg in H.
  apply andb_true_iff in H. exact (proj1 H).
Qed.
Theorem period_validators_agree_on_documented_shapes : forall y t, In y tp_years -> In t tp_tails -> tp_c20 (y4 y ++ t) = true.
Proof.
  intros y t Hy Ht. pose proof (tp_sweep_at y t Hy Ht) as H. unfold tp_point in H.
  apply andb_true_iff in H. exact (proj2 H).
Qed.
