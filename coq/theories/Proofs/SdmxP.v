(* Lemmas for C27 (Model/Sdmx.v): everything by induction over ARBITRARY component lists, generic in the two mapping tables. *)
From Coq Require Import String List Bool Permutation Lia.
Import ListNotations.
From VTL Require Import Model.Sdmx.
Open Scope string_scope.

Section Generic.
  Variable dmap rmap : list (string * string).
  Variable on_unmapped : string -> outcome.

  Lemma conv_list_inr cs vs : conv_list dmap rmap on_unmapped cs = inr vs ->
    Forall2 (fun c v => conv1 dmap rmap on_unmapped c = inr v) cs vs.
  Proof.
    revert vs. induction cs as [|c t IH]; intros vs H; simpl in H.
    - injection H as <-. constructor.
    - destruct (conv1 dmap rmap on_unmapped c) as [o|v] eqn:E; [discriminate|].
      destruct (conv_list dmap rmap on_unmapped t) as [o|vs'] eqn:E2; [discriminate|].
      injection H as <-. constructor; [exact E | apply IH; reflexivity].
  Qed.

  Lemma conv1_inr c v : conv1 dmap rmap on_unmapped c = inr v ->
    vc_name v = sc_id c /\ lookup (sc_dtype c) dmap = Some (vc_type v) /\
    lookup (role_name (sc_role c)) rmap = Some (vc_role v) /\ vc_nullable v = negb (is_dim (sc_role c)).
  Proof.
    unfold conv1. destruct (lookup (sc_dtype c) dmap) as [t|]; [|discriminate].
    destruct (lookup (role_name (sc_role c)) rmap) as [r|]; [|discriminate].
    intros H. injection H as <-. simpl. auto.
  Qed.

  Lemma conv_list_total cs :
    (forall c, In c cs -> lookup (sc_dtype c) dmap <> None /\ lookup (role_name (sc_role c)) rmap <> None) ->
    exists vs, conv_list dmap rmap on_unmapped cs = inr vs.
  Proof.
    induction cs as [|c t IH]; intros H; simpl.
    - eauto.
    - destruct (H c (or_introl eq_refl)) as (Hd & Hr). unfold conv1.
      destruct (lookup (sc_dtype c) dmap) as [ty|]; [|contradiction].
      destruct (lookup (role_name (sc_role c)) rmap) as [r|]; [|contradiction].
      destruct IH as (vs & ->); [intros; apply H; right; assumption|]. eauto.
  Qed.

  (* a failing conversion is exactly what `on_unmapped` makes of some key *)
  Lemma conv_list_inl cs o : conv_list dmap rmap on_unmapped cs = inl o -> exists k, o = on_unmapped k.
  Proof.
    induction cs as [|c t IH]; simpl; [discriminate|].
    destruct (conv1 dmap rmap on_unmapped c) as [o'|v] eqn:E.
    - intros H. injection H as <-. unfold conv1 in E.
      destruct (lookup (sc_dtype c) dmap); [|injection E as <-; eauto].
      destruct (lookup (role_name (sc_role c)) rmap); [discriminate | injection E as <-; eauto].
    - destruct (conv_list dmap rmap on_unmapped t); [|discriminate]. intros H. injection H as <-. apply IH. reflexivity.
  Qed.
End Generic.

(* the grouping is a permutation of the components: every component is in exactly one of the three role groups *)
Lemma grouped_perm cs : Permutation cs (grouped cs).
Proof.
  unfold grouped. induction cs as [|c t IH]; simpl; [constructor|].
  destruct c as [i r d]; destruct r; simpl.
  - constructor. exact IH.
  - eapply perm_trans; [constructor; exact IH|]. apply Permutation_middle.
  - eapply perm_trans; [constructor; exact IH|].
    rewrite app_assoc. eapply perm_trans; [apply Permutation_middle|]. rewrite <- app_assoc. reflexivity.
Qed.

Lemma grouped_In cs c : In c (grouped cs) <-> In c cs.
Proof. split; intros H; [eapply Permutation_in; [symmetry; apply grouped_perm | exact H] | eapply Permutation_in; [apply grouped_perm | exact H]]. Qed.

Lemma Forall2_map_names dmap rmap u cs vs :
  Forall2 (fun c v => conv1 dmap rmap u c = inr v) cs vs -> map vc_name vs = map sc_id cs.
Proof.
  induction 1 as [|c v cs vs H _ IH]; simpl; [reflexivity|].
  apply conv1_inr in H. destruct H as (-> & _). f_equal. exact IH.
Qed.

Lemma Forall2_length {A B} (R : A -> B -> Prop) l1 l2 : Forall2 R l1 l2 -> length l1 = length l2.
Proof. induction 1; simpl; congruence. Qed.

Section Main.
  Variable dmap rmap : list (string * string).
  Variable u : string -> outcome.
  Hypothesis u_not_converted : forall k vs, u k <> Converted vs.

  Lemma to_vtl_json_converted cs vs : to_vtl_json dmap rmap u cs = Converted vs ->
    Forall2 (fun c v => conv1 dmap rmap u c = inr v) (grouped cs) vs.
  Proof.
    unfold to_vtl_json. destruct (conv_list dmap rmap u (grouped cs)) as [o|vs'] eqn:E.
    - intros ->. apply conv_list_inl in E. destruct E as (k & E). exfalso. exact (u_not_converted k vs (eq_sym E)).
    - intros H. injection H as <-. apply conv_list_inr. exact E.
  Qed.

  (* one VTL component per SDMX component: same identifiers (as a multiset), same count *)
  Lemma one_component_each cs vs : to_vtl_json dmap rmap u cs = Converted vs ->
    Permutation (map sc_id cs) (map vc_name vs) /\ length vs = length cs.
  Proof.
    intros H. apply to_vtl_json_converted in H. split.
    - rewrite (Forall2_map_names _ _ _ _ _ H). apply Permutation_map. apply grouped_perm.
    - rewrite <- (Forall2_length _ _ _ H). symmetry. apply Permutation_length. apply grouped_perm.
  Qed.

  (* each result component comes from a component of the structure with that name, the mapped type and role, and is
     nullable exactly when that component is not a dimension *)
  Lemma components_faithful cs vs : to_vtl_json dmap rmap u cs = Converted vs ->
    Forall2 (fun c v => In c cs /\ vc_name v = sc_id c /\ lookup (sc_dtype c) dmap = Some (vc_type v) /\
                        lookup (role_name (sc_role c)) rmap = Some (vc_role v) /\
                        vc_nullable v = negb (is_dim (sc_role c))) (grouped cs) vs.
  Proof.
    intros H. apply to_vtl_json_converted in H.
    assert (G : forall c, In c (grouped cs) -> In c cs) by (intros c; apply grouped_In).
    revert G. induction H as [|c v l l' Hc _ IH]; intros G; constructor.
    - split; [apply G; left; reflexivity | apply conv1_inr with (on_unmapped := u); exact Hc].
    - apply IH. intros c' Hc'. apply G. right. exact Hc'.
  Qed.

  Lemma total_when_mapped cs :
    (forall c, In c cs -> lookup (sc_dtype c) dmap <> None /\ lookup (role_name (sc_role c)) rmap <> None) ->
    exists vs, to_vtl_json dmap rmap u cs = Converted vs.
  Proof.
    intros H. unfold to_vtl_json.
    destruct (conv_list_total dmap rmap u (grouped cs)) as (vs & ->); [|eauto].
    intros c Hc. apply H. apply grouped_In. exact Hc.
  Qed.

  Lemma failure_is_on_unmapped cs o : to_vtl_json dmap rmap u cs = o -> (forall vs, o <> Converted vs) -> exists k, o = u k.
  Proof.
    unfold to_vtl_json. destruct (conv_list dmap rmap u (grouped cs)) as [o'|vs] eqn:E.
    - intros <- _. eapply conv_list_inl. exact E.
    - intros <- H. exfalso. apply (H vs). reflexivity.
  Qed.
End Main.

(* sweeps over finite lists of strings / roles *)
Lemma forallb_In {A} (P : A -> bool) l : forallb P l = true -> forall x, In x l -> P x = true.
Proof. intros H x Hx. rewrite forallb_forall in H. exact (H x Hx). Qed.

Lemma all_roles_complete r : In r all_roles.
Proof. destruct r; simpl; tauto. Qed.

Lemma ostring_eqb_eq a b : ostring_eqb a b = true <-> a = b.
Proof.
  destruct a, b; simpl; try (split; discriminate); try tauto.
  rewrite String.eqb_eq. split; [intros ->; reflexivity | intros H; injection H; auto].
Qed.

Lemma vcomp_eqb_eq a b : vcomp_eqb a b = true <-> a = b.
Proof.
  destruct a, b; unfold vcomp_eqb; simpl. rewrite !andb_true_iff, !String.eqb_eq, Bool.eqb_true_iff.
  split; [intros [[[-> ->] ->] ->]; reflexivity | intros H; injection H; auto].
Qed.

Lemma list_vcomp_eqb_eq a b : list_eqb vcomp_eqb a b = true <-> a = b.
Proof.
  revert b. induction a as [|x s IH]; destruct b as [|y t]; simpl; try (split; discriminate); try tauto.
  rewrite andb_true_iff, vcomp_eqb_eq, IH. split; [intros [-> ->]; reflexivity | intros H; injection H; auto].
Qed.

Lemma outcome_eqb_eq a b : outcome_eqb a b = true <-> a = b.
Proof.
  destruct a, b; simpl; try (split; discriminate); try tauto.
  - rewrite list_vcomp_eqb_eq. split; [intros ->; reflexivity | intros H; injection H; auto].
  - rewrite String.eqb_eq. split; [intros ->; reflexivity | intros H; injection H; auto].
  - rewrite String.eqb_eq. split; [intros ->; reflexivity | intros H; injection H; auto].
Qed.

Lemma ooutcome_eqb_eq a b : ooutcome_eqb a b = true <-> a = b.
Proof.
  destruct a, b; simpl; try (split; discriminate); try tauto.
  rewrite outcome_eqb_eq. split; [intros ->; reflexivity | intros H; injection H; auto].
Qed.

Lemma Forall2_weaken {A B} (P Q : A -> B -> Prop) l1 l2 :
  (forall a b, P a b -> Q a b) -> Forall2 P l1 l2 -> Forall2 Q l1 l2.
Proof. intros H. induction 1; constructor; auto. Qed.
