(* Base/Calendar.v — the proleptic Gregorian calendar over Z (definitions only; lemmas in Proofs/CalendarP.v).
   Days are counted from 1970-01-01 = 0 (Hinnant's days_from_civil / civil_from_days, written with floor division, so that
   they are total over Z).  ISO-8601 weekday / week / week-year.  Everything is executable (vm_compute). *)
From Coq Require Import ZArith Bool List.
Import ListNotations.
Open Scope Z_scope.

Definition is_leap (y : Z) : bool :=
  ((y mod 4 =? 0) && negb (y mod 100 =? 0)) || (y mod 400 =? 0).

Definition days_in_year (y : Z) : Z := if is_leap y then 366 else 365.

Definition days_in_month (y m : Z) : Z :=
  if m =? 2 then (if is_leap y then 29 else 28)
  else if (m =? 4) || (m =? 6) || (m =? 9) || (m =? 11) then 30 else 31.

Definition valid_date (y m d : Z) : bool :=
  (1 <=? m) && (m <=? 12) && (1 <=? d) && (d <=? days_in_month y m).

(* civil date -> day number *)
Definition days_from_civil (y m d : Z) : Z :=
  let y' := if m <=? 2 then y - 1 else y in
  let era := y' / 400 in
  let yoe := y' - era * 400 in
  let mp := (m + 9) mod 12 in
  let doy := (153 * mp + 2) / 5 + d - 1 in
  let doe := yoe * 365 + yoe / 4 - yoe / 100 + doy in
  era * 146097 + doe - 719468.

(* day number -> civil date *)
Definition civil_from_days (z0 : Z) : Z * Z * Z :=
  let z := z0 + 719468 in
  let era := z / 146097 in
  let doe := z - era * 146097 in
  let yoe := (doe - doe / 1460 + doe / 36524 - doe / 146096) / 365 in
  let y := yoe + era * 400 in
  let doy := doe - (365 * yoe + yoe / 4 - yoe / 100) in
  let mp := (5 * doy + 2) / 153 in
  let d := doy - (153 * mp + 2) / 5 + 1 in
  let m := if mp <? 10 then mp + 3 else mp - 9 in
  (if m <=? 2 then y + 1 else y, m, d).

Definition year_of (z : Z) : Z := let '(y, _, _) := civil_from_days z in y.
Definition month_of (z : Z) : Z := let '(_, m, _) := civil_from_days z in m.
Definition day_of (z : Z) : Z := let '(_, _, d) := civil_from_days z in d.

Definition jan1 (y : Z) : Z := days_from_civil y 1 1.
(* 1-based ordinal day of the year *)
Definition doy_of (z : Z) : Z := z - jan1 (year_of z) + 1.
Definition date_of_doy (y n : Z) : Z := jan1 y + n - 1.
Definition last_day_of_month (y m : Z) : Z := days_from_civil y m (days_in_month y m).

(* ISO weekday: 1 = Monday … 7 = Sunday (1970-01-01 was a Thursday) *)
Definition iso_dow (z : Z) : Z := (z + 3) mod 7 + 1.
Definition monday_of (z : Z) : Z := z - (z + 3) mod 7.
Definition thursday_of (z : Z) : Z := monday_of z + 3.

(* Monday of ISO week 1 of year y = the Monday on or before 4 January *)
Definition week1_monday (y : Z) : Z := monday_of (days_from_civil y 1 4).

Definition iso_year_of (z : Z) : Z := year_of (thursday_of z).
Definition iso_week_of (z : Z) : Z := (thursday_of z - jan1 (iso_year_of z)) / 7 + 1.

(* number of ISO weeks of year y: the week number of 28 December *)
Definition weeks_in_year (y : Z) : Z := iso_week_of (days_from_civil y 12 28).

Definition iso_week_start (y w : Z) : Z := week1_monday y + 7 * (w - 1).

(* month arithmetic (dateadd): add k months, clamping the day to the target month's length (DuckDB/SQL semantics) *)
Definition add_months (z k : Z) : Z :=
  let '(y, m, d) := civil_from_days z in
  let t := y * 12 + (m - 1) + k in
  let y2 := t / 12 in
  let m2 := t mod 12 + 1 in
  days_from_civil y2 m2 (Z.min d (days_in_month y2 m2)).

(* enumeration helpers: zrange lo n = [lo; lo+1; …; lo+n-1];  all_range lo n P = P holds on all of them *)
Fixpoint zrange_fuel (fuel : nat) (lo : Z) : list Z :=
  match fuel with O => [] | S f => lo :: zrange_fuel f (lo + 1) end.
Definition zrange (lo n : Z) : list Z := zrange_fuel (Z.to_nat n) lo.

Fixpoint all_fuel (fuel : nat) (lo : Z) (P : Z -> bool) : bool :=
  match fuel with O => true | S f => if P lo then all_fuel f (lo + 1) P else false end.
Definition all_range (lo n : Z) (P : Z -> bool) : bool := all_fuel (Z.to_nat n) lo P.
