(* Scalar values of the VTL model.  Integers are unbounded Z, Numbers exact rationals Q (kept reduced by the operators),
   strings are Coq byte strings.  Definitions only. *)
From Coq Require Import ZArith QArith Qreduction String List Bool.
Import ListNotations.
Open Scope Z_scope.

Inductive val :=
| VNull
| VInt (z : Z)
| VNum (q : Q)
| VStr (s : string)
| VBool (b : bool).

Definition q_eqb (a b : Q) : bool := Qeq_bool a b.

Definition val_eqb (a b : val) : bool :=
  match a, b with
  | VNull, VNull => true
  | VInt x, VInt y => Z.eqb x y
  | VNum x, VNum y => q_eqb x y
  | VStr x, VStr y => String.eqb x y
  | VBool x, VBool y => Bool.eqb x y
  | _, _ => false
  end.

Definition is_null (v : val) : bool := match v with VNull => true | _ => false end.

(* identifier keys: lists of values compared pointwise *)
Fixpoint key_eqb (a b : list val) : bool :=
  match a, b with
  | [], [] => true
  | x :: a', y :: b' => val_eqb x y && key_eqb a' b'
  | _, _ => false
  end.

(* results of evaluation: a value or a VTL error code *)
Inductive res (A : Type) := Ok (a : A) | Err (code : string).
Arguments Ok {A} a.
Arguments Err {A} code.

Definition bind {A B} (r : res A) (f : A -> res B) : res B :=
  match r with Ok a => f a | Err c => Err c end.

Fixpoint mapM {A B} (f : A -> res B) (l : list A) : res (list B) :=
  match l with
  | [] => Ok []
  | x :: t => bind (f x) (fun y => bind (mapM f t) (fun ys => Ok (y :: ys)))
  end.
