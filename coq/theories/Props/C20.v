(* C20 — validate_dataset() raises exactly when run() of a script that reads the dataset rejects the same input.
   accept_pandas / load_pandas = faithful model of files/parser/_validate_pandas + check_date / check_time / check_time_period
   (regexes regenerated from the code); accept_df_str / load_run = the DuckDB loader of run().  Both are tied to the engine on every
   run (K).  The full statement is false on the faithful models (witnesses below, each replayed on the engine); the partial theorem
   holds on the decidable sub-domain agree20 (all strings) and, for Time_Period, on every string of a documented shape (sweep). *)
From Coq Require Import ZArith Ascii String List Bool.
Import ListNotations.
From VTL Require Import Base.Calendar Model.Types Model.Regex Gen.Regex Model.Loader Proofs.LoaderP.
Open Scope Z_scope.

Definition validators_agree_cells : Prop :=
  forall t r, accepts (accept_pandas t r) = accepts (accept_df_str t r).
Definition taccepts (r : tresult) : bool := match r with TAcc _ => true | _ => false end.
Definition validators_agree_tables : Prop :=
  forall st tb, taccepts (load_pandas false st tb) = taccepts (load_run PDfStr st tb).

Theorem C20_validators_agree_refuted : ~ validators_agree_cells.
Proof. intro H. specialize (H TBoolean (RStr (s_ "abc"))). vm_compute in H. discriminate. Qed.

(* value level: (validator outcome, run() outcome) *)
Theorem C20_witnesses_validate_accepts_run_rejects :
  (accept_pandas TBoolean (RStr (s_ "abc")) = Acc tt /\ accept_df_str TBoolean (RStr (s_ "abc")) = Rej E6) /\        (* any string is a Boolean for the validator *)
  (accept_pandas TInteger (RStr []) = Acc tt /\ accept_df_str TInteger (RStr []) = Rej E6) /\                      (* '' is null for the validator only *)
  (accept_pandas TNumber (RStr (s_ "inf")) = Acc tt /\ accept_df_str TNumber (RStr (s_ "inf")) = Rej E6) /\
  (accept_pandas TNumber (RStr (s_ "1e18")) = Acc tt /\ accept_df_str TNumber (RStr (s_ "1e18")) = Rej E6) /\       (* DECIMAL(28,10) range *)
  (accept_pandas TInteger (RStr (s_ "nan")) = Acc tt /\ accept_df_str TInteger (RStr (s_ "nan")) = Rej E6) /\
  (accept_pandas TTime (RStr (s_ "2020")) = Acc tt /\ accept_df_str TTime (RStr (s_ "2020")) = Rej E6) /\           (* documented YYYY form *)
  (accept_pandas TTime (RStr (s_ "2020-06")) = Acc tt /\ accept_df_str TTime (RStr (s_ "2020-06")) = Rej E6) /\
  (accept_pandas TDate (RStr (s_ " 2020-01-15")) = Acc tt /\ accept_df_str TDate (RStr (s_ " 2020-01-15")) = Rej E6) /\
  (accept_pandas TDate (RStr (s_ "20200115")) = Acc tt /\ accept_df_str TDate (RStr (s_ "20200115")) = Rej E6) /\
  (accept_pandas TPeriod (RStr (s_ "2020-1-1")) = Acc tt /\ accept_df_str TPeriod (RStr (s_ "2020-1-1")) = Rej E6) /\
  (accept_pandas TPeriod (RStr []) = Acc tt /\ accept_df_str TPeriod (RStr []) = Late RAW_ValueError).
Proof. vm_compute. repeat split; reflexivity. Qed.
Theorem C20_witnesses_validate_rejects_run_accepts :
  (accept_pandas TInteger (RStr (s_ "1.5")) = Rej E6 /\ accept_df_str TInteger (RStr (s_ "1.5")) = Acc (SInt 2)) /\
  (accept_pandas TInteger (RStr (s_ "0x1A")) = Rej E6 /\ accept_df_str TInteger (RStr (s_ "0x1A")) = Acc (SInt 26)) /\
  (accept_pandas TDate (RStr (s_ "1799-12-31")) = Rej E6 /\ accept_df_str TDate (RStr (s_ "1799-12-31")) = Acc (STs (-62092) 0)) /\
  (accept_pandas TDate (RStr (s_ "2020-1-5")) = Rej E6 /\ accept_df_str TDate (RStr (s_ "2020-1-5")) = Acc (STs 18266 0)) /\
  (accept_pandas TTime (RStr (s_ "2020-12-31/2020-01-01")) = Rej E6 /\ accept_df_str TTime (RStr (s_ "2020-12-31/2020-01-01")) = Acc (SStr (s_ "2020-12-31/2020-01-01"))) /\
  (accept_pandas TPeriod (RStr (s_ "2020q1")) = Rej E6 /\ accept_df_str TPeriod (RStr (s_ "2020q1")) = Acc (SPer 2020 "Q" 1)) /\
  (accept_pandas TPeriod (RStr (s_ "2020M123")) = Rej E6 /\ accept_df_str TPeriod (RStr (s_ "2020M123")) = Acc (SPer 2020 "M" 12)) /\
  (accept_pandas TPeriod (RStr (s_ "2020X1")) = Rej E6 /\ accept_df_str TPeriod (RStr (s_ "2020X1")) = Acc (SPer 2020 "D" 1)) /\
  (accept_pandas TDuration (RStr (s_ "d")) = Rej E6 /\ accept_df_str TDuration (RStr (s_ "d")) = Acc (SStr (s_ "d"))) /\
  (accept_pandas TDate (RTs 18276 0) = Late RAW_AttributeError /\ accept_df_native TDate (RTs 18276 0) = Acc (STs 18276 0)).  (* native datetime64 *)
Proof. vm_compute. repeat split; reflexivity. Qed.

(* table level *)
Theorem C20_tables_refuted : ~ validators_agree_tables.
Proof.
  intro H. specialize (H [mkComp "Id_1" TInteger true false] (mkTable ["Id_1"%string; "Zz"%string] [[RStr (s_ "1"); RStr (s_ "q")]])).
  vm_compute in H. discriminate.
Qed.
Theorem C20_table_witnesses :
  let st := [mkComp "Id_1" TInteger true false; mkComp "Me_1" TString false false] in
  (* an extra column: only the validator objects *)
  (load_pandas false [mkComp "Id_1" TInteger true false] (mkTable ["Id_1"%string; "Zz"%string] [[RStr (s_ "1"); RStr (s_ "q")]]) = TRej E15 /\
   load_run PDfStr [mkComp "Id_1" TInteger true false] (mkTable ["Id_1"%string; "Zz"%string] [[RStr (s_ "1"); RStr (s_ "q")]]) = TAcc [[SInt 1]]) /\
  (* a null in a non-nullable measure: only run() objects *)
  (load_pandas false st (mkTable ["Id_1"%string; "Me_1"%string] [[RStr (s_ "1"); RNull]]) = TAcc [] /\
   load_run PDfStr st (mkTable ["Id_1"%string; "Me_1"%string] [[RStr (s_ "1"); RNull]]) = TRej E3) /\
  (* a DataFrame without rows and without its identifier column: only the validator objects *)
  (load_pandas false st (mkTable ["Me_1"%string] []) = TRej E5 /\ load_run PDfStr st (mkTable ["Me_1"%string] []) = TAcc []).
Proof. vm_compute. repeat split; reflexivity. Qed.

(* --- partial: on agree20 (decidable, every string) the two deciders agree on a text cell *)
Theorem C20_validators_agree_partial : forall t s, agree20 t s = true ->
  accepts (accept_pandas t (RStr s)) = accepts (accept_df_str t (RStr s)).
Proof. exact validators_agree_partial. Qed.
(* Time_Period: they agree on every string of a documented shape (finite sweep; bound = tp_years) *)
Theorem C20_period_validators_agree_on_documented_shapes : forall y t, In y tp_years -> In t tp_tails -> tp_c20 (y4 y ++ t) = true.
Proof. exact period_validators_agree_on_documented_shapes. Qed.
(* both judge duplicates with the same exact check *)
Theorem C20_duplicate_check_is_exact : forall keys, has_duplicates keys = true <-> dup_pair keys.
Proof. exact has_duplicates_spec. Qed.

Example C20_partial_domain_inhabited :
  agree20 TInteger (s_ "42") = true /\ agree20 TInteger (s_ "abc") = true /\ agree20 TNumber (s_ "3.14") = true /\ agree20 TBoolean (s_ "yes") = true /\
  agree20 TString (s_ "x""y") = true /\ agree20 TDuration (s_ "Q") = true /\ agree20 TDuration (s_ "X") = true /\
  agree20 TInteger (s_ "1.5") = false /\ agree20 TBoolean (s_ "abc") = false /\ agree20 TDuration (s_ "d") = false.
Proof. vm_compute. repeat split; reflexivity. Qed.

Print Assumptions C20_validators_agree_refuted.
Print Assumptions C20_tables_refuted.
Print Assumptions C20_validators_agree_partial.
Print Assumptions C20_period_validators_agree_on_documented_shapes.
Print Assumptions C20_witnesses_validate_accepts_run_rejects.
Print Assumptions C20_witnesses_validate_rejects_run_accepts.
