(* C08 — time operators follow the real calendar.
   Part A: theorems about the SPECIFICATION (Model/Period.v Part 1 over Base/Calendar.v), for ALL years and ALL shifts (Z):
           no sweep is presented as an unbounded claim — the two 400-year sweeps inside Proofs/CalendarP.v are lifted to Z by the
           proved periodicity lemmas era_lift_days / era_lift_years.
   Part B: theorems about the ENGINE's macros as transcribed in Model/Period.v Part 2 (`*_impl`; tied to the real SQL on every run by
           harness/props/c08.py, exhaustively over 1900-2100 in the thorough tier): where they compute the calendar (`*_ok`, incl. vtl_tp_shift after
           fixes 1bd5380, 50e3447): all `*_ok`; the pre-fix behaviour survives only as `*_before_fix` regression witnesses. *)
From Coq Require Import ZArith Bool List.
Import ListNotations.
From VTL Require Import Base.Calendar Proofs.CalendarP Model.Period Proofs.PeriodP.
Open Scope Z_scope.

(* ------------------------------------------------------------------ the calendar *)
Theorem C08_days_civil_roundtrip : forall z, let '(y, m, d) := civil_from_days z in
  valid_date y m d = true /\ days_from_civil y m d = z.
Proof. intros z. pose proof (civil_from_days_valid z). pose proof (days_civil_roundtrip z). destruct (civil_from_days z) as [[y m] d]. auto. Qed.
Print Assumptions C08_days_civil_roundtrip.

Theorem C08_civil_days_roundtrip : forall y m d, valid_date y m d = true -> civil_from_days (days_from_civil y m d) = (y, m, d).
Proof. exact civil_days_roundtrip. Qed.
Print Assumptions C08_civil_days_roundtrip.

Theorem C08_weeks_in_year_52_53 : forall y, weeks_in_year y = 52 \/ weeks_in_year y = 53.
Proof. exact weeks_in_year_52_53. Qed.
Print Assumptions C08_weeks_in_year_52_53.

Theorem C08_weeks_in_year_53_iff : forall y,
  weeks_in_year y = 53 <-> (iso_dow (jan1 y) = 4 \/ (is_leap y = true /\ iso_dow (jan1 y) = 3)).
Proof. exact weeks_in_year_53_iff. Qed.
Print Assumptions C08_weeks_in_year_53_iff.

Theorem C08_days_in_year_366_iff_leap : forall y, days_in_year y = 366 <-> is_leap y = true.
Proof. exact days_in_year_366_iff_leap. Qed.
Print Assumptions C08_days_in_year_366_iff_leap.

Theorem C08_year_length : forall y, jan1 (y + 1) = jan1 y + days_in_year y /\ week1_monday (y + 1) = week1_monday y + 7 * weeks_in_year y.
Proof. intros y. split; [apply jan1_succ | apply weeks_in_year_spec]. Qed.
Print Assumptions C08_year_length.

Theorem C08_iso_week_of_date : forall z,
  1 <= iso_week_of z <= weeks_in_year (iso_year_of z) /\
  iso_week_start (iso_year_of z) (iso_week_of z) <= z < iso_week_start (iso_year_of z) (iso_week_of z) + 7.
Proof. intros z. split; [apply iso_week_of_range|]. rewrite iso_week_start_of. apply monday_of_spec. Qed.
Print Assumptions C08_iso_week_of_date.

(* ------------------------------------------------------------------ validity: week 53 / day 366 exist exactly when the calendar has them *)
Theorem C08_period_valid_iff : forall p, period_valid p = true <-> 1 <= p_num p <= periods_in_year (p_ind p) (p_year p).
Proof. exact period_valid_iff. Qed.
Print Assumptions C08_period_valid_iff.

Theorem C08_week53_valid_iff : forall y,
  period_valid (mkP y IW 53) = true <-> (iso_dow (jan1 y) = 4 \/ (is_leap y = true /\ iso_dow (jan1 y) = 3)).
Proof. exact week53_valid_iff. Qed.
Print Assumptions C08_week53_valid_iff.

Theorem C08_day366_valid_iff : forall y, period_valid (mkP y ID 366) = true <-> is_leap y = true.
Proof. exact day366_valid_iff. Qed.
Print Assumptions C08_day366_valid_iff.

(* ------------------------------------------------------------------ timeshift *)
(* shift_spec: `shift p n` is the period n steps away in calendar order: `index` is a bijection between the valid periods of an
   indicator and Z, one step of it is the next period of the calendar, and shift adds n to it *)
Theorem C08_shift_spec : forall p n, period_valid p = true ->
  period_valid (shift p n) = true /\ p_ind (shift p n) = p_ind p /\ index (shift p n) = index p + n.
Proof. intros p n _. split; [apply shift_valid|]. split; [apply shift_ind | apply index_shift]. Qed.
Print Assumptions C08_shift_spec.

Theorem C08_index_bijection : (forall p, period_valid p = true -> of_index (p_ind p) (index p) = p) /\
  (forall i k, period_valid (of_index i k) = true /\ p_ind (of_index i k) = i /\ index (of_index i k) = k).
Proof. split; [exact of_index_index|]. intros i k. split; [apply of_index_valid|]. split; [apply of_index_ind | apply index_of_index]. Qed.
Print Assumptions C08_index_bijection.

Theorem C08_shift_one_is_next_period : forall p, period_valid p = true ->
  shift p 1 = next_period p /\ shift p (-1) = prev_period p.
Proof. intros p V. split; [apply shift_one_next, V | apply shift_minus_one_prev, V]. Qed.
Print Assumptions C08_shift_one_is_next_period.

Theorem C08_shift_is_iterated_step : forall p (n : nat), period_valid p = true ->
  shift p (Z.of_nat n) = iter_period n next_period p /\ shift p (- Z.of_nat n) = iter_period n prev_period p.
Proof. intros p n V. split; [apply shift_iter_next, V | apply shift_iter_prev, V]. Qed.
Print Assumptions C08_shift_is_iterated_step.

Theorem C08_shift_inverse : forall p n, period_valid p = true -> shift (shift p n) (- n) = p.
Proof. exact shift_inverse. Qed.
Print Assumptions C08_shift_inverse.

(* distinct valid periods are never shifted onto the same period: no duplicate identifiers *)
Theorem C08_shift_injective : forall p q n, period_valid p = true -> period_valid q = true -> shift p n = shift q n -> p = q.
Proof. exact shift_injective. Qed.
Print Assumptions C08_shift_injective.

Theorem C08_shift_add : forall p n m, shift (shift p n) m = shift p (n + m).
Proof. exact shift_add. Qed.
Print Assumptions C08_shift_add.

(* ------------------------------------------------------------------ start / end dates, time_agg *)
Theorem C08_start_end_dates : forall p, period_valid p = true ->
  start_date p <= end_date p /\ start_date (next_period p) = end_date p + 1.
Proof. intros p V. split; [apply start_le_end, V | apply tiling, V]. Qed.
Print Assumptions C08_start_end_dates.

Theorem C08_period_of_date_contains : forall i z,
  let q := period_of_date i z in p_ind q = i /\ period_valid q = true /\ start_date q <= z <= end_date q.
Proof. exact period_of_date_contains. Qed.
Print Assumptions C08_period_of_date_contains.

Theorem C08_time_agg_contains : forall t p q, period_valid p = true -> time_agg t p = Some q ->
  p_ind q = t /\ period_valid q = true /\ start_date q <= end_date p <= end_date q.
Proof. exact time_agg_contains. Qed.
Print Assumptions C08_time_agg_contains.

Theorem C08_time_agg_error_iff_finer : forall t p, time_agg t p = None <-> rank t < rank (p_ind p).
Proof. exact time_agg_none_iff. Qed.
Print Assumptions C08_time_agg_error_iff_finer.

Theorem C08_datediff_sym : forall a b, datediff a b = datediff b a.
Proof. exact datediff_sym. Qed.
Print Assumptions C08_datediff_sym.

Theorem C08_dateadd_days_weeks : forall z n,
  dateadd (dateadd z n ID) (- n) ID = z /\ dateadd (dateadd z n IW) (- n) IW = z /\ iso_dow (dateadd z n IW) = iso_dow z.
Proof. intros z n. split; [apply dateadd_days_inverse | apply dateadd_weeks_inverse]. Qed.
Print Assumptions C08_dateadd_days_weeks.

Theorem C08_dayofyear_getmonth : forall p, period_valid p = true ->
  (1 <= dayofyear p <= days_in_year (year_of (end_date p))) /\
  (p_ind p = ID -> dayofyear p = p_num p) /\ (p_ind p = IM -> getmonth p = p_num p).
Proof. intros p V. split; [apply dayofyear_range, V|]. split; intros E; [apply dayofyear_day | apply getmonth_month]; assumption. Qed.
Print Assumptions C08_dayofyear_getmonth.

(* ------------------------------------------------------------------ dataset level *)
Theorem C08_fill_time_series_gap_free : forall lo hi q, period_valid lo = true -> index lo <= index hi ->
  (In q (fill_range lo hi) <-> (p_ind q = p_ind lo /\ period_valid q = true /\ index lo <= index q <= index hi)).
Proof. exact fill_range_spec. Qed.
Print Assumptions C08_fill_time_series_gap_free.

Theorem C08_flow_stock_inverse : forall l, stock_to_flow (flow_to_stock l) = l /\ flow_to_stock (stock_to_flow l) = l.
Proof. intros l. split; [apply flow_stock_inverse | apply stock_flow_inverse]. Qed.
Print Assumptions C08_flow_stock_inverse.

(* ================================================================== Part B: the engine's macros *)
(* on valid periods the date macros, the extractors and time_agg compute the calendar's values *)
Theorem C08_macro_dates_ok : forall p, period_valid p = true ->
  start_date_impl p = Some (start_date p) /\ end_date_impl p = Some (end_date p) /\
  getmonth_impl p = Some (getmonth p) /\ dayofmonth_impl p = Some (dayofmonth p) /\ dayofyear_impl p = Some (dayofyear p).
Proof.
  intros p V. split; [apply start_date_impl_ok, V|]. split; [apply end_date_impl_ok, V|]. split; [apply getmonth_impl_ok, V|].
  split; [apply dayofmonth_impl_ok, V | apply dayofyear_impl_ok, V].
Qed.
Print Assumptions C08_macro_dates_ok.

Theorem C08_macro_time_agg_ok : forall p t, period_valid p = true ->
  time_agg_tp_impl p t = match time_agg t p with Some q => AggOk q | None => AggFiner end.
Proof. exact time_agg_tp_impl_ok. Qed.
Print Assumptions C08_macro_time_agg_ok.

Theorem C08_macro_datediff_dateadd_ok : forall a b z n u, period_valid a = true -> period_valid b = true ->
  datediff_impl a b = Some (datediff a b) /\ dateadd_impl z n u = dateadd z n u.
Proof. intros a b z n u Va Vb. split; [apply datediff_impl_ok; assumption | apply dateadd_impl_ok]. Qed.
Print Assumptions C08_macro_datediff_dateadd_ok.

(* vtl_tp_shift (after fix 1bd5380 in /repo: W and D go through the calendar): the FULL statement, every indicator, every year,
   every shift; hence inverse and injectivity (no duplicate identifiers) hold for the engine's macro itself *)
Theorem C08_macro_shift_ok : forall p n, period_valid p = true -> shift_impl p n = Some (shift p n).
Proof. exact macro_shift_ok. Qed.
Print Assumptions C08_macro_shift_ok.

Theorem C08_macro_shift_inverse : forall p n, period_valid p = true ->
  opt_bind (shift_impl p n) (fun q => shift_impl q (- n)) = Some p.
Proof. exact macro_shift_inverse. Qed.
Print Assumptions C08_macro_shift_inverse.

Theorem C08_macro_shift_injective : forall p q n, period_valid p = true -> period_valid q = true ->
  shift_impl p n = shift_impl q n -> p = q.
Proof. exact macro_shift_injective. Qed.
Print Assumptions C08_macro_shift_injective.

(* the step of fill_time_series (_TP_NEXT_PERIOD after fix 50e3447: vtl_periods_in_year) is the next period of the calendar *)
Theorem C08_macro_next_ok : forall p, period_valid p = true ->
  next_impl p = next_period p /\ periods_in_year_impl (p_ind p) (p_year p) = periods_in_year (p_ind p) (p_year p).
Proof. intros p V. split; [apply macro_next_ok, V | apply periods_in_year_impl_ok]. Qed.
Print Assumptions C08_macro_next_ok.

(* REGRESSION WITNESSES: the macro as it was before the fix (constant limits 52 / 365 for W / D) did not compute the calendar shift,
   was not injective on valid periods (duplicate identifiers) and n then -n was not the identity.  The same inputs are in
   /verif/corpus/C08 and must now PASS on the engine. *)
Theorem C08_shift_before_fix_refuted :
  (exists p n, period_valid p = true /\ shift_before_fix p n <> shift p n) /\
  (exists p q n, period_valid p = true /\ period_valid q = true /\ p <> q /\ shift_before_fix p n = shift_before_fix q n) /\
  (exists p n, period_valid p = true /\ shift_before_fix (shift_before_fix p n) (- n) <> p) /\
  (exists p q n, p_ind p = ID /\ period_valid p = true /\ period_valid q = true /\ p <> q /\ shift_before_fix p n = shift_before_fix q n).
Proof.
  split; [|split; [|split]].
  - exists (mkP 2020 IW 53), 1. split; [reflexivity | vm_compute; discriminate].
  - exists (mkP 2020 IW 53), (mkP 2021 IW 1), 1. split; [reflexivity|]. split; [reflexivity|]. split; [discriminate | reflexivity].
  - exists (mkP 2020 IW 53), 1. split; [reflexivity | vm_compute; discriminate].
  - exists (mkP 2020 ID 366), (mkP 2021 ID 1), 1. repeat (split; [reflexivity|]). split; [discriminate | reflexivity].
Qed.
Print Assumptions C08_shift_before_fix_refuted.

(* REGRESSION WITNESS: before fix 50e3447 the step of fill_time_series used the constant limits (52 / 365) and never produced
   week 53 / day 366 *)
Theorem C08_next_before_fix_refuted :
  (exists p, period_valid p = true /\ period_valid (next_period p) = true /\ next_before_fix p <> next_period p) /\
  (exists y, period_limit_impl IW <> periods_in_year IW y) /\ (exists y, period_limit_impl ID <> periods_in_year ID y).
Proof.
  split; [exists (mkP 2020 IW 52); split; [reflexivity|]; split; [reflexivity | vm_compute; discriminate]|].
  split; exists 2020; vm_compute; discriminate.
Qed.
Print Assumptions C08_next_before_fix_refuted.

(* ------------------------------------------------------------------ the hypotheses are satisfiable *)
Example C08_hypotheses_satisfiable :
  period_valid (mkP 2020 IW 53) = true /\ period_valid (mkP 2021 IW 53) = false /\
  period_valid (mkP 2020 ID 366) = true /\ period_valid (mkP 2021 ID 366) = false /\
  shift (mkP 2020 IW 52) 2 = mkP 2021 IW 1 /\ shift (mkP 2020 ID 366) 1 = mkP 2021 ID 1 /\
  time_agg IM (mkP 2020 IW 53) = Some (mkP 2021 IM 1) /\ time_agg ID (mkP 2020 IM 1) = None /\
  index (mkP 2020 IM 1) <= index (mkP 2020 IM 3) /\ valid_date 2020 2 29 = true.
Proof. vm_compute. repeat split; try reflexivity; discriminate. Qed.
