(* C02 — clause operators (filter, calc, keep, drop, rename, sub) behave as specified.
   Statements over Model/Expr.v; clause chains are compositions of these functions (deval), so each statement applies
   at every position of a chain of any length, including to results of other clauses and operators. *)
From Coq Require Import ZArith QArith String List Bool Permutation.
Import ListNotations.
From VTL Require Import Base.Val Model.Table Model.Scalar Model.Expr Proofs.TableP Proofs.MonadP Proofs.ExprP Proofs.ClauseLawsP.

(* filter keeps exactly the datapoints whose condition is TRUE; structure unchanged *)
Theorem C02_filter_exact : forall d c d',
  d_filter d c = Ok d' ->
  d_ids d' = d_ids d /\ d_ms d' = d_ms d /\
  forall r, In r (d_rows d') <-> In r (d_rows d) /\ ceval (row_env d r) c = Ok (VBool true).
Proof. exact d_filter_spec. Qed.
(* … false and null drop the datapoint *)
Theorem C02_filter_false_null_dropped : forall d c d' r v,
  d_filter d c = Ok d' -> In r (d_rows d) -> ceval (row_env d r) c = Ok v -> v <> VBool true ->
  uniq_keys (d_rows d) = true -> ~ In r (d_rows d').
Proof. exact d_filter_drops. Qed.
Theorem C02_filter_error_iff : forall d c,
  (exists e, d_filter d c = Err e) <-> exists r e, In r (d_rows d) /\ ceval (row_env d r) c = Err e.
Proof. exact d_filter_error_iff. Qed.

(* calc adds or overwrites exactly the named components with the per-datapoint value of the expression (evaluated on the
   input datapoint); every other component, the identifiers and the set of datapoints are unchanged *)
Theorem C02_calc_structure : forall d defs d',
  d_calc d defs = Ok d' ->
  d_ids d' = d_ids d /\ d_ms d' = calc_names (d_ms d) defs /\
  Forall2 (fun r r' => calc_row d defs r = Ok r') (d_rows d) (d_rows d') /\
  map fst (d_rows d') = map fst (d_rows d).
Proof. exact d_calc_spec. Qed.
Theorem C02_calc_frame : forall d defs r r',
  List.length (d_ms d) = List.length (snd r) ->
  calc_row d defs r = Ok r' ->
  fst r' = fst r /\
  exists nv, Forall2 (fun df p => fst p = fst df /\ ceval (row_env d r) (snd df) = Ok (snd p)) defs nv /\
    forall n, elook n (combine (calc_names (d_ms d) defs) (snd r')) =
              match last_def n nv with Some v => Some v | None => elook n (combine (d_ms d) (snd r)) end.
Proof. exact calc_row_spec. Qed.

(* keep / drop change only the listed components; identifiers always stay *)
Theorem C02_keep_drop_frame : forall d f,
  d_ids (d_project d f) = d_ids d /\
  map fst (d_rows (d_project d f)) = map fst (d_rows d) /\
  forall r, In r (d_rows d) -> List.length (d_ms d) = List.length (snd r) ->
    forall n, elook n (combine (d_ms (d_project d f)) (select_by (d_ms d) f (snd r))) =
              if f n then elook n (combine (d_ms d) (snd r)) else None.
Proof. exact d_project_frame. Qed.

(* rename changes names only — never a value — and only the listed names *)
Theorem C02_rename_frame : forall d l,
  d_rows (d_rename d l) = d_rows d /\
  d_ids (d_rename d l) = map (ren l) (d_ids d) /\ d_ms (d_rename d l) = map (ren l) (d_ms d) /\
  forall n, ~ In n (map fst l) -> ren l n = n.
Proof. intros d l. destruct (d_rename_frame d l) as [H1 [H2 H3]]. repeat split; auto. apply ren_untouched. Qed.

(* sub keeps exactly the datapoints matching the fixed identifiers and removes those identifiers *)
Theorem C02_sub_spec : forall d fixed r',
  In r' (d_rows (d_sub d fixed)) <->
  exists r, In r (d_rows d) /\ sub_match (d_ids d) fixed (fst r) = true /\
            r' = (select_by (d_ids d) (fun n => negb (mem_s n (map fst fixed))) (fst r), snd r).
Proof. exact d_sub_spec. Qed.

(* CHAINS.  A clause applied to the result of anything (another clause, an element-wise / dataset∘dataset / set operator) in
   ONE statement sees exactly that result — in particular every component an earlier calc or rename of the chain created,
   under the name it then has: the chain equals the script that names the intermediate result *)
Theorem C02_chain_sees_intermediate_result : forall k e x r n,
  deval e x = Ok r -> ~ In n (kvars k) -> deval e (plug k x) = deval ((n, r) :: e) (plug k (DVar n)).
Proof. exact deval_plug_let. Qed.
Theorem C02_chain_is_flat_script : forall k e x r n out,
  deval e x = Ok r -> ~ In n (kvars k) -> n <> out ->
  run_script e [(out, plug k x)] out = run_script e [(n, x); (out, plug k (DVar n))] out.
Proof. exact nested_is_flat. Qed.

(* a component created by calc and renamed later in the same chain (the calc-time name is no component of the result) *)
Example C02_calc_then_rename_example :
  let D := mkD ["Id_1"; "Id_2"]%string ["Me_1"; "Me_2"]%string
               [([VInt 1; VStr "A"], [VInt 1; VInt 10]); ([VInt 1; VStr "B"], [VNull; VInt 20]); ([VInt 2; VStr "A"], [VInt 3; VInt 30])] in
  deval [("DS_1"%string, D)]
        (DRename (DSub (DCalc (DVar "DS_1") [("Me_3"%string, CBin Add (CCol "Me_1") (CCol "Me_2"))]) [("Id_2"%string, VStr "A")])
                 [("Me_3"%string, "Me_9"%string)])
  = Ok (mkD ["Id_1"%string] ["Me_1"; "Me_2"; "Me_9"]%string [([VInt 1], [VInt 1; VInt 10; VInt 11]); ([VInt 2], [VInt 3; VInt 30; VInt 33])]).
Proof. vm_compute. reflexivity. Qed.

Example C02_example :
  let D := mkD ["Id_1"%string; "Id_2"%string] ["Me_1"%string; "Me_2"%string]
               [([VInt 1; VStr "A"], [VInt 6; VNull]); ([VInt 2; VStr "B"], [VNull; VInt 1]); ([VInt 3; VStr "A"], [VInt 1; VInt 2])] in
  d_filter D (CBin Gt (CCol "Me_1") (CLit (VInt 2))) = Ok (mkD (d_ids D) (d_ms D) [([VInt 1; VStr "A"], [VInt 6; VNull])]) /\
  bind (d_calc D [("Me_2"%string, CBin Add (CCol "Me_1") (CLit (VInt 1))); ("Me_3"%string, CUn IsNull (CCol "Me_2"))]) (fun d => Ok (d_ms d, map snd (d_rows d)))
    = Ok (["Me_1"; "Me_2"; "Me_3"]%string, [[VInt 6; VInt 7; VBool true]; [VNull; VNull; VBool false]; [VInt 1; VInt 2; VBool false]]) /\
  d_rows (d_sub D [("Id_2"%string, VStr "A")]) = [([VInt 1], [VInt 6; VNull]); ([VInt 3], [VInt 1; VInt 2])].
Proof. vm_compute. repeat split. Qed.

(* laws (Proofs/ClauseLawsP.v): keep l and drop l split the non-identifier components between them (each component is in exactly one
   of the two results), neither touches identifiers or the keys of the datapoints; an empty rename is the identity *)
Theorem C02_keep_drop_complementary : forall d l,
  Permutation (d_ms d) (d_ms (d_keep d l) ++ d_ms (d_drop d l)) /\
  d_ids (d_keep d l) = d_ids d /\ d_ids (d_drop d l) = d_ids d /\
  map fst (d_rows (d_keep d l)) = map fst (d_rows d) /\ map fst (d_rows (d_drop d l)) = map fst (d_rows d).
Proof. intros d l. split; [apply keep_drop_partition | apply keep_drop_ids_rows]. Qed.

Theorem C02_rename_nothing_is_identity : forall d, d_rename d [] = d.
Proof. exact rename_nil. Qed.

Print Assumptions C02_filter_exact.
Print Assumptions C02_filter_false_null_dropped.
Print Assumptions C02_filter_error_iff.
Print Assumptions C02_calc_structure.
Print Assumptions C02_calc_frame.
Print Assumptions C02_keep_drop_frame.
Print Assumptions C02_rename_frame.
Print Assumptions C02_sub_spec.
Print Assumptions C02_chain_sees_intermediate_result.
Print Assumptions C02_chain_is_flat_script.
Print Assumptions C02_keep_drop_complementary.
Print Assumptions C02_rename_nothing_is_identity.
