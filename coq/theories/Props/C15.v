(* C15 — results are deterministic and independent of engine configuration.
   The execution knobs (threads, in-memory vs file-backed database, memory limit / spilling, temporary directory) can
   only change the ORDER in which the datapoints of intermediate results are produced.  The model gives the executor an
   arbitrary reordering oracle `w`, applied to every input and after every operator; the theorem says the result is the
   same set of datapoints for EVERY oracle — hence for any two configurations.  *Partial*: thread scheduling, spilling
   and storage are runtime behaviour the model abstracts as `w`; that DuckDB only reorders is an assumption which
   harness/props/c15.py exercises on the real engine under the documented knob settings. *)
From Coq Require Import ZArith QArith String List Bool Permutation.
Import ListNotations.
From VTL Require Import Base.Val Model.Table Model.Scalar Model.Expr Proofs.TableP Proofs.MonadP Proofs.ExprP Proofs.PermP Proofs.SubPermP.

Theorem C15_any_reordering_executor_same_result :
  forall (w : dset -> dset), (forall d, dequiv d (w d)) ->
  forall x, no_sub x = true ->
  forall e r, env_wf e -> deval e x = Ok r ->
  exists r', deval_nd w e x = Ok r' /\ dequiv r r' /\ wfd r.
Proof. exact deval_nd_equiv. Qed.

(* two executors (two configurations, or two runs of one) agree with each other *)
Corollary C15_two_configurations_agree :
  forall (w1 w2 : dset -> dset), (forall d, dequiv d (w1 d)) -> (forall d, dequiv d (w2 d)) ->
  forall x, no_sub x = true ->
  forall e r, env_wf e -> deval e x = Ok r ->
  exists r1 r2, deval_nd w1 e x = Ok r1 /\ deval_nd w2 e x = Ok r2 /\
                d_ids r1 = d_ids r2 /\ d_ms r1 = d_ms r2 /\ Permutation (d_rows r1) (d_rows r2).
Proof.
  intros w1 w2 H1 H2 x Hs e r We H.
  destruct (deval_nd_equiv w1 H1 x Hs e r We H) as [r1 [E1 [[A1 [A2 A3]] _]]].
  destruct (deval_nd_equiv w2 H2 x Hs e r We H) as [r2 [E2 [[B1 [B2 B3]] _]]].
  exists r1, r2. repeat split; auto; try congruence.
  eapply perm_trans; [apply Permutation_sym; exact A3 | exact B3].
Qed.

(* sub applied last on top of any expression of the theorem: the reordering executor still returns the same datapoints *)
Theorem C15_sub_on_top_any_reordering_executor :
  forall (w : dset -> dset), (forall d, dequiv d (w d)) ->
  forall x l, no_sub x = true ->
  forall e r, env_wf e -> deval e (DSub x l) = Ok r ->
  exists r', deval_nd w e (DSub x l) = Ok r' /\ dequiv r r'.
Proof. exact deval_nd_sub_top_equiv. Qed.

Example C15_nonvacuous :
  let rev_rows d := mkD (d_ids d) (d_ms d) (rev (d_rows d)) in
  (forall d, dequiv d (rev_rows d)) /\
  deval_nd rev_rows [("A"%string, mkD ["Id_1"%string] ["Me_1"%string] [([VInt 1], [VInt 6]); ([VInt 2], [VInt 5])])]
           (DMap (DVar "A") (CBin Add (CCol "$") (CLit (VInt 1))))
  = Ok (mkD ["Id_1"%string] ["Me_1"%string] [([VInt 1], [VInt 7]); ([VInt 2], [VInt 6])]).
Proof.
  split; [|vm_compute; reflexivity]. intros d. repeat split; simpl; auto. apply Permutation_rev.
Qed.

(* the language of the theorem includes the set operators: a reordering executor gives the same datapoints *)
Example C15_nonvacuous_setop :
  let rev_rows d := mkD (d_ids d) (d_ms d) (rev (d_rows d)) in
  let A := mkD ["Id_1"%string] ["Me_1"%string] [([VInt 1], [VInt 6]); ([VInt 2], [VInt 5])] in
  let B := mkD ["Id_1"%string] ["Me_1"%string] [([VInt 2], [VInt 9]); ([VInt 3], [VInt 8])] in
  let x := DSet OUnion (DVar "A") (DSet OSymdiff (DVar "B") (DVar "A")) in
  no_sub x = true /\
  deval [("A"%string, A); ("B"%string, B)] x
    = Ok (mkD ["Id_1"%string] ["Me_1"%string] [([VInt 1], [VInt 6]); ([VInt 2], [VInt 5]); ([VInt 3], [VInt 8])]) /\
  deval_nd rev_rows [("A"%string, A); ("B"%string, B)] x
    = Ok (mkD ["Id_1"%string] ["Me_1"%string] [([VInt 3], [VInt 8]); ([VInt 1], [VInt 6]); ([VInt 2], [VInt 5])]).
Proof. vm_compute. repeat split. Qed.

Print Assumptions C15_any_reordering_executor_same_result.
Print Assumptions C15_two_configurations_agree.
Print Assumptions C15_sub_on_top_any_reordering_executor.
