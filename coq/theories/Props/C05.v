(* C05 — set operators match datapoints by identifiers across ALL operands.
   Statements over the specification functions of Model/SetOps.v and over the set-operator node `DSet` of the core
   language (Model/Expr.v); the engine is tied to them by the correspondence check (harness/props/c05.py) which evaluates
   `seval` on the very cases the engine ran, and `run_script` on set operators composed with the other operators. *)
From Coq Require Import ZArith String List Bool Permutation.
Import ListNotations.
From VTL Require Import Base.Val Model.Table Model.Scalar Model.SetOps Model.Expr
     Proofs.TableP Proofs.MonadP Proofs.SetOpsP Proofs.SetLawsP Proofs.ExprP.

(* union: a datapoint is in the result iff it comes from an operand and no EARLIER operand has its key … *)
Theorem C05_union_first_operand_wins : forall ops r,
  In r (union ops) <->
  exists pre d post, ops = pre ++ d :: post /\ In r d /\ forall d', In d' pre -> has_key (fst r) d' = false.
Proof. exact union_spec. Qed.
(* … so there is exactly one datapoint per key present in any operand *)
Theorem C05_union_keys : forall ops k, has_key k (union ops) = existsb (has_key k) ops.
Proof. exact union_keys. Qed.
Theorem C05_union_one_per_key : forall ops, forallb uniq_keys ops = true -> uniq_keys (union ops) = true.
Proof. exact union_uniq. Qed.

(* intersect: for ANY number of operands, exactly the datapoints of the first operand whose key is in EVERY other one *)
Theorem C05_intersect_all_operands : forall a rest r,
  In r (intersect (a :: rest)) <-> In r a /\ forall d, In d rest -> has_key (fst r) d = true.
Proof. exact intersect_spec. Qed.
Theorem C05_intersect_keys : forall a rest k,
  has_key k (intersect (a :: rest)) = has_key k a && forallb (has_key k) rest.
Proof. exact intersect_keys. Qed.

Theorem C05_setdiff : forall a b r, In r (setdiff a b) <-> In r a /\ has_key (fst r) b = false.
Proof. exact setdiff_spec. Qed.
Theorem C05_symdiff : forall a b r,
  In r (symdiff a b) <-> (In r a /\ has_key (fst r) b = false) \/ (In r b /\ has_key (fst r) a = false).
Proof. exact symdiff_spec. Qed.
Theorem C05_symdiff_keys_exactly_one : forall a b k, has_key k (symdiff a b) = xorb (has_key k a) (has_key k b).
Proof. exact symdiff_keys. Qed.

(* results stay well-formed (one datapoint per key) *)
Theorem C05_results_wellformed : forall a b rest,
  uniq_keys a = true -> uniq_keys b = true ->
  uniq_keys (intersect (a :: rest)) = true /\ uniq_keys (setdiff a b) = true /\ uniq_keys (symdiff a b) = true.
Proof. intros a b rest Ha Hb. auto using intersect_uniq, setdiff_uniq, symdiff_uniq. Qed.

(* the SQL formulation used by the engine (first physical row per key of the UNION ALL concatenation) IS the
   specification whenever each operand is well-formed and the concatenation keeps operand order *)
Theorem C05_union_concat_is_union : forall ops, forallb uniq_keys ops = true -> union_concat ops = union ops.
Proof. exact union_concat_is_union. Qed.

(* non-vacuity / the 3-operand case that distinguishes "every operand" from "the first two" *)
Example C05_three_operand_intersect :
  let k n := [VInt n] in
  let d (l : list Z) := map (fun n => (k n, [VInt (n * 10)])) l in
  map fst (intersect [d [1; 2; 3]%Z; d [2; 3; 4]%Z; d [3; 4; 5]%Z]) = [k 3%Z].
Proof. vm_compute. reflexivity. Qed.

(* ---------------------------------------------------------------- the set operators as a node of the core language *)
(* n-ary union / intersect are the left-nested binary forms: union(A, B, C, …) = union(union(A, B), C) … *)
Theorem C05_union_nary_is_left_nested : forall a rest,
  union (a :: rest) = fold_left (fun acc d => union [acc; d]) rest a.
Proof. exact union_left_nested. Qed.
Theorem C05_intersect_nary_is_left_nested : forall a rest,
  intersect (a :: rest) = fold_left (fun acc d => intersect [acc; d]) rest a.
Proof. exact intersect_left_nested. Qed.

(* … at the level of the language: the text union(A, B1, …, Bn) / intersect(A, B1, …, Bn), translated to left-nested DSet nodes
   (dset_nary), evaluates to the n-ary function over the operands' datapoints (operands declaring the same components in the
   same order; other declared orders go through the alignment of C05_dset_laws first) *)
Theorem C05_nary_union_as_nested_nodes : forall e a rest da drest,
  deval e a = Ok da -> Forall2 (fun x d => deval e x = Ok d) rest drest ->
  nodup_s (d_ids da) = true -> nodup_s (d_ms da) = true ->
  Forall (fun d => d_ids d = d_ids da /\ d_ms d = d_ms da /\ rows_fit (d_ids d) (d_ms d) (d_rows d)) drest ->
  deval e (dset_nary OUnion a rest) = Ok (mkD (d_ids da) (d_ms da) (union (d_rows da :: map d_rows drest))).
Proof. exact dset_nary_union. Qed.
Theorem C05_nary_intersect_as_nested_nodes : forall e a rest da drest,
  deval e a = Ok da -> Forall2 (fun x d => deval e x = Ok d) rest drest ->
  nodup_s (d_ids da) = true -> nodup_s (d_ms da) = true ->
  Forall (fun d => d_ids d = d_ids da /\ d_ms d = d_ms da /\ rows_fit (d_ids d) (d_ms d) (d_rows d)) drest ->
  deval e (dset_nary OIntersect a rest) = Ok (mkD (d_ids da) (d_ms da) (intersect (d_rows da :: map d_rows drest))).
Proof. exact dset_nary_intersect. Qed.

(* DSet op a b: structure of the first operand; with B' = the datapoints of the second operand written in the column
   order of the first (alignment by name), the result holds exactly the datapoints the law of `op` names *)
Theorem C05_dset_laws : forall op a b r,
  d_setop op a b = Ok r ->
  d_ids r = d_ids a /\ d_ms r = d_ms a /\
  exists rb, Forall2 (fun x y => align_row (d_ids b) (d_ms b) (d_ids a) (d_ms a) x = Ok y) (d_rows b) rb /\
             forall x, In x (d_rows r) <->
               match op with
               | OUnion => In x (d_rows a) \/ (In x rb /\ has_key (fst x) (d_rows a) = false)
               | OIntersect => In x (d_rows a) /\ has_key (fst x) rb = true
               | OSetdiff => In x (d_rows a) /\ has_key (fst x) rb = false
               | OSymdiff => (In x (d_rows a) /\ has_key (fst x) rb = false) \/ (In x rb /\ has_key (fst x) (d_rows a) = false)
               end.
Proof. exact d_setop_laws. Qed.

(* alignment by name moves values only and never merges two datapoints *)
Theorem C05_alignment_injective : forall from to k1 k2 k1' k2',
  NoDup from -> List.length k1 = List.length from -> List.length k2 = List.length from ->
  (forall n, In n from -> In n to) ->
  proj_key from k1 to = Some k1' -> proj_key from k2 to = Some k2' ->
  key_eqb k1' k2' = true -> key_eqb k1 k2 = true.
Proof. exact proj_key_inj. Qed.
Theorem C05_alignment_identity_when_same_order : forall from k,
  NoDup from -> List.length k = List.length from -> proj_key from k from = Some k.
Proof. exact proj_key_self. Qed.

(* operands whose structures differ are a semantic error (1-1-17-1), never a value *)
Theorem C05_dset_incompatible : forall op a b, set_compat a b = false -> d_setop op a b = Err ERR_SET_STRUCT.
Proof. exact d_setop_incompatible. Qed.

(* COMPOSITIONALITY.  Whatever operators of the core language enclose a set operator (context k: clauses, element-wise
   operators, dataset∘dataset operators, other set operators, at any depth), the enclosing operators see exactly the dataset
   r described by C05_dset_laws — the same as if the set operator had been computed by a statement of its own and
   referred to by name *)
Theorem C05_dset_in_any_context : forall k e op a b da db r n,
  deval e a = Ok da -> deval e b = Ok db -> d_setop op da db = Ok r -> ~ In n (kvars k) ->
  deval e (plug k (DSet op a b)) = deval ((n, r) :: e) (plug k (DVar n)).
Proof. exact dset_in_context. Qed.

(* the same for ANY sub-expression, as a statement about scripts: one nested statement = two flat statements *)
Theorem C05_nested_statement_is_flat_script : forall k e x r n out,
  deval e x = Ok r -> ~ In n (kvars k) -> n <> out ->
  run_script e [(out, plug k x)] out = run_script e [(n, x); (out, plug k (DVar n))] out.
Proof. exact nested_is_flat. Qed.

Theorem C05_context_congruence : forall k e x y, deval e x = deval e y -> deval e (plug k x) = deval e (plug k y).
Proof. exact plug_congr. Qed.

(* the instance exercised by the correspondence: setdiff(A, B)[sub …] applies sub to the setdiff taken on the FULL keys *)
Theorem C05_dset_under_sub : forall e op a b l da db r,
  deval e a = Ok da -> deval e b = Ok db -> d_setop op da db = Ok r ->
  deval e (DSub (DSet op a b) l) = Ok (d_sub r l).
Proof. exact dset_under_sub. Qed.

(* non-vacuity: keys that agree on the surviving identifier and differ on the removed one; columns of the second operand
   declared in another order *)
Example C05_setdiff_under_sub_example :
  let A := mkD ["Id_1"; "Id_2"]%string ["Me_1"]%string
               [([VInt 1; VStr "A"], [VInt 11]); ([VInt 1; VStr "B"], [VInt 12]); ([VInt 2; VStr "A"], [VInt 13]); ([VInt 3; VStr "A"], [VInt 14])] in
  let B := mkD ["Id_2"; "Id_1"]%string ["Me_1"]%string
               [([VStr "B"; VInt 1], [VInt 21]); ([VStr "B"; VInt 2], [VInt 22]); ([VStr "A"; VInt 3], [VInt 23])] in
  let e := [("A"%string, A); ("B"%string, B)] in
  deval e (DSub (DSet OSetdiff (DVar "A") (DVar "B")) [("Id_2"%string, VStr "A")])
    = Ok (mkD ["Id_1"]%string ["Me_1"]%string [([VInt 1], [VInt 11]); ([VInt 2], [VInt 13])]) /\
  deval e (DSet OUnion (DSet OIntersect (DVar "A") (DVar "B")) (DVar "B"))
    = Ok (mkD ["Id_1"; "Id_2"]%string ["Me_1"]%string
              [([VInt 1; VStr "B"], [VInt 12]); ([VInt 3; VStr "A"], [VInt 14]); ([VInt 2; VStr "B"], [VInt 22])]) /\
  deval e (DSet OSymdiff (DVar "A") (DKeep (DVar "B") [])) = Err ERR_SET_STRUCT.
Proof. vm_compute. repeat split. Qed.

(* algebraic laws (Proofs/SetLawsP.v): an operand combined with itself, the empty operand, symdiff in either operand order,
   the first operand split into intersect and setdiff, union as "first operand, then what only the second has" *)
Theorem C05_idempotence : forall a,
  union [a; a] = a /\ intersect [a; a] = a /\ setdiff a a = [] /\ symdiff a a = [].
Proof. intros a. split; [apply union_self|]. split; [apply intersect_self|]. split; [apply setdiff_self | apply symdiff_self]. Qed.

Theorem C05_idempotence_nary : forall a n, union (a :: repeat a n) = a /\ intersect (a :: repeat a n) = a.
Proof. intros a n. split; [apply union_repeat | apply intersect_repeat]. Qed.

Theorem C05_empty_operand : forall a,
  union [a; []] = a /\ union [[]; a] = a /\ intersect [a; []] = [] /\ setdiff a [] = a /\ setdiff [] a = [].
Proof.
  intros a. split; [apply union_nil_r|]. split; [apply union_nil_l|]. split; [apply intersect_nil_r|].
  split; [apply setdiff_empty_r | apply setdiff_empty_l].
Qed.

Theorem C05_symdiff_commutes : forall a b, Permutation (symdiff a b) (symdiff b a).
Proof. exact symdiff_comm. Qed.

Theorem C05_first_operand_partition : forall a b, Permutation a (intersect [a; b] ++ setdiff a b).
Proof. exact intersect_setdiff_partition. Qed.

Theorem C05_union_is_first_plus_setdiff : forall a b, union [a; b] = a ++ setdiff b a.
Proof. exact union_is_first_plus_setdiff. Qed.

Theorem C05_setdiff_removes_every_key_of_second : forall a b k, has_key k (setdiff a b) = true -> has_key k b = false.
Proof. exact setdiff_disjoint. Qed.

Theorem C05_setdiff_idempotent : forall a b, setdiff (setdiff a b) b = setdiff a b.
Proof. exact setdiff_idem. Qed.

Theorem C05_union_keys_are_intersect_or_symdiff : forall a b k,
  has_key k (union [a; b]) = has_key k (intersect [a; b]) || has_key k (symdiff a b).
Proof. exact union_keys_decompose. Qed.

Example C05_laws_nonvacuous :
  let a := [([VInt 1], [VInt 10]); ([VInt 2], [VInt 20])] in
  let b := [([VInt 2], [VInt 99]); ([VInt 3], [VInt 30])] in
  intersect [a; b] ++ setdiff a b = [([VInt 2], [VInt 20]); ([VInt 1], [VInt 10])] /\
  symdiff a b = [([VInt 1], [VInt 10]); ([VInt 3], [VInt 30])] /\
  union [a; b] = [([VInt 1], [VInt 10]); ([VInt 2], [VInt 20]); ([VInt 3], [VInt 30])].
Proof. vm_compute. repeat split. Qed.

Print Assumptions C05_union_first_operand_wins.
Print Assumptions C05_union_keys.
Print Assumptions C05_union_one_per_key.
Print Assumptions C05_intersect_all_operands.
Print Assumptions C05_intersect_keys.
Print Assumptions C05_setdiff.
Print Assumptions C05_symdiff.
Print Assumptions C05_symdiff_keys_exactly_one.
Print Assumptions C05_results_wellformed.
Print Assumptions C05_union_concat_is_union.
Print Assumptions C05_union_nary_is_left_nested.
Print Assumptions C05_intersect_nary_is_left_nested.
Print Assumptions C05_nary_union_as_nested_nodes.
Print Assumptions C05_nary_intersect_as_nested_nodes.
Print Assumptions C05_dset_laws.
Print Assumptions C05_alignment_injective.
Print Assumptions C05_alignment_identity_when_same_order.
Print Assumptions C05_dset_incompatible.
Print Assumptions C05_dset_in_any_context.
Print Assumptions C05_nested_statement_is_flat_script.
Print Assumptions C05_context_congruence.
Print Assumptions C05_dset_under_sub.
Print Assumptions C05_idempotence.
Print Assumptions C05_symdiff_commutes.
Print Assumptions C05_first_operand_partition.
Print Assumptions C05_union_is_first_plus_setdiff.
Print Assumptions C05_setdiff_removes_every_key_of_second.
Print Assumptions C05_setdiff_idempotent.
Print Assumptions C05_union_keys_are_intersect_or_symdiff.
Print Assumptions C05_idempotence_nary.
Print Assumptions C05_empty_operand.
