(* C05 — set operators match datapoints by identifiers across ALL operands.
   Statements over the specification functions of Model/SetOps.v; the engine is tied to them by the correspondence
   check (harness/props/c05.py) which evaluates `seval` on the very cases the engine ran. *)
From Coq Require Import ZArith List Bool Permutation.
Import ListNotations.
From VTL Require Import Base.Val Model.Table Model.SetOps Proofs.TableP Proofs.SetOpsP.

(* union: a datapoint is in the result iff it comes from an operand and no EARLIER operand has its key … *)
Theorem C05_union_first_operand_wins : forall ops r,
  In r (union ops) <->
  exists pre d post, ops = pre ++ d :: post /\ In r d /\ forall d', In d' pre -> has_key (fst r) d' = false.
Proof. exact union_spec. Qed.
(* … so there is exactly one datapoint per key present in any operand *)
Theorem C05_union_keys : forall ops k, has_key k (union ops) = existsb (has_key k) ops.
Proof. exact union_keys. Qed.
Theorem C05_union_one_per_key : forall ops, forallb uniq_keys ops = true -> uniq_keys (union ops) = true.
Proof. exact union_uniq. Qed.

(* intersect: for ANY number of operands, exactly the datapoints of the first operand whose key is in EVERY other one *)
Theorem C05_intersect_all_operands : forall a rest r,
  In r (intersect (a :: rest)) <-> In r a /\ forall d, In d rest -> has_key (fst r) d = true.
Proof. exact intersect_spec. Qed.
Theorem C05_intersect_keys : forall a rest k,
  has_key k (intersect (a :: rest)) = has_key k a && forallb (has_key k) rest.
Proof. exact intersect_keys. Qed.

Theorem C05_setdiff : forall a b r, In r (setdiff a b) <-> In r a /\ has_key (fst r) b = false.
Proof. exact setdiff_spec. Qed.
Theorem C05_symdiff : forall a b r,
  In r (symdiff a b) <-> (In r a /\ has_key (fst r) b = false) \/ (In r b /\ has_key (fst r) a = false).
Proof. exact symdiff_spec. Qed.
Theorem C05_symdiff_keys_exactly_one : forall a b k, has_key k (symdiff a b) = xorb (has_key k a) (has_key k b).
Proof. exact symdiff_keys. Qed.

(* results stay well-formed (one datapoint per key) *)
Theorem C05_results_wellformed : forall a b rest,
  uniq_keys a = true -> uniq_keys b = true ->
  uniq_keys (intersect (a :: rest)) = true /\ uniq_keys (setdiff a b) = true /\ uniq_keys (symdiff a b) = true.
Proof. intros a b rest Ha Hb. auto using intersect_uniq, setdiff_uniq, symdiff_uniq. Qed.

(* the SQL formulation used by the engine (first physical row per key of the UNION ALL concatenation) IS the
   specification whenever each operand is well-formed and the concatenation keeps operand order *)
Theorem C05_union_concat_is_union : forall ops, forallb uniq_keys ops = true -> union_concat ops = union ops.
Proof. exact union_concat_is_union. Qed.

(* non-vacuity / the 3-operand case that distinguishes "every operand" from "the first two" *)
Example C05_three_operand_intersect :
  let k n := [VInt n] in
  let d (l : list Z) := map (fun n => (k n, [VInt (n * 10)])) l in
  map fst (intersect [d [1; 2; 3]%Z; d [2; 3; 4]%Z; d [3; 4; 5]%Z]) = [k 3%Z].
Proof. vm_compute. reflexivity. Qed.

Print Assumptions C05_union_first_operand_wins.
Print Assumptions C05_union_keys.
Print Assumptions C05_union_one_per_key.
Print Assumptions C05_intersect_all_operands.
Print Assumptions C05_intersect_keys.
Print Assumptions C05_setdiff.
Print Assumptions C05_symdiff.
Print Assumptions C05_symdiff_keys_exactly_one.
Print Assumptions C05_results_wellformed.
Print Assumptions C05_union_concat_is_union.
