(* C12 — results do not depend on the textual order of statements.
   Model: Model/Dag.v (statements = (output name, names read, persistent flag); abstract statement semantics).
   All theorems are over statement lists of ANY length (induction; no bounded sweep).  The sorting routine of the engine
   (networkx) is not modelled: every order it produces is validated on each run with the checker is_topo_order, which is
   proved sound and complete here; the theorems then apply to the validated orders (C12_validated_orders_agree). *)
From Coq Require Import List Bool Arith Permutation Relations.
Import ListNotations.
From VTL Require Import Model.Dag Proofs.DagP.

(* --- confluence: two topological orders of the same statements (unique outputs) compute the same environment *)
Theorem C12_topo_confluence :
  forall (value : Type) (sem : stmt -> env value -> value)
         (sem_reads_only_deps : forall s e1 e2, (forall d, In d (s_deps s) -> e1 d = e2 d) -> sem s e1 = sem s e2),
  forall l1 l2 e, Permutation l1 l2 -> NoDup (outs l1) -> topo_sorted l1 -> topo_sorted l2 ->
  forall n, exec value sem l1 e n = exec value sem l2 e n.
Proof. exact topo_confluence. Qed.

(* --- any topological order of any permutation of the script gives the same environment *)
Theorem C12_perm_invariance_orders :
  forall (value : Type) (sem : stmt -> env value -> value)
         (sem_reads_only_deps : forall s e1 e2, (forall d, In d (s_deps s) -> e1 d = e2 d) -> sem s e1 = sem s e2),
  forall ss ss' o o' e, Permutation ss ss' -> NoDup (outs ss) ->
    Permutation o ss -> topo_sorted o -> Permutation o' ss' -> topo_sorted o' ->
  forall n, exec value sem o e n = exec value sem o' e n.
Proof. exact perm_invariance_orders. Qed.

(* --- for ANY sorting routine that returns a topological order of acyclic scripts: permuting the script changes nothing *)
Theorem C12_perm_invariance :
  forall (value : Type) (sem : stmt -> env value -> value)
         (sem_reads_only_deps : forall s e1 e2, (forall d, In d (s_deps s) -> e1 d = e2 d) -> sem s e1 = sem s e2)
         (sorter : list stmt -> list stmt)
         (sorter_topological : forall ss, ~ cyclic ss -> Permutation (sorter ss) ss /\ topo_sorted (sorter ss)),
  forall ss ss' e, Permutation ss ss' -> NoDup (outs ss) -> ~ cyclic ss ->
  forall n, exec value sem (sorter ss) e n = exec value sem (sorter ss') e n.
Proof. exact perm_invariance. Qed.

(* --- the checker applied to the engine's orders is sound and complete ... *)
Theorem C12_is_topo_order_correct : forall ord ss,
  is_topo_order ord ss = true <-> Permutation ord (seq 1 (length ss)) /\ topo_sorted (select ss ord).
Proof. exact is_topo_order_spec. Qed.

(* ... and two validated orders of two permutations of a script compute the same environment *)
Theorem C12_validated_orders_agree :
  forall (value : Type) (sem : stmt -> env value -> value),
    (forall s e1 e2, (forall d, In d (s_deps s) -> e1 d = e2 d) -> sem s e1 = sem s e2) ->
  forall ss ss' ord ord' e, Permutation ss ss' -> NoDup (outs ss) ->
    is_topo_order ord ss = true -> is_topo_order ord' ss' = true ->
  forall n, exec value sem (select ss ord) e n = exec value sem (select ss' ord') e n.
Proof. exact validated_orders_agree. Qed.

(* --- cycles: the model detector decides "some name transitively reads itself", independently of the statement order *)
Theorem C12_cycle_detected_iff : forall ss, cycle_detected ss = true <-> cyclic ss.
Proof. exact cycle_detected_iff. Qed.

Theorem C12_cycle_detected_perm : forall ss ss', Permutation ss ss' -> cycle_detected ss = cycle_detected ss'.
Proof. exact cycle_detected_perm. Qed.

Theorem C12_acyclic_iff_topo_order_exists : forall ss, ~ cyclic ss <-> exists o, Permutation o ss /\ topo_sorted o.
Proof. exact acyclic_iff_topo_order_exists. Qed.

Theorem C12_model_sort_correct : forall ss, ~ cyclic ss ->
  exists o, model_sort ss = Some o /\ Permutation o ss /\ topo_sorted o.
Proof. exact model_sort_correct. Qed.

(* --- redefinition: detected iff some name is assigned at two positions, independently of the statement order *)
Theorem C12_redefinition_detected_iff : forall ss,
  redefinition_detected ss = true <-> exists x l1 l2 l3, outs ss = l1 ++ x :: l2 ++ x :: l3.
Proof. exact redefinition_detected_iff. Qed.

Theorem C12_redefinition_detected_perm : forall ss ss', Permutation ss ss' ->
  redefinition_detected ss = redefinition_detected ss'.
Proof. exact redefinition_detected_perm. Qed.

(* --- which error: create_dag (duplicate assignment first, then cycles of the last-definition graph over statement keys) makes
       exactly the specified choice, for every script, hence the same choice in every statement order.  The key step:
       with unique outputs the code's key graph has a cycle iff some name transitively reads itself. *)
Theorem C12_outcome_spec_perm : forall ss ss', Permutation ss ss' -> outcome_spec ss = outcome_spec ss'.
Proof. exact outcome_spec_perm. Qed.

Theorem C12_impl_graph_cycle_iff : forall ss, NoDup (outs ss) -> cycle_detected (impl_view ss) = cycle_detected ss.
Proof. exact impl_graph_cycle_iff. Qed.

Theorem C12_outcome_impl_is_spec : forall ss, outcome_impl ss = outcome_spec ss.
Proof. exact outcome_impl_is_spec. Qed.

Theorem C12_outcome_impl_perm : forall ss ss', Permutation ss ss' -> outcome_impl ss = outcome_impl ss'.
Proof. exact outcome_impl_perm. Qed.

(* the code BEFORE the repair (cycle check before the overwrite check) chose by order: A := B; A := X; B := A  vs  A := X; A := B; B := A *)
Theorem C12_outcome_before_fix_order_dependent :
  exists ss ss', Permutation ss ss' /\ outcome_before_fix ss <> outcome_before_fix ss'.
Proof. exact outcome_before_fix_order_dependent. Qed.

(* --- unknown-variable promotion: a component-looking name that another statement assigns (with := or <-) becomes a dependency;
       the code before the repair looked at := assignments only and missed names assigned with <- *)
Theorem C12_unknown_variable_promotion : forall rs r v,
  In r rs -> In v (r_unk r) -> In v (assigned_any rs) ->
  exists s, In s (promote_impl rs) /\ s_out s = r_out r /\ In v (s_deps s).
Proof. exact unknown_variable_promotion_spec. Qed.

Theorem C12_unknown_variable_promotion_before_fix_partial : forall rs r v,
  In r rs -> In v (r_unk r) -> In v (assigned_nonpers rs) ->
  exists s, In s (promote_before_fix rs) /\ s_out s = r_out r /\ In v (s_deps s).
Proof. exact unknown_variable_promotion_before_fix_partial. Qed.

Theorem C12_unknown_variable_promotion_before_fix_refuted :
  exists rs r v, In r rs /\ In v (r_unk r) /\ In v (assigned_any rs) /\
                 forall s, In s (promote_before_fix rs) -> s_out s = r_out r -> ~ In v (s_deps s).
Proof. exact unknown_variable_promotion_before_fix_refuted. Qed.

(* --- the hypotheses are satisfiable: a semantics reading only its dependencies, a sorter meeting the specification,
       a concrete script written in a non-executable order with two validated orders *)
Example C12_sem_hypothesis_satisfiable :
  exists sem : stmt -> env nat -> nat, forall s e1 e2, (forall d, In d (s_deps s) -> e1 d = e2 d) -> sem s e1 = sem s e2.
Proof. exact (ex_intro _ sum_sem sum_sem_reads_only_deps). Qed.

Example C12_sorter_hypothesis_satisfiable :
  exists sorter, forall ss, ~ cyclic ss -> Permutation (sorter ss) ss /\ topo_sorted (sorter ss).
Proof. exact (ex_intro _ model_sorter model_sorter_topological). Qed.

Example C12_example_orders :
  is_topo_order [3; 1; 2] example_unsorted = true /\ is_topo_order [3; 2; 1] example_unsorted = true
  /\ is_topo_order [1; 2; 3] example_unsorted = false /\ cycle_detected example_unsorted = false.
Proof. exact example_unsorted_sorted. Qed.

Print Assumptions C12_topo_confluence.
Print Assumptions C12_perm_invariance_orders.
Print Assumptions C12_perm_invariance.
Print Assumptions C12_is_topo_order_correct.
Print Assumptions C12_validated_orders_agree.
Print Assumptions C12_cycle_detected_iff.
Print Assumptions C12_cycle_detected_perm.
Print Assumptions C12_acyclic_iff_topo_order_exists.
Print Assumptions C12_model_sort_correct.
Print Assumptions C12_redefinition_detected_iff.
Print Assumptions C12_redefinition_detected_perm.
Print Assumptions C12_outcome_spec_perm.
Print Assumptions C12_impl_graph_cycle_iff.
Print Assumptions C12_outcome_impl_is_spec.
Print Assumptions C12_outcome_impl_perm.
Print Assumptions C12_outcome_before_fix_order_dependent.
Print Assumptions C12_unknown_variable_promotion.
Print Assumptions C12_unknown_variable_promotion_before_fix_partial.
Print Assumptions C12_unknown_variable_promotion_before_fix_refuted.
