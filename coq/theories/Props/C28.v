(* C28 — viral attributes propagate according to the declared rule.
   Statements over Model/Viral.v.  `vp_group` is the specification (a function of the multiset of the combined values),
   `vp_group_impl` the engine's `list_reduce(list(col ORDER BY col), …)` (the sorted fold, repo commit 52984f5),
   `vp_group_before_fix` the fold in physical order the engine used before (regression witness); `veval false` /
   `veval true` evaluate scripts with the engine's fold / the fold before the fix.  The engine is tied to these functions
   by the correspondence check harness/props/c28.py, which runs every generated script on two row orders of its inputs
   and evaluates the same cases here (vm_compute). *)
From Coq Require Import ZArith QArith String List Bool Permutation.
Import ListNotations.
From VTL Require Import Base.Val Model.Table Model.Scalar Model.Expr Model.SetOps Model.Viral
     Proofs.TableP Proofs.MonadP Proofs.ExprP Proofs.SetOpsP Proofs.ViralP.
Open Scope string_scope.
Open Scope list_scope.

(* aggregate rules (min, max, sum, avg): the value combined over a group, a partition or a whole operand does not depend
   on the order of the datapoints; lists of any length, values of any kind *)
Theorem C28_aggregate_group_perm : forall f l l',
  Permutation l l' -> agg_group f l = agg_group f l'.
Proof. exact aggregate_group_perm. Qed.

(* the specification of a group is a function of the multiset of values for EVERY rule *)
Theorem C28_group_spec_perm : forall r l l', Permutation l l' -> vp_group r l = vp_group r l'.
Proof. exact vp_group_perm. Qed.

(* enumerated rules: the clause semantics on a pair (`v IN (a, b)`) is symmetric *)
Theorem C28_enumerated_pair_comm : forall cls d a b, enum_pair cls d a b = enum_pair cls d b a.
Proof. exact enumerated_pair_comm. Qed.

(* … and the single-value form is the pair of the value with itself when no binary clause names one value twice *)
Theorem C28_single_is_diagonal_pair : forall cls d a,
  Forall no_diag cls -> enum_single cls d a = enum_pair cls d a a.
Proof. exact enum_single_is_pair_diag. Qed.

(* the ENGINE's fold is the specification, so for EVERY rule (enumerated or aggregate) the value combined over a group
   or partition — with or without a rule — does not depend on the order of the datapoints; lists of any length *)
Theorem C28_engine_fold_is_spec : forall r l, vp_group_impl r l = vp_group r l.
Proof. exact vp_group_impl_is_spec. Qed.
Theorem C28_engine_fold_order_independent : forall r l l',
  Permutation l l' -> vp_group_impl r l = vp_group_impl r l'.
Proof. exact vp_group_impl_perm. Qed.
Theorem C28_group_value_order_independent : forall rule l l',
  Permutation l l' -> grp false rule l = grp false rule l'.
Proof. exact grp_perm. Qed.

(* empty operand (the corner of C03_empty_operand_clause_without_grouping): the aggr clause with no grouping identifier left
   yields exactly one datapoint, whose viral value is the rule applied to the empty group = null for every rule; the
   standalone aggregation and any aggregation keeping an identifier yield none.  On non-empty operands both forms agree. *)
Theorem C28_aggregation_of_empty_operand : forall old rules d by_ clause,
  d_rows d = [] ->
  d_rows (v_group old rules d by_ clause) =
  match filter (fun n => mem_s n by_) (d_ids d), clause with
  | [], true => [([], if has_v d then [VNull] else [])]
  | _, _ => []
  end.
Proof. exact v_group_empty. Qed.
Theorem C28_empty_group_is_null : forall old rule, grp old rule [] = VNull.
Proof. exact grp_nil. Qed.
Theorem C28_aggregation_forms_agree_on_nonempty : forall d by_ clause,
  d_rows d <> [] -> group_keys d by_ clause = nubk (map (gproj d by_) (d_rows d)).
Proof. exact group_keys_nonempty. Qed.

(* REGRESSION WITNESS — the fold BEFORE the fix (list_reduce(list(col)) in physical order) was order-dependent:
   rule `when "A" and "B" then "C"; when "C" then "D"; else "E"`, values A, B, C gave D, values C, B, A gave E.
   The check replays the witness on the engine and requires the engine NOT to behave like this fold any more. *)
Theorem C28_fold_before_fix_order_dependent :
  exists r l l', Permutation l l' /\ vp_group_before_fix r l <> vp_group_before_fix r l'.
Proof. exact fold_before_fix_order_dependent. Qed.
(* … except for rules whose pair table is closed and associative on the values at hand (decidable check), where it
   already was the specification *)
Theorem C28_fold_before_fix_partial : forall dom cls d l l',
  enum_order_safe dom cls d = true -> Forall (fun v => In v dom) l -> Permutation l l' ->
  vp_group_before_fix (REnum cls d) l = vp_group_before_fix (REnum cls d) l'.
Proof. exact fold_before_fix_partial. Qed.
Theorem C28_before_fix_is_spec_when_safe : forall dom cls d l,
  enum_order_safe dom cls d = true -> Forall (fun v => In v dom) l -> Forall canon l ->
  vp_group_before_fix (REnum cls d) l = vp_group (REnum cls d) l.
Proof. exact before_fix_is_spec_when_safe. Qed.

(* plain assignment, clauses (filter, sub; calc / keep / drop / rename of measures) and set operators: every datapoint
   of the result is a datapoint of an operand with its viral value unchanged *)
Theorem C28_clauses_and_set_ops_preserve : forall impl rules e,
  (forall n d, veval impl rules e (XVar n) = Ok d -> dlook n e = Some d) /\
  (forall a, veval impl rules e (XSame a) = veval impl rules e a) /\
  (forall a c d, veval impl rules e (XFilter a c) = Ok d ->
     exists da, veval impl rules e a = Ok da /\ d_ms d = d_ms da /\ forall r, In r (d_rows d) -> In r (d_rows da)) /\
  (forall a fixed d, veval impl rules e (XSub a fixed) = Ok d ->
     exists da, veval impl rules e a = Ok da /\ d_ms d = d_ms da /\
                forall r, In r (d_rows d) -> exists r0, In r0 (d_rows da) /\ vget r = vget r0) /\
  (forall o a b d, veval impl rules e (XSet o a b) = Ok d ->
     exists da db, veval impl rules e a = Ok da /\ veval impl rules e b = Ok db /\ d_ms d = d_ms da /\
                   forall r, In r (d_rows d) -> In r (d_rows da) \/ In r (d_rows db)).
Proof. exact clauses_and_set_ops_preserve. Qed.

(* a viral attribute without a rule is rejected by the static pass (semantic error 1-3-3-6) … *)
Theorem C28_missing_rule_rejected : forall rules e n x rest s a tl,
  vstatic e x = Ok s -> snd s = a :: tl -> rlook a rules = None ->
  vcheck rules e ((n, x) :: rest) = Err ERR_NO_RULE.
Proof. exact missing_rule_rejected_step. Qed.
Theorem C28_missing_rule_rejects_run : forall impl numeric defs rules e ss result,
  vdefs numeric defs [] = Ok rules -> vcheck rules (senv_of e) ss = Err ERR_NO_RULE ->
  vrun impl numeric defs e ss result = Err ERR_NO_RULE.
Proof. exact vrun_rejects. Qed.
(* … the static structure is the structure of the evaluated dataset, so that every dataset produced by a statement of
   an accepted script has a rule for its viral attribute *)
Theorem C28_static_structure_exact : forall impl rules e x d,
  veval impl rules e x = Ok d -> vstatic (senv_of e) x = Ok (d_ids d, d_ms d).
Proof. intros. eapply veval_struct; eauto. Qed.
Theorem C28_accepted_script_has_rules : forall impl rules ss e e',
  vcheck rules (senv_of e) ss = Ok tt -> vstmts impl rules e ss = Ok e' ->
  exists added, e' = added ++ e /\ List.length added = List.length ss /\
                Forall (fun p => rule_present rules (d_ids (snd p), d_ms (snd p)) = true) added.
Proof. exact accepted_script_has_rules. Qed.

(* ---------------- examples (non-vacuity; the values observed on the engine) *)
Definition ex_rule : vrule :=
  REnum [VC2 (VStr "A") (VStr "B") (VStr "C"); VC1 (VStr "C") (VStr "D"); VC1 VNull (VStr "N")] (VStr "E").
Definition ex_ds1 : dset :=
  mkD ["Id_1"; "Id_2"] ["VAt_1"]
      [([VInt 1; VInt 1], [VStr "A"]); ([VInt 1; VInt 2], [VStr "B"]); ([VInt 2; VInt 1], [VStr "C"]);
       ([VInt 2; VInt 2], [VNull]); ([VInt 3; VInt 1], [VStr "X"])].
Definition ex_ds2 : dset :=
  mkD ["Id_1"] ["VAt_1"] [([VInt 1], [VStr "B"]); ([VInt 2], [VNull]); ([VInt 4], [VStr "C"])].

(* DS_1 + DS_2 (inner join on Id_1, pair rule), left_join (unmatched datapoint combined with null), abs(DS_1) (enumerated
   rule per datapoint), sum(DS_1 group by Id_1) (a single datapoint keeps its value), aggregate max over the whole operand *)
Example C28_examples :
  let env := [("DS_1", ex_ds1); ("DS_2", ex_ds2)] in
  let vals x := bind x (fun d => Ok (map vget (d_rows d))) in
  vals (veval false [("VAt_1", ex_rule)] env (XBin (XVar "DS_1") (XVar "DS_2"))) = Ok [VStr "C"; VStr "E"; VStr "D"; VStr "N"] /\
  vals (veval false [("VAt_1", ex_rule)] env (XJoin JLeft (XVar "DS_1") (XVar "DS_2"))) = Ok [VStr "C"; VStr "E"; VStr "D"; VStr "N"; VStr "N"] /\
  vals (veval false [("VAt_1", ex_rule)] env (XUn (XVar "DS_1"))) = Ok [VStr "E"; VStr "E"; VStr "D"; VStr "N"; VStr "E"] /\
  vals (veval false [("VAt_1", ex_rule)] env (XAggr (XVar "DS_1") ["Id_1"] false)) = Ok [VStr "C"; VStr "D"; VStr "X"] /\
  vals (veval false [("VAt_1", RAgg FMax)] env (XUn (XVar "DS_1"))) = Ok [VStr "X"; VStr "X"; VStr "X"; VStr "X"; VStr "X"] /\
  vrun false (fun _ => true) [] env [("DS_r", XVar "DS_1")] "DS_r" = Err "1-3-3-6" /\
  vals (veval false [("VAt_1", ex_rule)] [("E", mkD ["Id_1"] ["VAt_1"] [])] (XAggr (XVar "E") [] true)) = Ok [VNull] /\
  vals (veval false [("VAt_1", ex_rule)] [("E", mkD ["Id_1"] ["VAt_1"] [])] (XAggr (XVar "E") [] false)) = Ok [] /\
  vp_group_impl witness_rule [VStr "C"; VStr "B"; VStr "A"] = VStr "D" /\
  vp_group_before_fix witness_rule [VStr "C"; VStr "B"; VStr "A"] = VStr "E" /\
  enum_order_safe [VStr "A"; VStr "B"; VNull] [VC1 (VStr "A") (VStr "A"); VC1 (VStr "B") (VStr "B")] VNull = true /\
  enum_order_safe [VStr "A"; VStr "B"; VStr "C"; VStr "D"; VStr "E"]
                  [VC2 (VStr "A") (VStr "B") (VStr "C"); VC1 (VStr "C") (VStr "D")] (VStr "E") = false.
Proof. vm_compute. repeat split. Qed.

Print Assumptions C28_aggregate_group_perm.
Print Assumptions C28_group_spec_perm.
Print Assumptions C28_enumerated_pair_comm.
Print Assumptions C28_single_is_diagonal_pair.
Print Assumptions C28_engine_fold_is_spec.
Print Assumptions C28_engine_fold_order_independent.
Print Assumptions C28_group_value_order_independent.
Print Assumptions C28_aggregation_of_empty_operand.
Print Assumptions C28_empty_group_is_null.
Print Assumptions C28_aggregation_forms_agree_on_nonempty.
Print Assumptions C28_fold_before_fix_order_dependent.
Print Assumptions C28_fold_before_fix_partial.
Print Assumptions C28_before_fix_is_spec_when_safe.
Print Assumptions C28_clauses_and_set_ops_preserve.
Print Assumptions C28_missing_rule_rejected.
Print Assumptions C28_missing_rule_rejects_run.
Print Assumptions C28_static_structure_exact.
Print Assumptions C28_accepted_script_has_rules.
