(* C04 — joins combine datasets as specified.
   Statements over Model/Join.v: inner/left/full/cross join of any number of operands (alias, dataset), result structure
   (join columns once, other components under their name, homonymous ones qualified `alias#name`), missing side = null,
   keys coalesced; unbounded in operands, components and datapoints.  Proofs in Proofs/JoinP.v. *)
From Coq Require Import ZArith QArith String List Bool Permutation.
Import ListNotations.
From VTL Require Import Base.Val Model.Table Model.Scalar Model.Expr Model.Join Proofs.TableP Proofs.MonadP Proofs.ExprP Proofs.JoinP.
Open Scope nat_scope.
Open Scope string_scope.
Open Scope list_scope.

(* ---------------------------------------------------------------- inner join *)
(* a datapoint is in the result iff it is built from one datapoint of each operand agreeing on the join keys; nothing else *)
Theorem C04_inner_join_is_relational_join : forall us ops res,
  d_join JInner us ops = Ok res ->
  let hs := map o_hdr ops in
  forall r, In r (d_rows res) <->
    exists cb, Forall2 (fun x o => exists ro, x = Some ro /\ In ro (o_rows o)) cb ops /\
               agree us hs cb = true /\
               r = render hs (cols (jcols JInner us hs) hs) cb.
Proof. exact inner_join_rows. Qed.

(* two operands, spelled out: the join keys are equal and not null *)
Theorem C04_inner_join_two : forall us a b res,
  d_join JInner us [a; b] = Ok res ->
  let hs := [o_hdr a; o_hdr b] in
  forall r, In r (d_rows res) <->
    exists ra rb, In ra (o_rows a) /\ In rb (o_rows b) /\
      (forall k, In k (match_keys us [o_hdr a] (o_hdr b)) -> sql_eqb (h_val (o_hdr a) ra k) (h_val (o_hdr b) rb k) = true) /\
      r = render hs (cols (jcols JInner us hs) hs) [Some ra; Some rb].
Proof. exact inner_join_two. Qed.

(* each agreeing combination contributes exactly one datapoint (the combinations are enumerated without repetition) *)
Theorem C04_inner_join_each_combination_once : forall us hs rowss,
  Forall (@NoDup _) rowss -> NoDup (inner_combos us hs rowss).
Proof. exact inner_combos_NoDup. Qed.

(* ---------------------------------------------------------------- left join *)
Theorem C04_left_join_spec : forall us a rest res,
  d_join JLeft us (a :: rest) = Ok res ->
  let hs := map o_hdr (a :: rest) in
  forall r, In r (d_rows res) <->
    exists ra cb', In ra (o_rows a) /\
      Forall2 (fun x o => In x (partners us (o_hdr a) ra (o_hdr o) (o_rows o))) cb' rest /\
      r = render hs (cols (jcols JLeft us hs) hs) (Some ra :: cb').
Proof. exact left_join_rows. Qed.

(* the choices for one other operand: each matching datapoint, or the missing side when there is none *)
Theorem C04_left_join_partners : forall us ha ra h rows x,
  In x (partners us ha ra h rows) <->
  (exists r, x = Some r /\ In r rows /\ on_ok us [ha] [Some ra] h r = true) \/
  (x = None /\ forall r, In r rows -> on_ok us [ha] [Some ra] h r = false).
Proof. exact partners_spec. Qed.

(* every datapoint of the first operand appears … *)
Theorem C04_left_join_every_left_datapoint : forall us a rest res ra,
  d_join JLeft us (a :: rest) = Ok res -> In ra (o_rows a) ->
  let hs := map o_hdr (a :: rest) in
  exists cb', Forall2 (fun x o => In x (partners us (o_hdr a) ra (o_hdr o) (o_rows o))) cb' rest /\
              In (render hs (cols (jcols JLeft us hs) hs) (Some ra :: cb')) (d_rows res).
Proof. exact left_join_every_left_row. Qed.

(* … exactly once, padded with the missing side, when it has no partner anywhere *)
Theorem C04_left_join_unmatched_once : forall us ha ra hrest rrest,
  length hrest = length rrest ->
  (forall p r, In p (combine hrest rrest) -> In r (snd p) -> on_ok us [ha] [Some ra] (fst p) r = false) ->
  map (cons (Some ra)) (product (map (fun p => partners us ha ra (fst p) (snd p)) (combine hrest rrest)))
  = [Some ra :: map (fun _ => None) hrest].
Proof. exact left_unmatched_once. Qed.

Theorem C04_left_join_two : forall us a b res,
  d_join JLeft us [a; b] = Ok res ->
  let hs := [o_hdr a; o_hdr b] in
  let cs := cols (jcols JLeft us hs) hs in
  forall r, In r (d_rows res) <->
    exists ra, In ra (o_rows a) /\
      ((exists rb, In rb (o_rows b) /\ on_ok us [o_hdr a] [Some ra] (o_hdr b) rb = true /\ r = render hs cs [Some ra; Some rb]) \/
       ((forall rb, In rb (o_rows b) -> on_ok us [o_hdr a] [Some ra] (o_hdr b) rb = false) /\ r = render hs cs [Some ra; None])).
Proof. exact left_join_two. Qed.

(* ---------------------------------------------------------------- full join *)
(* one datapoint per identifier key occurring in some operand, made of what each operand has for that key *)
Theorem C04_full_join_spec : forall ops res,
  d_join JFull None ops = Ok res ->
  let hs := map o_hdr ops in
  d_rows res = map (fun k => render hs (cols (jcols JFull None hs) hs) (map (fun o => find_key k (o_rows o)) ops))
                   (all_keys (map o_rows ops)).
Proof. exact full_join_rows. Qed.

(* the keys enumerated: exactly the keys of the operands' datapoints, each once *)
Theorem C04_full_join_keys : forall rowss,
  (forall k, In k (all_keys rowss) -> exists rows r, In rows rowss /\ In r rows /\ fst r = k) /\
  (forall rows r, In rows rowss -> In r rows -> exists k, In k (all_keys rowss) /\ key_eqb (fst r) k = true) /\
  uniq_keys (map (fun k => (k, @nil val)) (all_keys rowss)) = true.
Proof. exact all_keys_spec. Qed.

(* both sides: every datapoint of every operand takes part *)
Theorem C04_full_join_both_sides : forall rowss rows r,
  In rows rowss -> In r rows -> uniq_keys rows = true ->
  exists k, In k (all_keys rowss) /\ find_key k rows = Some r.
Proof. exact full_join_both_sides. Qed.

(* keys coalesced: the identifiers of the datapoint built for key k are k, whichever sides are present *)
Theorem C04_full_join_keys_coalesced : forall ids ops k,
  ops <> [] -> NoDup ids -> same_ids ids ops -> In k (all_keys (map o_rows ops)) ->
  let hs := map o_hdr ops in
  key_eqb k (fst (render hs (cols (jcols JFull None hs) hs) (map (fun o => find_key k (o_rows o)) ops))) = true.
Proof. exact full_join_key. Qed.

(* ---------------------------------------------------------------- cross join *)
Theorem C04_cross_join_is_product : forall ops res,
  d_join JCross None ops = Ok res ->
  let hs := map o_hdr ops in
  d_rows res = map (render hs (cols [] hs)) (cross_combos (map o_rows ops)) /\
  length (d_rows res) = fold_right (fun o n => length (o_rows o) * n) 1 ops /\
  (forall cb, In cb (cross_combos (map o_rows ops)) <->
              Forall2 (fun x o => exists ro, x = Some ro /\ In ro (o_rows o)) cb ops) /\
  (Forall (fun o => NoDup (o_rows o)) ops -> NoDup (cross_combos (map o_rows ops))).
Proof. exact cross_join_rows. Qed.

(* ---------------------------------------------------------------- values: missing side, alias disambiguation *)
Theorem C04_missing_side_null : forall hs cb i n,
  nth_error cb i = Some None -> src_val hs cb (SOp i n) = VNull.
Proof. exact missing_side_src. Qed.

(* no two result components share a name *)
Theorem C04_alias_disambiguation_names : forall k us ops res,
  let hs := map o_hdr ops in
  wf_headers (jcols k us hs) hs -> d_join k us ops = Ok res -> NoDup (d_ids res ++ d_ms res).
Proof. exact join_names_NoDup. Qed.

(* each component that is not a join column is found under its (qualified when homonymous) name and carries its own operand's
   value — null when that side is missing *)
Theorem C04_alias_disambiguation_values : forall cbs k us hs i h n cb,
  let J := jcols k us hs in
  wf_headers J hs -> nth_error hs i = Some h -> In n (nonjoin J h) ->
  elook (out_name J hs h n) (row_env (join_with cbs k us hs) (render hs (cols J hs) cb)) =
  Some (match nth_error cb i with Some (Some r) => h_val h r n | _ => VNull end).
Proof. exact alias_component_value. Qed.

(* ---------------------------------------------------------------- one datapoint per identifier key *)
Theorem C04_full_join_keys_unique : forall ids ops res,
  ops <> [] -> NoDup ids -> same_ids ids ops ->
  d_join JFull None ops = Ok res -> uniq_keys (d_rows res) = true.
Proof. exact full_join_keys_unique. Qed.

Theorem C04_left_join_keys_unique : forall a rest res,
  first_is_reference (o_hdr a) (map o_hdr rest) -> Forall wf_operand (a :: rest) ->
  d_join JLeft None (a :: rest) = Ok res -> uniq_keys (d_rows res) = true.
Proof. exact left_join_keys_unique. Qed.

Theorem C04_inner_join_keys_unique : forall a rest res,
  first_is_reference (o_hdr a) (map o_hdr rest) -> Forall wf_operand (a :: rest) ->
  d_join JInner None (a :: rest) = Ok res -> uniq_keys (d_rows res) = true.
Proof. exact inner_join_keys_unique_n. Qed.

(* ---------------------------------------------------------------- order independence (inner, left, cross) *)
Theorem C04_permutation_invariance : forall k us ops ops' res,
  k <> JFull ->
  map o_hdr ops' = map o_hdr ops -> Forall2 (@Permutation _) (map o_rows ops) (map o_rows ops') ->
  d_join k us ops = Ok res ->
  exists res', d_join k us ops' = Ok res' /\ d_ids res' = d_ids res /\ d_ms res' = d_ms res /\
               Permutation (d_rows res) (d_rows res').
Proof. exact join_perm. Qed.

(* ---------------------------------------------------------------- why the left-deep formulation is not a full join *)
(* d_join_impl is the formulation the engine emitted before its repair (fix 94e8b5c: left-deep FULL JOINs, each ON comparing
   with the FIRST operand only): a key missing in the first operand but present in the 2nd and 3rd yields two datapoints —
   the full-join statements above are false for it.  The correspondence runs the specification (d_join) only. *)
Theorem C04_full_join_impl_refuted :
  exists ops, Forall wf_operand ops /\
    (exists res, d_join_impl JFull None ops = Ok res /\ uniq_keys (d_rows res) = false /\
                 In ([VInt 3], [VNull; VInt 21; VNull]) (d_rows res) /\ In ([VInt 3], [VNull; VNull; VInt 30]) (d_rows res)) /\
    (exists res, d_join JFull None ops = Ok res /\ uniq_keys (d_rows res) = true /\
                 In ([VInt 3], [VNull; VInt 21; VInt 30]) (d_rows res)).
Proof. exact full_join_impl_refuted. Qed.

(* ---------------------------------------------------------------- concrete datasets; the hypotheses are satisfiable *)
Example C04_example :
  d_join JInner None [ex_L; ex_R] =
    Ok (mkD ["Id_1"; "Id_2"] ["d1#Me_1"; "Me_2"; "d2#Me_1"; "Me_3"]
            [([VInt 1; VStr "A"], [VInt 10; VStr "x"; VInt 100; VInt 15]);
             ([VInt 2; VStr "A"], [VInt 12; VStr "z"; VNull; VInt 25])]) /\
  d_join_stmt false JLeft None [ex_L; ex_R] [JKeep ["d1#Me_1"; "Me_3"]] =
    Ok (mkD ["Id_1"; "Id_2"] ["Me_1"; "Me_3"]
            [([VInt 1; VStr "A"], [VInt 10; VInt 15]); ([VInt 1; VStr "B"], [VInt 11; VNull]);
             ([VInt 2; VStr "A"], [VInt 12; VInt 25]); ([VInt 3; VStr "A"], [VNull; VNull])]) /\
  bind (d_join_stmt false JFull None [ex_L; ex_R] [JRename [("d1#Me_1", "A1"); ("d2#Me_1", "B1")]]) (fun d => Ok (d_ms d, d_rows d)) =
    Ok (["A1"; "Me_2"; "B1"; "Me_3"],
        [([VInt 1; VStr "A"], [VInt 10; VStr "x"; VInt 100; VInt 15]); ([VInt 1; VStr "B"], [VInt 11; VNull; VNull; VNull]);
         ([VInt 2; VStr "A"], [VInt 12; VStr "z"; VNull; VInt 25]); ([VInt 3; VStr "A"], [VNull; VStr "w"; VNull; VNull]);
         ([VInt 2; VStr "B"], [VNull; VNull; VInt 102; VInt 35]); ([VInt 4; VStr "A"], [VNull; VNull; VInt 103; VNull])]) /\
  d_join_stmt false JInner None [ex_L; ex_R] [] = Err "1-1-13-9" /\
  bind (d_join JCross None [ex_L; ex_R]) (fun d => Ok (d_ids d, length (d_rows d))) =
    Ok (["d1#Id_1"; "d1#Id_2"; "d2#Id_1"; "d2#Id_2"], 16).
Proof. exact example_joins. Qed.

Example C04_hypotheses_satisfiable :
  let hs := map o_hdr [ex_L; ex_R] in
  wf_headers (jcols JInner None hs) hs /\ first_is_reference (o_hdr ex_L) [o_hdr ex_R] /\
  Forall wf_operand [ex_L; ex_R] /\ same_ids ["Id_1"; "Id_2"] [ex_L; ex_R].
Proof. exact example_hypotheses. Qed.

Print Assumptions C04_inner_join_is_relational_join.
Print Assumptions C04_inner_join_two.
Print Assumptions C04_inner_join_each_combination_once.
Print Assumptions C04_left_join_spec.
Print Assumptions C04_left_join_partners.
Print Assumptions C04_left_join_every_left_datapoint.
Print Assumptions C04_left_join_unmatched_once.
Print Assumptions C04_left_join_two.
Print Assumptions C04_full_join_spec.
Print Assumptions C04_full_join_keys.
Print Assumptions C04_full_join_both_sides.
Print Assumptions C04_full_join_keys_coalesced.
Print Assumptions C04_cross_join_is_product.
Print Assumptions C04_missing_side_null.
Print Assumptions C04_alias_disambiguation_names.
Print Assumptions C04_alias_disambiguation_values.
Print Assumptions C04_full_join_keys_unique.
Print Assumptions C04_left_join_keys_unique.
Print Assumptions C04_inner_join_keys_unique.
Print Assumptions C04_permutation_invariance.
Print Assumptions C04_full_join_impl_refuted.
Print Assumptions C04_example.
Print Assumptions C04_hypotheses_satisfiable.
