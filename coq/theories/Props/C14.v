(* C14 — writing results to an output folder preserves them exactly.
   Model: Model/Codec.v (a) DuckDB 1.5.5 `COPY … WITH (HEADER true, DELIMITER ',')` writer (rule observed on the real DuckDB each
   run by the harness: quoted iff empty or containing , DQUOTE CR LF #), a strict RFC-4180 reader, (b) Python csv.writer as used
   for _scalars.csv.  Cells are option byte-strings: NULL and the empty string are different values.
   The theorems quantify over ALL tables: any number of rows and columns, any bytes in the cells (inductive proofs in
   Proofs/CodecP.v).  The harness decodes the bytes the engine wrote with THIS decoder (decode_csv_N) and compares with the
   in-memory result of the same script. *)
From Coq Require Import String Ascii List.
Import ListNotations.
From VTL Require Import Model.Codec Proofs.CodecP.

(* every result table is recovered exactly from the file *)
Theorem C14_csv_roundtrip : forall t : table, wf_table t -> decode_csv (encode_csv t) = Some t.
Proof. exact csv_roundtrip. Qed.
Print Assumptions C14_csv_roundtrip.

(* two different results never give the same file *)
Theorem C14_csv_injective : forall t1 t2, wf_table t1 -> wf_table t2 -> encode_csv t1 = encode_csv t2 -> t1 = t2.
Proof. exact encode_csv_injective. Qed.
Print Assumptions C14_csv_injective.

(* the hypothesis (every row has a cell) cannot be dropped *)
Theorem C14_csv_roundtrip_needs_wf : exists t, decode_csv (encode_csv t) <> Some t.
Proof. exact csv_roundtrip_needs_wf. Qed.
Print Assumptions C14_csv_roundtrip_needs_wf.

(* _scalars.csv: what a reader recovers (an empty text reads as NULL) … *)
Theorem C14_scalars_file_decodes : forall l, decode_csv (scalars_file l) = Some (scalars_table l).
Proof. exact scalars_file_decodes. Qed.
Print Assumptions C14_scalars_file_decodes.

(* … which is exactly the returned scalars when none of them is the empty string *)
Theorem C14_scalar_file_exact : forall l, Forall scalar_distinguishable l ->
  decode_csv (scalars_file l) = Some (scalars_exact_table l).
Proof. exact scalar_file_exact. Qed.
Print Assumptions C14_scalar_file_exact.

(* the unrestricted statement is false for the writer as coded: null and "" share a file (replayed on the engine) *)
Theorem C14_scalar_file_exact_refuted : exists l1 l2 : list scalar,
  l1 <> l2 /\ scalars_file l1 = scalars_file l2 /\ decode_csv (scalars_file l2) <> Some (scalars_exact_table l2).
Proof. exact scalar_file_exact_refuted. Qed.
Print Assumptions C14_scalar_file_exact_refuted.

(* rows of _scalars.csv: a permutation of the returned scalars, in name order *)
Theorem C14_scalars_sorted : forall l, Permutation.Permutation l (sort_scalars l) /\ Sorted.Sorted name_le (sort_scalars l).
Proof. intro l. split; [exact (sort_scalars_perm l)|exact (sort_scalars_sorted l)]. Qed.
Print Assumptions C14_scalars_sorted.

(* hypotheses are satisfiable, on a table with every awkward cell *)
Example C14_example_wf :
  let t := [[Some (B "Id_1"); Some (B "a,b"); Some (B "q""q")];
            [Some (B "1"); None; Some []];
            [Some (B " x "); Some (B "#"); Some [c_cr; c_lf]]] in
  wf_table t /\ rectangular t /\ decode_csv (encode_csv t) = Some t.
Proof. split; [repeat constructor; discriminate|]. split; [repeat constructor|]. vm_compute. reflexivity. Qed.

Example C14_example_scalars :
  Forall scalar_distinguishable [(B "sc", Some (B "a,b")); (B "sn", None)].
Proof. repeat constructor; simpl; discriminate. Qed.
