(* C26 — every VTL error raised carries a catalogued code and renders its message.
   Nothing but statements closed by `exact`, and Print Assumptions.  Gen.Errors is regenerated from /repo on every run. *)
From Coq Require Import String List Bool NArith.
Import ListNotations.
From VTL Require Import Model.Errors Proofs.ErrorsP Gen.Errors.
Open Scope string_scope.

(* str.format on a message succeeds whenever every placeholder is supplied: all templates, all kwargs. *)
Theorem C26_format_total : forall m kw,
  (forall f, In f (fields_of m) -> In f (map fst kw)) -> exists s, format m kw = Some s.
Proof. exact format_total. Qed.
Print Assumptions C26_format_total.

Theorem C26_format_fails_iff : forall m kw,
  format m kw = None <-> exists f, In f (fields_of m) /\ ~ In f (map fst kw).
Proof. exact format_fails_iff. Qed.
Print Assumptions C26_format_fails_iff.

(* the decidable check holds of every raise site found in the source tree, against the catalogue of the tree *)
Theorem C26_all_sites_ok : forallb (site_ok catalogue) sites = true.
Proof. vm_compute. reflexivity. Qed.
Print Assumptions C26_all_sites_ok.

(* hence: at every raise site, for every code the site can use and for all argument values (and any extra
   keyword arguments), constructing the exception finds the code and fills every placeholder *)
Theorem C26_every_site_constructs :
  forall s, In s sites -> forall c, In c (codes_of s) ->
  forall kw, (forall k, In k (s_kwargs s) -> In k (map fst kw)) ->
  exists msg, construct catalogue c kw = Built msg.
Proof.
  intros s Hs. apply site_ok_sound.
  exact (proj1 (forallb_forall _ _) C26_all_sites_ok s Hs).
Qed.
Print Assumptions C26_every_site_constructs.

(* no site escapes the statement: none is dynamic, none uses a ** splat, each names at least one code *)
Theorem C26_no_unresolved_site :
  forall s, In s sites -> s_splat s = false /\ s_codes s <> Dynamic /\ codes_of s <> [].
Proof.
  intros s Hs. apply (site_ok_static catalogue).
  exact (proj1 (forallb_forall _ _) C26_all_sites_ok s Hs).
Qed.
Print Assumptions C26_no_unresolved_site.

(* non-vacuity: there are sites, and some of them have placeholders to fill *)
Example C26_nonvacuous :
  (100 <=? N.of_nat (length sites))%N = true /\
  (50 <=? N.of_nat (length (filter (fun s => match s_kwargs s with [] => false | _ => true end) sites)))%N = true /\
  (100 <=? N.of_nat (length catalogue))%N = true.
Proof. vm_compute. repeat split. Qed.
