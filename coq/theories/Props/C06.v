(* C06 — analytic (window) functions compute over the specified partitions and frames.
   Statements over Model/Analytic.v (d_analytic: dataset level, every measure; d_calc_analytic: one component inside calc).
   The engine is tied to these functions by correspondence (harness/props/c06.py). All statements are for datasets of any size. *)
From Coq Require Import ZArith QArith String List Bool Permutation Sorted.
Import ListNotations.
From VTL Require Import Base.Val Model.Table Model.Scalar Model.Expr Model.Analytic Proofs.TableP Proofs.MonadP Proofs.AnalyticP.
Open Scope list_scope.

(* ---------------------------------------------------------------- window_value *)
(* dataset level: same structure; every input datapoint appears exactly once, in place, with its identifiers unchanged; the value
   of measure j is the function applied for that datapoint to component j *)
Theorem C06_window_value : forall f sp d d',
  d_analytic f sp d = Ok d' ->
  d_ids d' = d_ids d /\ d_ms d' = d_ms d /\
  map fst (d_rows d') = map fst (d_rows d) /\
  Forall2 (fun r r' => fst r' = fst r /\
             Forall2 (fun j v => afun_val d sp (d_rows d) f (meas j) r = Ok v) (seq 0 (List.length (d_ms d))) (snd r'))
          (d_rows d) (d_rows d').
Proof. exact d_analytic_spec. Qed.

(* the headline in one piece (dataset level, `data points between`): the value of measure j of the k-th datapoint is the function over
   the datapoints standing in its frame — positions lo <= j' - i <= hi of its sorted partition, i its own position *)
Theorem C06_window_value_rows : forall f sp d d' k r r' j v,
  windowed f = true -> w_mode (eff_window sp) = Rows -> uniq_keys (d_rows d) = true ->
  d_analytic f sp d = Ok d' ->
  nth_error (d_rows d) k = Some r -> nth_error (d_rows d') k = Some r' ->
  j < List.length (d_ms d) -> nth_error (snd r') j = Some v ->
  fst r' = fst r /\
  let S := sorted_part d sp (d_rows d) r in
  exists i, nth_error S i = Some r /\
    v = agg f (map (meas j)
          (map snd (filter (fun jx => in_frame (w_lo (eff_window sp)) (w_hi (eff_window sp)) i (fst jx))
                           (combine (seq 0 (List.length S)) S)))).
Proof. exact d_analytic_rows_value. Qed.

(* calc: identifiers and the set of datapoints unchanged; the target component is added (or overwritten) with the value of the
   function for that datapoint over the operand component *)
Theorem C06_window_value_calc : forall d name f sp operand d',
  d_calc_analytic d name f sp operand = Ok d' ->
  mem_s name (d_ids d) = false /\
  d_ids d' = d_ids d /\ d_ms d' = calc_ms d name /\
  map fst (d_rows d') = map fst (d_rows d) /\
  Forall2 (fun r r' => fst r' = fst r /\
             exists v, afun_val d sp (d_rows d) f (fun x => colv d x operand) r = Ok v /\
                       snd r' = snd (calc_put (d_ms d) (snd r) name v))
          (d_rows d) (d_rows d').
Proof. exact d_calc_analytic_spec. Qed.
(* … the target holds the value, every other component keeps its own *)
Theorem C06_calc_frame : forall ms vals name v,
  List.length ms = List.length vals ->
  elook name (combine (fst (calc_put ms vals name v)) (snd (calc_put ms vals name v))) = Some v /\
  forall n, n <> name ->
    elook n (combine (fst (calc_put ms vals name v)) (snd (calc_put ms vals name v))) = elook n (combine ms vals).
Proof. exact calc_put_frame. Qed.

(* for sum avg count min max median var* stddev* first_value last_value the value is the aggregate of the operand over the
   datapoints of the frame *)
Theorem C06_window_function : forall d sp rows f g r, windowed f = true ->
  afun_val d sp rows f g r = Ok (agg f (map g (win_rows d sp rows r))).
Proof. exact afun_val_windowed. Qed.

(* the sorted partition of a datapoint: exactly the datapoints with the same `partition by` values, … *)
Theorem C06_partition_members : forall d sp rows r x,
  In x (sorted_part d sp rows r) <-> In x rows /\ key_eqb (pkey d sp x) (pkey d sp r) = true.
Proof. exact sorted_part_members. Qed.
Theorem C06_partition_permutation : forall d sp rows r,
  Permutation (sorted_part d sp rows r) (filter (fun x => key_eqb (pkey d sp x) (pkey d sp r)) rows).
Proof. exact sorted_part_perm_part. Qed.
(* … strictly increasing for the `order by` list when that order is total on the partition *)
Theorem C06_partition_sorted : forall d sp rows r,
  total_on (row_lt d sp) (part_of d sp rows r) = true ->
  StronglySorted (fun a b => row_lt d sp a b = true) (sorted_part d sp rows r).
Proof. exact sorted_part_sorted. Qed.

(* `data points between lo and hi`: the frame of the datapoint at position i of its sorted partition is exactly the datapoints
   at the positions j with lo <= j - i <= hi, in order *)
Theorem C06_window_frame_rows : forall d sp rows r,
  In r rows -> uniq_keys rows = true -> w_mode (eff_window sp) = Rows ->
  let S := sorted_part d sp rows r in
  exists i, nth_error S i = Some r /\
    win_rows d sp rows r =
      map snd (filter (fun jx => in_frame (w_lo (eff_window sp)) (w_hi (eff_window sp)) i (fst jx)) (combine (seq 0 (List.length S)) S)).
Proof. exact win_rows_rows. Qed.
Theorem C06_frame_bounds : forall lo hi i j,
  in_frame lo hi i j = true <->
  match lo with
  | UnbPrec => True | Prec n => (Z.of_nat i - Z.of_nat n <= Z.of_nat j)%Z | Cur => (Z.of_nat i <= Z.of_nat j)%Z
  | Foll n => (Z.of_nat i + Z.of_nat n <= Z.of_nat j)%Z | UnbFoll => False
  end /\
  match hi with
  | UnbPrec => False | Prec n => (Z.of_nat j <= Z.of_nat i - Z.of_nat n)%Z | Cur => (Z.of_nat j <= Z.of_nat i)%Z
  | Foll n => (Z.of_nat j <= Z.of_nat i + Z.of_nat n)%Z | UnbFoll => True
  end.
Proof. exact in_frame_iff. Qed.
(* `range between lo and hi` (one Integer/Number order key): the datapoints of the partition whose key lies in the interval *)
Theorem C06_window_frame_range : forall d sp rows r c desc rest,
  w_mode (eff_window sp) = Range -> a_ord sp = (c, desc) :: rest ->
  win_rows d sp rows r =
    filter (fun x => in_range desc (w_lo (eff_window sp)) (w_hi (eff_window sp)) (colv d r c) (colv d x c)) (sorted_part d sp rows r).
Proof. exact win_rows_range. Qed.

(* ---------------------------------------------------------------- window_perm *)
(* the `order by` comparison is a strict order, hence sorting a partition on which it is total does not depend on input order *)
Theorem C06_sort_unique : forall d sp rows rows' r,
  Permutation rows rows' -> total_on (row_lt d sp) (part_of d sp rows r) = true ->
  sorted_part d sp rows r = sorted_part d sp rows' r.
Proof. exact sorted_part_perm_eq. Qed.

(* when the order is total inside every partition (needed only by the functions that look at the order: everything but rank and
   ratio_to_report), any permutation of the input datapoints gives a permutation of the result *)
Theorem C06_window_perm : forall f sp d rows' d1,
  Permutation (d_rows d) rows' -> (needs_order f = true -> total_order d sp = true) ->
  d_analytic f sp d = Ok d1 ->
  exists d2, d_analytic f sp (mkD (d_ids d) (d_ms d) rows') = Ok d2 /\
             d_ids d2 = d_ids d1 /\ d_ms d2 = d_ms d1 /\ Permutation (d_rows d1) (d_rows d2).
Proof. exact d_analytic_perm. Qed.
Theorem C06_window_perm_error : forall f sp d rows' c,
  Permutation (d_rows d) rows' -> (needs_order f = true -> total_order d sp = true) ->
  d_analytic f sp d = Err c -> exists c', d_analytic f sp (mkD (d_ids d) (d_ms d) rows') = Err c'.
Proof. exact d_analytic_perm_err. Qed.
Theorem C06_window_perm_calc : forall d name f sp operand rows' d1,
  Permutation (d_rows d) rows' -> (needs_order f = true -> total_order d sp = true) ->
  d_calc_analytic d name f sp operand = Ok d1 ->
  exists d2, d_calc_analytic (mkD (d_ids d) (d_ms d) rows') name f sp operand = Ok d2 /\
             d_ids d2 = d_ids d1 /\ d_ms d2 = d_ms d1 /\ Permutation (d_rows d1) (d_rows d2).
Proof. exact d_calc_analytic_perm. Qed.
Theorem C06_window_perm_calc_error : forall d name f sp operand rows' c,
  Permutation (d_rows d) rows' -> (needs_order f = true -> total_order d sp = true) ->
  d_calc_analytic d name f sp operand = Err c ->
  exists c', d_calc_analytic (mkD (d_ids d) (d_ms d) rows') name f sp operand = Err c'.
Proof. exact d_calc_analytic_perm_err. Qed.
(* rank and ratio_to_report need no ordering hypothesis at all *)
Theorem C06_rank_ratio_perm : forall d sp rows rows' g r,
  Permutation rows rows' ->
  afun_val d sp rows FRank g r = afun_val d sp rows' FRank g r /\
  afun_val d sp rows FRatio g r = afun_val d sp rows' FRatio g r.
Proof. exact rank_ratio_perm. Qed.

(* ---------------------------------------------------------------- rank *)
(* rank = 1 + number of datapoints of the partition strictly before (peers share a rank; holds with ties too) *)
Theorem C06_rank_spec : forall d sp rows g r,
  afun_val d sp rows FRank g r =
    Ok (VInt (1 + Z.of_nat (List.length (filter (fun x => row_lt d sp x r) (part_of d sp rows r))))).
Proof. exact rank_spec. Qed.
Theorem C06_rank_position : forall d sp rows g r i,
  total_on (row_lt d sp) (part_of d sp rows r) = true ->
  nth_error (sorted_part d sp rows r) i = Some r ->
  afun_val d sp rows FRank g r = Ok (VInt (1 + Z.of_nat i)).
Proof. exact rank_position. Qed.

(* ---------------------------------------------------------------- lag / lead *)
(* the value of the datapoint n positions before / after in the sorted partition; the default (null unless given) outside *)
Theorem C06_lag_spec : forall d sp rows n dv g r i,
  uniq_keys rows = true -> nth_error (sorted_part d sp rows r) i = Some r ->
  (n <= i -> exists x, nth_error (sorted_part d sp rows r) (i - n) = Some x /\ afun_val d sp rows (FLag n dv) g r = Ok (g x)) /\
  (i < n -> afun_val d sp rows (FLag n dv) g r = Ok dv).
Proof. exact lag_spec. Qed.
Theorem C06_lead_spec : forall d sp rows n dv g r i,
  uniq_keys rows = true -> nth_error (sorted_part d sp rows r) i = Some r ->
  (forall x, nth_error (sorted_part d sp rows r) (i + n) = Some x -> afun_val d sp rows (FLead n dv) g r = Ok (g x)) /\
  (List.length (sorted_part d sp rows r) <= i + n -> afun_val d sp rows (FLead n dv) g r = Ok dv).
Proof. exact lead_spec. Qed.
(* every datapoint of a well-formed dataset has a position in its sorted partition (so the two statements above apply to it) *)
Theorem C06_position_exists : forall d sp rows r, In r rows -> uniq_keys rows = true ->
  exists i, nth_error (sorted_part d sp rows r) i = Some r /\ pos_of (fst r) (sorted_part d sp rows r) = i.
Proof. exact position_exists. Qed.

(* ---------------------------------------------------------------- ratio_to_report *)
(* value / sum of the non-null values of the partition; null for a null value or an all-null partition; runtime error 2-1-3-1
   when the sum is zero *)
Theorem C06_ratio_to_report_spec : forall d sp rows g r,
  let vals := map g (part_of d sp rows r) in
  let s := qsum (qs_of (nonnull vals)) in
  (nonnull vals = [] -> afun_val d sp rows FRatio g r = Ok VNull) /\
  (nonnull vals <> [] -> (s == 0)%Q -> afun_val d sp rows FRatio g r = Err ERR_RATIO0) /\
  (nonnull vals <> [] -> ~ (s == 0)%Q ->
     (forall x, to_q (g r) = Some x -> exists q, afun_val d sp rows FRatio g r = Ok (VNum q) /\ (q == x / s)%Q) /\
     (to_q (g r) = None -> afun_val d sp rows FRatio g r = Ok VNull)).
Proof. exact ratio_spec. Qed.

(* ---------------------------------------------------------------- operand types *)
(* the numeric functions over a component not declared Integer/Number are the semantic error 1-1-1-1; otherwise the typed entry
   points are the functions all the statements above are about *)
Theorem C06_type_check : forall numeric f sp d,
  (numeric_only f = true /\ In false numeric -> d_analytic_t numeric f sp d = Err ERR_IMPLICIT_CAST) /\
  (numeric_only f = false \/ (forall b, In b numeric -> b = true) -> d_analytic_t numeric f sp d = d_analytic f sp d).
Proof. exact analytic_type_check. Qed.
Theorem C06_type_check_calc : forall opn d name f sp operand,
  (numeric_only f = true /\ opn = false -> d_calc_analytic_t opn d name f sp operand = Err ERR_IMPLICIT_CAST) /\
  (numeric_only f = false \/ opn = true -> d_calc_analytic_t opn d name f sp operand = d_calc_analytic d name f sp operand).
Proof. exact calc_analytic_type_check. Qed.

(* ---------------------------------------------------------------- a concrete dataset (hypotheses satisfiable, values as the engine's) *)
Example C06_example :
  let D := mkD ["Id_1"; "Id_2"]%string ["Me_1"]%string
               [([VInt 1; VInt 3], [VInt 30]); ([VInt 2; VInt 5], [VNull]); ([VInt 1; VInt 1], [VInt 10]); ([VInt 2; VInt 1], [VInt 7]);
                ([VInt 1; VInt 4], [VInt 5]); ([VInt 1; VInt 2], [VNull]); ([VInt 2; VInt 2], [VInt 7])] in
  let sp w := mkA ["Id_1"]%string [("Id_2"%string, false)] w in
  let out f w := bind (d_analytic f (sp w) D) (fun d => Ok (map snd (d_rows d))) in
  total_order D (sp None) = true /\ uniq_keys (d_rows D) = true /\
  out FSum (Some (mkW Rows (Prec 1) (Foll 1))) = Ok [[VInt 35]; [VInt 7]; [VInt 10]; [VInt 14]; [VInt 35]; [VInt 40]; [VInt 14]] /\
  out FSum None = Ok [[VInt 40]; [VInt 14]; [VInt 10]; [VInt 7]; [VInt 45]; [VInt 10]; [VInt 14]] /\
  out FSum (Some (mkW Range (Prec 1) Cur)) = Ok [[VInt 30]; [VNull]; [VInt 10]; [VInt 7]; [VInt 35]; [VInt 10]; [VInt 14]] /\
  out (FLag 1 VNull) None = Ok [[VNull]; [VInt 7]; [VNull]; [VNull]; [VInt 30]; [VInt 10]; [VInt 7]] /\
  out (FLead 2 (VInt 99)) None = Ok [[VInt 99]; [VInt 99]; [VInt 30]; [VNull]; [VInt 99]; [VInt 5]; [VInt 99]] /\
  out FAvg (Some (mkW Rows UnbPrec UnbFoll)) = Ok [[VNum (15 # 1)]; [VNum (7 # 1)]; [VNum (15 # 1)]; [VNum (7 # 1)]; [VNum (15 # 1)]; [VNum (15 # 1)]; [VNum (7 # 1)]] /\
  bind (d_analytic FRatio (mkA ["Id_1"]%string [] None) D) (fun d => Ok (map snd (d_rows d)))
    = Ok [[VNum (2 # 3)]; [VNull]; [VNum (2 # 9)]; [VNum (1 # 2)]; [VNum (1 # 9)]; [VNull]; [VNum (1 # 2)]] /\
  bind (d_calc_analytic D "Me_2"%string FRank (mkA ["Id_1"]%string [("Me_1"%string, true)] None) ""%string) (fun d => Ok (d_ms d, map snd (d_rows d)))
    = Ok (["Me_1"; "Me_2"]%string, [[VInt 30; VInt 1]; [VNull; VInt 3]; [VInt 10; VInt 2]; [VInt 7; VInt 1]; [VInt 5; VInt 3]; [VNull; VInt 4]; [VInt 7; VInt 1]]) /\
  d_analytic FRatio (mkA []%string [] None) (mkD ["Id_1"]%string ["Me_1"]%string [([VInt 1], [VInt 5]); ([VInt 2], [VInt (-5)])]) = Err "2-1-3-1"%string.
Proof. vm_compute. repeat split. Qed.

Print Assumptions C06_window_value.
Print Assumptions C06_window_value_rows.
Print Assumptions C06_window_value_calc.
Print Assumptions C06_calc_frame.
Print Assumptions C06_window_function.
Print Assumptions C06_partition_members.
Print Assumptions C06_partition_permutation.
Print Assumptions C06_partition_sorted.
Print Assumptions C06_window_frame_rows.
Print Assumptions C06_frame_bounds.
Print Assumptions C06_window_frame_range.
Print Assumptions C06_sort_unique.
Print Assumptions C06_window_perm.
Print Assumptions C06_window_perm_error.
Print Assumptions C06_window_perm_calc.
Print Assumptions C06_window_perm_calc_error.
Print Assumptions C06_rank_ratio_perm.
Print Assumptions C06_rank_spec.
Print Assumptions C06_rank_position.
Print Assumptions C06_lag_spec.
Print Assumptions C06_lead_spec.
Print Assumptions C06_position_exists.
Print Assumptions C06_ratio_to_report_spec.
Print Assumptions C06_type_check.
Print Assumptions C06_type_check_calc.
Print Assumptions C06_example.
