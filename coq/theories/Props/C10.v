(* C10 — results conform to the structure predicted by semantic analysis.
   For the expression language of Model/Expr.v: the structure computed statically from the input structures alone
   (names_of: the model of the semantic pass for names / identifier-vs-other role / order) is exactly the structure of the
   evaluated result; identifiers of results are never null and unique per datapoint whenever the inputs' are.
   Types, nullability flags and the operators outside this subset are covered by harness/props/c10.py, which evaluates
   the conformance predicate DIRECTLY on run() output against semantic_analysis() for generated and corpus scripts
   (partial: no typing judgement in the model). *)
From Coq Require Import ZArith QArith String List Bool Permutation.
Import ListNotations.
From VTL Require Import Base.Val Model.Table Model.Scalar Model.Expr Model.Struct
     Proofs.TableP Proofs.MonadP Proofs.ExprP Proofs.PermP Proofs.StructP.

Theorem C10_predicted_structure_is_result_structure : forall x e d,
  deval e x = Ok d -> names_of (senv_of e) x = Ok (sig_of d).
Proof. exact names_sound. Qed.

Theorem C10_identifiers_never_null : forall x, no_sub x = true -> forall e d,
  (forall n d0, dlook n e = Some d0 -> keys_ok (d_rows d0)) ->
  deval e x = Ok d -> keys_ok (d_rows d).
Proof. exact keys_never_null_nosub. Qed.

(* one datapoint per identifier key (so at most one datapoint when there are no identifiers) *)
Theorem C10_identifiers_unique : forall x, no_sub x = true -> forall e r,
  env_wf e -> deval e x = Ok r -> wfd r.
Proof.
  intros x Hs e r We H. destruct (deval_perm x Hs e e r (env_equiv_self e We) H) as [r' [_ [_ W]]]. exact W.
Qed.

Lemma C10_no_identifiers_at_most_one : forall rows : list (list val * list val),
  uniq_keys rows = true -> (forall r, In r rows -> fst r = []) -> (List.length rows <= 1)%nat.
Proof.
  intros [|a [|b t]] Hu Hk; simpl; auto. exfalso. simpl in Hu.
  rewrite (Hk a), (Hk b) in Hu by (simpl; auto). simpl in Hu. discriminate.
Qed.

Example C10_example :
  names_of [("A"%string, (["Id_1"; "Id_2"]%string, ["Me_1"; "Me_2"]%string))]
    (DSub (DCalc (DKeep (DVar "A") ["Me_2"%string]) [("Me_9"%string, CLit (VInt 1))]) [("Id_2"%string, VStr "x")])
  = Ok (["Id_1"]%string, ["Me_2"; "Me_9"]%string) /\
  (* set operators: the structure (names and order) of the FIRST operand; different component sets are rejected *)
  names_of [("A"%string, (["Id_1"; "Id_2"]%string, ["Me_1"; "Me_2"]%string)); ("B"%string, (["Id_2"; "Id_1"]%string, ["Me_2"; "Me_1"]%string))]
    (DSub (DSet OSetdiff (DVar "B") (DSet OUnion (DVar "A") (DVar "B"))) [("Id_2"%string, VStr "x")])
  = Ok (["Id_1"]%string, ["Me_2"; "Me_1"]%string) /\
  names_of [("A"%string, (["Id_1"; "Id_2"]%string, ["Me_1"; "Me_2"]%string)); ("B"%string, (["Id_1"]%string, ["Me_2"; "Me_1"]%string))]
    (DSet OIntersect (DVar "A") (DVar "B")) = Err ERR_SET_STRUCT.
Proof. vm_compute. repeat split. Qed.

Print Assumptions C10_predicted_structure_is_result_structure.
Print Assumptions C10_identifiers_never_null.
Print Assumptions C10_identifiers_unique.
Print Assumptions C10_no_identifiers_at_most_one.
