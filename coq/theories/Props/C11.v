(* C11 — semantic type rules follow the documented implicit-cast table.
   Gen.Types is regenerated from /repo on every run: the two tables, the class hierarchy, the operator registry, the doc
   tables of docs/data_types.rst and the COMPLETE function tables of the four promotion functions (evaluated by the real
   code on their whole finite domain).  Every theorem quantifies over the whole domain; the proofs are exhaustive
   computations lifted by sweepN_sound (a proof, since the domain is finite: 9 x 9 x 10 x 10 tuples). *)
From Coq Require Import String List Bool.
Import ListNotations.
From VTL Require Import Model.Types Model.Promote Proofs.PromoteP Gen.Types.

Definition subclass_code (a b : ty) : bool := existsb (fun p => ty_eqb a (fst p) && ty_eqb b (snd p)) subclass_pairs.
(* "Null to any type: Null is compatible with every type" (Key rules under the table) *)
Definition doc_implicit (t : ty) : list ty := match t with TNull => all_ty | _ => doc_implicit_rows t end.

Definition promoB := binary_promotion implicit_code subclass_code.
Definition checkB := check_binary implicit_code.
Definition promoU := unary_promotion implicit_code subclass_code.
Definition checkU := check_unary implicit_code.

(* --- tie, checked by the kernel: the hand-written model IS the code's function on the entire domain *)
Theorem C11_model_is_code_binary_promotion : forall l r tc rt,
  assoc key4_eqb (l, r, tc, rt) bin_promo_tab = Some (promoB l r tc rt).
Proof.
  intros. apply ooty_eqb_eq.
  exact (sweep4_sound (fun l r tc rt => ooty_eqb (assoc key4_eqb (l, r, tc, rt) bin_promo_tab) (Some (promoB l r tc rt)))
           ltac:(vm_compute; reflexivity) l r tc rt).
Qed.
Theorem C11_model_is_code_binary_check : forall l r tc rt,
  assoc key4_eqb (l, r, tc, rt) bin_check_tab = Some (checkB l r tc rt).
Proof.
  intros. apply obool_eqb_eq.
  exact (sweep4_sound (fun l r tc rt => obool_eqb (assoc key4_eqb (l, r, tc, rt) bin_check_tab) (Some (checkB l r tc rt)))
           ltac:(vm_compute; reflexivity) l r tc rt).
Qed.
Theorem C11_model_is_code_unary_promotion : forall o tc rt,
  assoc key3_eqb (o, tc, rt) un_promo_tab = Some (promoU o tc rt).
Proof.
  intros. apply ooty_eqb_eq.
  exact (sweep3_sound (fun o tc rt => ooty_eqb (assoc key3_eqb (o, tc, rt) un_promo_tab) (Some (promoU o tc rt)))
           ltac:(vm_compute; reflexivity) o tc rt).
Qed.
Theorem C11_model_is_code_unary_check : forall o tc rt,
  assoc key3_eqb (o, tc, rt) un_check_tab = Some (checkU o tc rt).
Proof.
  intros. apply obool_eqb_eq.
  exact (sweep3_sound (fun o tc rt => obool_eqb (assoc key3_eqb (o, tc, rt) un_check_tab) (Some (checkU o tc rt)))
           ltac:(vm_compute; reflexivity) o tc rt).
Qed.

(* --- the code's implicit table is the documented one *)
Theorem C11_implicit_table_is_documented : forall t, set_eq (implicit_code t) (doc_implicit t) = true.
Proof. exact (sweep1_sound (fun t => set_eq (implicit_code t) (doc_implicit t)) ltac:(vm_compute; reflexivity)). Qed.

(* --- the check that accepts a type pair always agrees with the promotion that computes its result *)
Theorem C11_check_agrees_promotion_binary : forall l r tc rt,
  checkB l r tc rt = true <-> promoB l r tc rt <> None.
Proof.
  intros l r tc rt.
  pose proof (sweep4_sound (fun l r tc rt => Bool.eqb (checkB l r tc rt) (is_some (promoB l r tc rt)))
                ltac:(vm_compute; reflexivity) l r tc rt) as H.
  apply Bool.eqb_prop in H. rewrite H. destruct (promoB l r tc rt); simpl; split; congruence.
Qed.
Theorem C11_check_agrees_promotion_unary : forall o tc rt,
  checkU o tc rt = true <-> promoU o tc rt <> None.
Proof.
  intros o tc rt.
  pose proof (sweep3_sound (fun o tc rt => Bool.eqb (checkU o tc rt) (is_some (promoU o tc rt)))
                ltac:(vm_compute; reflexivity) o tc rt) as H.
  apply Bool.eqb_prop in H. rewrite H. destruct (promoU o tc rt); simpl; split; congruence.
Qed.

(* --- operands are accepted exactly when the documented table gives them a common type admitted by the operator *)
Theorem C11_accept_iff_documented_binary : forall l r tc rt,
  checkB l r tc rt = doc_accepts_binary doc_implicit l r tc.
Proof.
  intros. apply Bool.eqb_prop.
  exact (sweep4_sound (fun l r tc rt => Bool.eqb (checkB l r tc rt) (doc_accepts_binary doc_implicit l r tc))
           ltac:(vm_compute; reflexivity) l r tc rt).
Qed.
Theorem C11_accept_iff_documented_unary : forall o tc rt,
  checkU o tc rt = doc_accepts_unary doc_implicit o tc.
Proof.
  intros. apply Bool.eqb_prop.
  exact (sweep3_sound (fun o tc rt => Bool.eqb (checkU o tc rt) (doc_accepts_unary doc_implicit o tc))
           ltac:(vm_compute; reflexivity) o tc rt).
Qed.

(* --- and the reported result type is the documented one *)
Theorem C11_result_type_documented_binary : forall l r tc rt res,
  promoB l r tc rt = Some res -> doc_result_ok_binary doc_implicit l r rt res = true.
Proof.
  intros l r tc rt res H.
  pose proof (sweep4_sound (fun l r tc rt => match promoB l r tc rt with
                                             | Some x => doc_result_ok_binary doc_implicit l r rt x | None => true end)
                ltac:(vm_compute; reflexivity) l r tc rt) as S.
  cbv beta in S. rewrite H in S. exact S.
Qed.
Theorem C11_result_type_documented_unary : forall o tc rt res,
  promoU o tc rt = Some res -> doc_result_ok_unary doc_implicit o rt res = true.
Proof.
  intros o tc rt res H.
  pose proof (sweep3_sound (fun o tc rt => match promoU o tc rt with
                                           | Some x => doc_result_ok_unary doc_implicit o rt x | None => true end)
                ltac:(vm_compute; reflexivity) o tc rt) as S.
  cbv beta in S. rewrite H in S. exact S.
Qed.

(* --- for every commutative operator of the registry the result type does not depend on operand order *)
Definition comm_ok (o : opinfo) : bool :=
  negb (o_comm o) || sweep2 (fun l r => oty_eqb (promoB l r (o_tc o) (o_rt o)) (promoB r l (o_tc o) (o_rt o))).

Theorem C11_commutative_result_order_independent :
  forall o, In o registry -> o_comm o = true ->
  forall l r, promoB l r (o_tc o) (o_rt o) = promoB r l (o_tc o) (o_rt o).
Proof.
  intros o Ho Hc l r.
  assert (forallb comm_ok registry = true) as H by (vm_compute; reflexivity).
  rewrite forallb_forall in H. specialize (H o Ho). unfold comm_ok in H. rewrite Hc in H. simpl in H.
  apply oty_eqb_eq. exact (sweep2_sound _ H l r).
Qed.

(* non-vacuity: the registry has commutative operators, and some tuples are accepted, some rejected *)
Example C11_nonvacuous :
  existsb o_comm registry = true /\ checkB TInteger TNumber (Some TNumber) None = true /\
  checkB TString TInteger (Some TNumber) None = false /\ promoB TInteger TNumber (Some TNumber) None = Some TNumber.
Proof. vm_compute. repeat split. Qed.

Print Assumptions C11_model_is_code_binary_promotion.
Print Assumptions C11_model_is_code_binary_check.
Print Assumptions C11_model_is_code_unary_promotion.
Print Assumptions C11_model_is_code_unary_check.
Print Assumptions C11_implicit_table_is_documented.
Print Assumptions C11_check_agrees_promotion_binary.
Print Assumptions C11_check_agrees_promotion_unary.
Print Assumptions C11_accept_iff_documented_binary.
Print Assumptions C11_accept_iff_documented_unary.
Print Assumptions C11_result_type_documented_binary.
Print Assumptions C11_result_type_documented_unary.
Print Assumptions C11_commutative_result_order_independent.
