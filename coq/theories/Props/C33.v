(* C33 — results depend only on the SET of input datapoints.
   Statements over the specification functions (Model/Expr.v, Model/SetOps.v): permuting the datapoints of any input
   leaves every result unchanged as a set (a Permutation of its datapoints).  The engine is tied to these functions by
   the correspondences of C01/C02/C05; in addition harness/props/c33.py evaluates this predicate DIRECTLY on engine
   output for row permutations and column reorderings of generated and corpus scripts. *)
From Coq Require Import ZArith QArith String List Bool Permutation.
Import ListNotations.
From VTL Require Import Base.Val Model.Table Model.Scalar Model.Expr Model.SetOps
     Proofs.TableP Proofs.MonadP Proofs.ExprP Proofs.SetOpsP Proofs.PermP Proofs.SubPermP.

(* every expression built from dataset∘dataset operators, the set operators union / intersect / setdiff / symdiff (DSet, with
   the second operand aligned by name), element-wise operators and the clauses filter / calc / keep / drop / rename: if the environments hold the same datapoints in any order, evaluation succeeds on both or neither and
   the results hold the same datapoints; arbitrary nesting depth, datapoint counts and component counts *)
Theorem C33_expression_order_independent : forall x, no_sub x = true ->
  forall e e' r, env_equiv e e' -> deval e x = Ok r ->
  exists r', deval e' x = Ok r' /\ dequiv r r' /\ wfd r.
Proof. exact deval_perm. Qed.

(* sub (excluded above only because uniqueness of the shortened keys is not carried through the composite induction) *)
Theorem C33_sub_order_independent_partial : forall d fixed rows',
  Permutation (d_rows d) rows' ->
  Permutation (d_rows (d_sub d fixed)) (d_rows (d_sub (mkD (d_ids d) (d_ms d) rows') fixed)).
Proof. exact d_sub_perm. Qed.

(* sub applied LAST (once, or a chain of subs) on top of any expression of the theorem above: order independent with no further
   hypothesis — only a sub NESTED under another operator remains outside the composite statement *)
Theorem C33_sub_on_top_order_independent : forall x l, no_sub x = true ->
  forall e e' r, env_equiv e e' -> deval e (DSub x l) = Ok r ->
  exists r', deval e' (DSub x l) = Ok r' /\ dequiv r r'.
Proof. exact deval_sub_top_perm. Qed.

Theorem C33_sub_chain_on_top_order_independent : forall x ls, no_sub x = true ->
  forall e e' r, env_equiv e e' -> deval e (subs x ls) = Ok r ->
  exists r', deval e' (subs x ls) = Ok r' /\ dequiv r r'.
Proof. exact deval_sub_chain_perm. Qed.

Example C33_sub_on_top_nonvacuous :
  let A := mkD ["Id_1"; "Id_2"]%string ["Me_1"%string] [([VInt 1; VStr "A"], [VInt 6]); ([VInt 2; VStr "A"], [VInt 5]); ([VInt 2; VStr "B"], [VInt 4])] in
  let A' := mkD ["Id_1"; "Id_2"]%string ["Me_1"%string] [([VInt 2; VStr "B"], [VInt 4]); ([VInt 2; VStr "A"], [VInt 5]); ([VInt 1; VStr "A"], [VInt 6])] in
  let x := DBin Add (DVar "A") (DVar "A") in
  no_sub x = true /\
  deval [("A"%string, A)] (DSub x [("Id_2"%string, VStr "A")])
    = Ok (mkD ["Id_1"%string] ["Me_1"%string] [([VInt 1], [VInt 12]); ([VInt 2], [VInt 10])]) /\
  deval [("A"%string, A')] (DSub x [("Id_2"%string, VStr "A")])
    = Ok (mkD ["Id_1"%string] ["Me_1"%string] [([VInt 2], [VInt 10]); ([VInt 1], [VInt 12])]).
Proof. vm_compute. repeat split. Qed.

(* errors do not depend on the order either: an evaluation that fails on some datapoint fails for every order *)
Theorem C33_error_order_independent : forall {A B} (f : A -> res B) l l' c,
  Permutation l l' -> mapM f l = Err c -> exists c', mapM f l' = Err c'.
Proof. intros A B. exact (@mapM_perm_err A B). Qed.

(* set operators *)
Theorem C33_set_operators_order_independent :
  (forall ops ops', Forall2 (@Permutation _) ops ops' -> Permutation (union ops) (union ops')) /\
  (forall a a' rest rest', Permutation a a' -> Forall2 (@Permutation _) rest rest' ->
      Permutation (intersect (a :: rest)) (intersect (a' :: rest'))) /\
  (forall a a' b b', Permutation a a' -> Permutation b b' -> Permutation (setdiff a b) (setdiff a' b')) /\
  (forall a a' b b', Permutation a a' -> Permutation b b' -> Permutation (symdiff a b) (symdiff a' b')).
Proof. split; [exact union_perm|]. split; [exact intersect_perm|]. split; [exact setdiff_perm | exact symdiff_perm]. Qed.

Example C33_nonvacuous :
  let A := mkD ["Id_1"%string] ["Me_1"%string] [([VInt 1], [VInt 6]); ([VInt 2], [VInt 5])] in
  let A' := mkD ["Id_1"%string] ["Me_1"%string] [([VInt 2], [VInt 5]); ([VInt 1], [VInt 6])] in
  env_equiv [("A"%string, A)] [("A"%string, A')] /\
  no_sub (DBin Add (DVar "A") (DFilter (DSet OSymdiff (DVar "A") (DSet OUnion (DVar "A") (DVar "A"))) (CLit (VBool true)))) = true.
Proof.
  split; [|reflexivity]. intros n. simpl. destruct (String.eqb n "A"); [|exact I].
  split; [|reflexivity]. repeat split; simpl; auto. apply perm_swap.
Qed.

Print Assumptions C33_expression_order_independent.
Print Assumptions C33_sub_order_independent_partial.
Print Assumptions C33_error_order_independent.
Print Assumptions C33_set_operators_order_independent.
Print Assumptions C33_sub_on_top_order_independent.
Print Assumptions C33_sub_chain_on_top_order_independent.
