(* C30 — numeric precision settings are applied and validated as documented.
   Gen.Config is regenerated from /repo on every run: the constants of config.py / _number_config.py (import), the documented
   ranges (docs/environment_variables.rst) and the COMPLETE behaviour table of the real set_decimal_config over
   (width, scale) in ({unset} U -5..45)^2 x every prior state of the module globals in `priors`.
   `engine_config` is the model the engine is tied to (C30_model_is_code): since the repair of set_decimal_config in /repo
   (3d3b9b9) that is the documented function `set_decimal_config_spec`.  `prefix_config` is the code as it was before the
   repair; it is NOT tied to the tree and only carries the regression witnesses (theorems C30_prefix_...).
   `engine_load` (how a literal becomes a DECIMAL value) is the faithful `_impl` variant: it equals the documented load for plain
   decimals and, since the repair of the DataFrame loader (603b519), for floating-point columns (C30_float_columns_load_as_documented;
   old behaviour: C30_float_load_before_fix); exponent-notation TEXT still deviates (C30_load_rounds_to_scale_refuted). *)
From Coq Require Import ZArith List Bool Lia QArith.
Import ListNotations.
From VTL Require Import Model.Config Proofs.ConfigP Gen.Config.
Open Scope Z_scope.

Definition K := code_consts.
Definition engine_config := set_decimal_config_spec K.
Definition prefix_config := set_decimal_config_prefix K.
Definition D0 := defaults K.
(* how the engine turns an input literal into a DECIMAL(w,s) value; after a repair: load_lit_spec *)
Definition engine_load := load_lit_impl.
Definition documented_load := load_lit_spec.
Definition before_fix_load := load_lit_before_fix.

(* ---------------------------------------------------------------- the tie, checked by the kernel *)
Definition row_ok (g : globals) (ew es : option Z) : bool :=
  or4_eqb (code_table tab_both tab_unset g ew es) (Some (enc_result (engine_config ew es g))).

(* one lookup per row with both variables set (valid under every prior), per-prior lookups for the others *)
Definition check_row (ew es : option Z) : bool :=
  match ew, es with
  | Some w, Some s =>
      match assoc_by (fun a b : Z * Z => (fst a =? fst b) && (snd a =? snd b)) (w, s) tab_both with
      | Some row => forallb (fun g => r4_eqb (dec_row g row) (enc_result (engine_config ew es g))) priors
      | None => forallb (fun g => row_ok g ew es) priors
      end
  | _, _ => forallb (fun g => row_ok g ew es) priors
  end.

Theorem C30_model_is_code : forall g ew es, In g priors -> In ew axis -> In es axis ->
  code_table tab_both tab_unset g ew es = Some (enc_result (engine_config ew es g)).
Proof.
  intros g ew es Hg Hw Hs. apply or4_eqb_eq.
  assert (S : forallb (fun ew => forallb (fun es => check_row ew es) axis) axis = true) by (vm_compute; reflexivity).
  rewrite forallb_forall in S. specialize (S ew Hw). rewrite forallb_forall in S. specialize (S es Hs).
  unfold check_row in S.
  destruct ew as [w|], es as [s|];
    try (rewrite forallb_forall in S; exact (S g Hg)).
  unfold code_table.
  destruct (assoc_by (fun a b : Z * Z => (fst a =? fst b) && (snd a =? snd b)) (w, s) tab_both) as [row|] eqn:E.
  - rewrite forallb_forall in S. exact (S g Hg).
  - rewrite forallb_forall in S. specialize (S g Hg). unfold row_ok, code_table in S. rewrite E in S. exact S.
Qed.

(* the domain of that table: unset and every integer -5..45 for each variable; the priors contain the defaults, every state
   a single-variable setting can leave behind, and states only a misbehaving function could leave *)
Theorem C30_table_domain :
  axis = None :: map Some (map (fun i => Z.of_nat i - 5) (seq 0 51)) /\ In D0 priors /\
  forallb (fun e => existsb (g_eqb (state_after (engine_config e None D0))) priors &&
                    existsb (g_eqb (state_after (engine_config None e D0))) priors) axis = true /\
  In (mkG 45 10) priors /\ In (mkG 28 3) priors.
Proof. split; [vm_compute; reflexivity|]. split; [vm_compute; tauto|]. split; [vm_compute; reflexivity|]. split; vm_compute; tauto. Qed.

(* the documented ranges are the constants of the code (both modules reading OUTPUT_NUMBER_SIGNIFICANT_DIGITS agree) *)
Theorem C30_doc_ranges_are_code_constants :
  doc_width = mkDoc (c_min_w K) (c_max_w K) (c_disable K) (c_max_w K) (c_def_w K) /\
  doc_scale = mkDoc (c_min_s K) (c_max_s K) (c_disable K) (c_max_s K) (c_def_s K) /\
  number_config_range = (c_min_s K, c_max_s K, c_disable K).
Proof. vm_compute. repeat split. Qed.

Lemma wfK : wf_consts K.
Proof. vm_compute. repeat split; discriminate. Qed.

Definition eff_w (w : Z) := eff (d_disable doc_width) (d_disable_means doc_width) w.
Definition eff_s (s : Z) := eff (d_disable doc_scale) (d_disable_means doc_scale) s.

(* ---------------------------------------------------------------- accepted iff documented (ALL integers, any globals) *)
(* accepted exactly when each value is in its documented range and the width is not smaller than the scale
   (the joint condition is what DECIMAL(w,s) needs; docs/environment_variables.rst does not spell it out) *)
Theorem C30_config_accept_iff_documented : forall (w s : Z) (g : globals),
  accepted (engine_config (Some w) (Some s) g) = true <-> in_doc doc_width w /\ in_doc doc_scale s /\ eff_s s <= eff_w w.
Proof. intros. exact (spec_accept_iff K (Some w) (Some s) g wfK). Qed.

Theorem C30_config_unset_means_documented_default : forall (ew es : option Z) (g : globals),
  engine_config ew es g =
  engine_config (Some (from_env ew (d_default doc_width))) (Some (from_env es (d_default doc_scale))) g.
Proof. intros. exact (spec_unset_is_default K ew es g). Qed.

(* out-of-range settings get the documented configuration error, naming the variable *)
Theorem C30_out_of_range_rejected_with_config_error : forall (w s : Z) (g : globals),
  ~ (in_doc doc_width w /\ in_doc doc_scale s) ->
  exists v, fst (run_config engine_config (Some w) (Some s) g) = CfgRejected v.
Proof.
  intros w s g H. pose proof (C30_config_accept_iff_documented w s g) as A.
  unfold run_config. destruct (engine_config (Some w) (Some s) g) as [g'|v bad g'] eqn:E; simpl in *.
  - exfalso. apply H. destruct (proj1 A eq_refl) as (? & ? & _). auto.
  - eauto.
Qed.

(* whatever the settings and the globals, run() never reaches DuckDB with an ill-formed DECIMAL type *)
Theorem C30_no_raw_duckdb_error : forall ew es g, fst (run_config engine_config ew es g) <> RawBinder.
Proof.
  intros ew es g H. apply run_config_raw_iff in H. destruct H as (g' & A & T).
  rewrite (spec_accepted_type_ok K ew es g g' wfK) in T; try discriminate; try exact A; vm_compute; discriminate.
Qed.

(* a width inside its range but below the effective scale is rejected with the configuration error naming the width *)
Theorem C30_width_below_scale_rejected : forall (w s : Z) (g : globals),
  in_doc doc_width w -> in_doc doc_scale s -> eff_w w < eff_s s ->
  fst (run_config engine_config (Some w) (Some s) g) = CfgRejected VarWidth.
Proof.
  intros w s g Hw Hs Hlt. pose proof (C30_config_accept_iff_documented w s g) as A.
  pose proof (eff_range (c_min_w K) (c_max_w K) (c_disable K) w (proj1 wfK)) as Rw.
  pose proof (eff_range (c_min_s K) (c_max_s K) (c_disable K) s (proj1 (proj2 wfK))) as Rs.
  unfold run_config, engine_config, set_decimal_config_spec in *. simpl from_env in *.
  change (eff (c_disable K) (c_max_w K) w) with (eff_w w) in *. change (eff (c_disable K) (c_max_s K) s) with (eff_s s) in *.
  apply Rw in Hw. apply Rs in Hs.
  destruct ((eff_s s <? c_min_s K) || (eff_s s >? c_max_s K)) eqn:E1; [exfalso; lia|].
  destruct ((eff_w w <? c_min_w K) || (eff_w w >? c_max_w K)) eqn:E2; [reflexivity|].
  rewrite (proj2 (Z.ltb_lt _ _) Hlt). reflexivity.
Qed.

Example C30_width_below_scale_example :
  in_doc doc_width 6 /\ fst (run_config engine_config (Some 6) None D0) = CfgRejected VarWidth /\
  fst (run_config engine_config (Some 10) None D0) = CfgOk 10 10.
Proof. split; [right; vm_compute; split; discriminate|]. split; reflexivity. Qed.

(* ---------------------------------------------------------------- the outcome does not depend on earlier runs *)
Theorem C30_history_independent : forall ew es g1 g2,
  verdict (engine_config ew es g1) = verdict (engine_config ew es g2) /\
  fst (run_config engine_config ew es g1) = fst (run_config engine_config ew es g2).
Proof.
  intros. pose proof (spec_history_independent K ew es g1 g2) as V. split; [exact V|].
  unfold run_config. fold engine_config in V.
  destruct (engine_config ew es g1) as [a|v b a], (engine_config ew es g2) as [a'|v' b' a']; simpl in V; try discriminate.
  - injection V as <-. reflexivity.
  - injection V as <- _. reflexivity.
Qed.

(* a rejected setting leaves the globals alone; an accepted one publishes exactly the effective configuration *)
Theorem C30_state_after_call : forall ew es g,
  state_after (engine_config ew es g) =
  if accepted (engine_config ew es g)
  then mkG (eff_w (from_env ew (d_default doc_width))) (eff_s (from_env es (d_default doc_scale)))
  else g.
Proof. intros. exact (spec_state K ew es g). Qed.

(* ---------------------------------------------------------------- regression witnesses: the code before the repair *)
(* it accepted any width >= 6 (witness 45), which then escaped as a raw BinderException *)
Theorem C30_prefix_accepted_width_45 :
  accepted (prefix_config (Some 45) (Some 10) D0) = true /\ ~ in_doc doc_width 45 /\
  fst (run_config prefix_config (Some 45) (Some 10) D0) = RawBinder /\
  fst (run_config engine_config (Some 45) (Some 10) D0) = CfgRejected VarWidth.
Proof.
  split; [reflexivity|]. split; [|split; reflexivity].
  intros [E|[_ E]]; vm_compute in E; [discriminate | apply E; reflexivity].
Qed.

(* and it let a width below the scale through to DuckDB *)
Theorem C30_prefix_width_below_scale_was_raw :
  fst (run_config prefix_config (Some 6) None D0) = RawBinder /\ fst (run_config engine_config (Some 6) None D0) = CfgRejected VarWidth.
Proof. split; reflexivity. Qed.

Theorem C30_prefix_accept_iff : forall (w s : Z) (g : globals),
  accepted (prefix_config (Some w) (Some s) g) = true <->
  (w = d_disable doc_width \/ d_lo doc_width <= w) /\ in_doc doc_scale s.
Proof. intros. exact (prefix_accept_iff K (Some w) (Some s) g wfK). Qed.

(* it was sticky: with both variables unset it repeated the outcome of the previous run, e.g. after a rejected scale 3 *)
Theorem C30_prefix_sticky :
  (forall ew es g, prefix_config None None (state_after (prefix_config ew es g)) = prefix_config ew es g) /\
  fst (run_config prefix_config None None (state_after (prefix_config None (Some 3) D0))) = CfgRejected VarScale /\
  fst (run_config engine_config None None (state_after (engine_config None (Some 3) D0))) = CfgOk 28 10.
Proof. split; [intros; apply prefix_unset_repeats_previous|]. split; reflexivity. Qed.

(* ---------------------------------------------------------------- loading Numbers into DECIMAL(w,s): v stands for v / 10^s *)
(* the stored value is the input m / 10^e rounded to s decimals, half-way cases away from zero *)
Theorem C30_load_rounds_to_scale : forall w s m e v, 0 <= s -> 0 <= e -> load w s m e = Some v ->
  2 * Z.abs (v * 10 ^ e - m * 10 ^ s) <= 10 ^ e /\
  (2 * Z.abs (v * 10 ^ e - m * 10 ^ s) = 10 ^ e -> Z.abs (m * 10 ^ s) < Z.abs (v * 10 ^ e)) /\
  (e <= s -> v * 10 ^ e = m * 10 ^ s).
Proof.
  intros w s m e v Hs He L. apply load_some in L. destruct L as (-> & _).
  destruct (to_scale_nearest s m e Hs He) as (A & B). split; [exact A|]. split; [exact B|].
  intros. apply to_scale_exact. lia.
Qed.

(* rejected exactly when |m / 10^e| >= 10^(w-s) - 10^(-s) / 2, i.e. when the rounded value needs more than w digits *)
Theorem C30_load_rejects_overflow : forall w s m e, 0 <= w -> 0 <= s -> 0 <= e ->
  load w s m e = None <-> (2 * 10 ^ w - 1) * 10 ^ e <= 2 * Z.abs m * 10 ^ s.
Proof. exact load_reject_iff. Qed.

Theorem C30_load_fits : forall w s m e v, load w s m e = Some v -> Z.abs v < 10 ^ w.
Proof. intros. apply load_some in H. tauto. Qed.

(* inputs in exponent notation (CSV text, string columns, floats below 1e-4): documented = the exact value rounded *)
Theorem C30_load_all_notations_documented : forall w s,
  (forall m e, documented_load w s (Plain m e) = load w s m e /\ engine_load w s (Plain m e) = load w s m e) /\
  (forall M d x, d <= x -> documented_load w s (Sci M d x) = load w s (M * 10 ^ (x - d)) 0) /\
  (forall M d x, x <= d -> documented_load w s (Sci M d x) = load w s M (d - x)).
Proof.
  intros. split; [intros; split; reflexivity|]. split; intros M d x H; unfold documented_load, load_lit_spec, load, to_scale_pow.
  - destruct (x - d <=? 0) eqn:E; [|reflexivity]. apply Z.leb_le in E. assert (x - d = 0) as -> by lia.
    simpl Z.opp. rewrite Z.pow_0_r, Z.mul_1_r. reflexivity.
  - rewrite (proj2 (Z.leb_le (x - d) 0)) by lia. replace (- (x - d)) with (d - x) by lia. reflexivity.
Qed.

(* the engine (through DuckDB's VARCHAR -> DECIMAL cast) stores the TEXT 5e-30 as 0.0000000001 under the default DECIMAL(28,10),
   and rejects 999e-12 (= 0.000000000999) under DECIMAL(12,10) *)
Theorem C30_load_rounds_to_scale_refuted :
  (exists M d x, documented_load 28 10 (Sci M d x) = Some 0 /\ engine_load 28 10 (Sci M d x) = Some 1 /\
     binop_case_lit engine_load false (CfgOk 28 10) (Sci M d x) (Plain 0 0) = OValue 10 1) /\
  (exists M d x, documented_load 12 10 (Sci M d x) = Some 10 /\ engine_load 12 10 (Sci M d x) = None).
Proof. split; [exists 5, 0, (-30) | exists 999, 0, (-12)]; vm_compute; repeat split. Qed.

Theorem C30_load_rounds_to_scale_partial : forall w s M d x,
  0 <= s -> - (x - d + s) <= ndigits M -> ndigits M - d <= w - s ->
  engine_load w s (Sci M d x) = documented_load w s (Sci M d x).
Proof. exact load_lit_impl_eq_spec. Qed.

(* floating-point columns of a DataFrame are loaded as documented, whatever the value *)
Theorem C30_float_columns_load_as_documented : forall w s M d x,
  engine_load w s (FSci M d x) = documented_load w s (FSci M d x).
Proof. reflexivity. Qed.

(* regression witness: before the repair the float 5e-30 was stored as 0.0000000001 under the default DECIMAL(28,10), and
   9e-10 was rejected under DECIMAL(10,10) *)
Theorem C30_float_load_before_fix :
  before_fix_load 28 10 (FSci 5 0 (-30)) = Some 1 /\ engine_load 28 10 (FSci 5 0 (-30)) = Some 0 /\
  before_fix_load 10 10 (FSci 9 0 (-10)) = None /\ engine_load 10 10 (FSci 9 0 (-10)) = Some 9.
Proof. vm_compute. repeat split. Qed.

Theorem C30_plain_literals_case : forall sub o m1 e1 m2 e2,
  binop_case_lit engine_load sub o (Plain m1 e1) (Plain m2 e2) = binop_case sub o m1 e1 m2 e2.
Proof. intros. apply binop_case_lit_plain. reflexivity. Qed.

(* sums and differences at scale s are the exact rational sums and differences (unbounded) *)
Theorem C30_sum_diff_exact : forall s a b, 0 <= s ->
  (dec_val s (dec_add a b) == dec_val s a + dec_val s b)%Q /\ (dec_val s (dec_sub a b) == dec_val s a - dec_val s b)%Q.
Proof. intros. split; [apply dec_val_add | apply dec_val_sub]; assumption. Qed.

Theorem C30_result_is_sum_of_loaded : forall sub w s m1 e1 m2 e2 s' r,
  binop_case sub (CfgOk w s) m1 e1 m2 e2 = OValue s' r ->
  s' = s /\ exists a b, load w s m1 e1 = Some a /\ load w s m2 e2 = Some b /\ r = (if sub then dec_sub a b else dec_add a b).
Proof. exact binop_value_inv. Qed.

(* except at the two widths where DuckDB does not widen the result type (18, 38) the exact result always fits *)
Theorem C30_no_overflow_except_18_38 : forall sub w s m1 e1 m2 e2,
  0 <= w -> w <> duckdb_int64_width -> w <> duckdb_max_width -> binop_case sub (CfgOk w s) m1 e1 m2 e2 <> OOverflow.
Proof. exact binop_no_overflow. Qed.

Theorem C30_overflow_possible_at_18_and_38 :
  (exists m, binop_case false (CfgOk 38 10) m 0 1 0 = OOverflow) /\ (exists m, binop_case false (CfgOk 18 10) m 0 1 0 = OOverflow).
Proof. split; [exists (10 ^ 28 - 1) | exists (10 ^ 8 - 1)]; vm_compute; reflexivity. Qed.

(* non-vacuity: accepted and rejected settings exist, a half-way value rounds away from zero, an overflowing one is rejected *)
Example C30_nonvacuous :
  fst (run_config engine_config None None D0) = CfgOk 28 10 /\
  fst (run_config engine_config (Some (-1)) (Some (-1)) D0) = CfgOk 38 15 /\
  fst (run_config engine_config (Some 28) (Some 3) D0) = CfgRejected VarScale /\
  fst (run_config engine_config (Some 3) None D0) = CfgRejected VarWidth /\
  load 28 10 5 11 = Some 1 /\ load 28 10 (-5) 11 = Some (-1) /\ load 28 10 49 12 = Some 0 /\
  load 28 10 (10 ^ 18) 0 = None /\ load 28 10 (10 ^ 18 - 1) 0 = Some ((10 ^ 18 - 1) * 10 ^ 10) /\
  binop_case true (CfgOk 28 10) 15 1 225 2 = OValue 10 (-7500000000).
Proof. vm_compute. repeat split. Qed.

Print Assumptions C30_model_is_code.
Print Assumptions C30_table_domain.
Print Assumptions C30_doc_ranges_are_code_constants.
Print Assumptions C30_config_accept_iff_documented.
Print Assumptions C30_config_unset_means_documented_default.
Print Assumptions C30_out_of_range_rejected_with_config_error.
Print Assumptions C30_no_raw_duckdb_error.
Print Assumptions C30_width_below_scale_rejected.
Print Assumptions C30_history_independent.
Print Assumptions C30_state_after_call.
Print Assumptions C30_prefix_accepted_width_45.
Print Assumptions C30_prefix_width_below_scale_was_raw.
Print Assumptions C30_prefix_accept_iff.
Print Assumptions C30_prefix_sticky.
Print Assumptions C30_load_rounds_to_scale.
Print Assumptions C30_load_rejects_overflow.
Print Assumptions C30_load_rounds_to_scale_refuted.
Print Assumptions C30_load_rounds_to_scale_partial.
Print Assumptions C30_float_columns_load_as_documented.
Print Assumptions C30_float_load_before_fix.
Print Assumptions C30_sum_diff_exact.
Print Assumptions C30_result_is_sum_of_loaded.
Print Assumptions C30_no_overflow_except_18_38.
Print Assumptions C30_overflow_possible_at_18_and_38.
