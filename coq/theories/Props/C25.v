(* C25 — generate_sdmx produces a TransformationScheme equivalent to the script: the structural layer.
   Model: Model/Codec.v (e).  A script is the list of children of the AST returned by create_ast (already in the order of
   DAGAnalyzer.sort_ast: viral definitions, rulesets, operators, DAG-sorted assignments); scheme_of_script is the
   specification (nothing lost), scheme_of_script_impl is ast_to_sdmx as coded (branches for assignments, rulesets and
   operators only); script_of_scheme is pysdmx generate_vtl_script.  Partial: the expression/definition TEXTS re-parse to the
   original ASTs and run() agrees — correspondence only (harness). *)
From Coq Require Import String Ascii List Permutation.
Import ListNotations.
From VTL Require Import Model.Codec Proofs.CodecP.

(* one transformation per assignment, same order, same result name / persistence / expression, ids T1..Tn *)
Theorem C25_scheme_items_bijective : forall s,
  map (fun t => (t_result t, t_persistent t, t_expr t)) (sc_items (scheme_of_script s)) = assignments s
  /\ map t_id (sc_items (scheme_of_script s)) = seq 1 (length (assignments s)).
Proof. exact scheme_items_bijective. Qed.
Print Assumptions C25_scheme_items_bijective.

Theorem C25_scheme_items_bijective_impl : forall s,
  map (fun t => (t_result t, t_persistent t, t_expr t)) (sc_items (scheme_of_script_impl s)) = assignments s
  /\ map t_id (sc_items (scheme_of_script_impl s)) = seq 1 (length (assignments s)).
Proof. exact scheme_items_bijective_impl. Qed.
Print Assumptions C25_scheme_items_bijective_impl.

(* spec: the script regenerated from the scheme is the script *)
Theorem C25_scheme_preserves_script : forall s, sorted_script s -> script_of_scheme (scheme_of_script s) = s.
Proof. exact scheme_preserves_script. Qed.
Print Assumptions C25_scheme_preserves_script.

Theorem C25_scheme_preserves_statements : forall s, Permutation (script_of_scheme (scheme_of_script s)) s.
Proof. exact scheme_preserves_statements. Qed.
Print Assumptions C25_scheme_preserves_statements.

(* as coded: a `define viral propagation` statement is dropped (witness replayed on the engine) … *)
Theorem C25_scheme_preserves_script_impl_refuted : exists s,
  sorted_script s /\ script_of_scheme (scheme_of_script_impl s) <> s
  /\ ~ Permutation (script_of_scheme (scheme_of_script_impl s)) s.
Proof. exact scheme_preserves_script_impl_refuted. Qed.
Print Assumptions C25_scheme_preserves_script_impl_refuted.

(* … and everything else is kept *)
Theorem C25_scheme_preserves_script_impl_partial : forall s,
  sorted_script s -> filter is_viral s = [] -> script_of_scheme (scheme_of_script_impl s) = s.
Proof. exact scheme_preserves_script_impl_partial. Qed.
Print Assumptions C25_scheme_preserves_script_impl_partial.

(* result names: Transformation.result is the name as the printer renders it (/repo 65c4527), so that the transformation's
   full expression parses back to the same name; the bare AST value stored before the fix did not, for reserved words *)
Theorem C25_result_name_roundtrip : forall reserved n, has_sq n = false ->
  parse_ident reserved (render_ident_impl reserved n) = Some n.
Proof. exact quote_reserved_roundtrip_impl. Qed.
Print Assumptions C25_result_name_roundtrip.

Theorem C25_result_name_bare_refuted_before_fix : forall reserved n,
  n <> [] -> has_sq n = false -> mem_bytes n reserved = true -> parse_ident reserved n = None.
Proof. exact bare_reserved_not_identifier. Qed.
Print Assumptions C25_result_name_bare_refuted_before_fix.

Example C25_example_sorted :
  sorted_script [SRuleset RDatapoint (B "dpr1") (B "define datapoint ruleset dpr1 …");
                 SOperator (B "f") (B "define operator f …");
                 SAssign (B "DS_r") false (B "DS_1 + 1"); SAssign (B "DS_p") true (B "DS_r * 2")].
Proof. reflexivity. Qed.
