(* C10 (with C11 and C01) — type soundness of the component-expression language.
   The typing judgement `ctype` is DEFINED through the promotion functions of Model/Promote.v instantiated with the tables
   regenerated from the code on every run (Gen/Types.v: implicit-promotion table, subclass relation, operator registry), so a change
   of those tables in /repo re-checks every statement below.  Property theorems only. *)
From Coq Require Import ZArith QArith String List Bool.
Import ListNotations.
From VTL Require Import Base.Val Model.Types Model.Scalar Model.Expr Gen.Types Model.Typing Proofs.TypingP.
Open Scope string_scope.

(* every value computed for a well-typed component expression inhabits the predicted type — the specification's rule … *)
Theorem C10_values_inhabit_predicted_types : forall G e, env_typed G e ->
  forall c t v, ctype_spec G c = Some t -> ceval e c = Ok v -> has_ty v t = true.
Proof. intros G e HE c t v. exact (ctype_sound false G e HE c t v). Qed.
Print Assumptions C10_values_inhabit_predicted_types.

(* … and the rule the code applies (If.validate's operand swap included) *)
Theorem C10_code_typing_sound : forall G e, env_typed G e ->
  forall c t v, ctype_code G c = Some t -> ceval e c = Ok v -> has_ty v t = true.
Proof. intros G e HE c t v. exact (ctype_code_sound false G e HE c t v). Qed.
Print Assumptions C10_code_typing_sound.

(* the two rules are the same function: the promotion without a required type is symmetric on the code's table, so the operand
   swap of If.validate is immaterial *)
Theorem C11_code_typing_rule_is_the_specification : forall G c, ctype_code G c = ctype_spec G c.
Proof. exact ctype_code_is_spec. Qed.
Print Assumptions C11_code_typing_rule_is_the_specification.

(* calc: the values computed for the definitions of a calc clause inhabit the types predicted for the new components *)
Theorem C10_calc_values_typed : forall G e defs, env_typed G e ->
  forall nv ts,
    mapM (fun df : string * cexpr => bind (ceval e (snd df)) (fun v => Ok (fst df, v))) defs = Ok nv ->
    calc_types false G defs = Some ts ->
    Forall2 (fun (p : string * val) (q : string * ty) => fst p = fst q /\ has_ty (snd p) (snd q) = true) nv ts.
Proof. exact calc_defs_typed. Qed.
Print Assumptions C10_calc_values_typed.

(* C01 ("for every well-typed script …"): a supported expression that is well-typed without the Boolean-to-String promotion never
   reaches an ill-typed application nor an unknown component: the only errors left are VTL runtime errors (division by zero) *)
Theorem C01_well_typed_expressions_do_not_go_wrong : forall G e, env_typed_s true G e ->
  forall c t code, supported c = true -> ctype_strict G c = Some t -> ceval e c = Err code ->
    code <> ERR_TYPE /\ code <> "1-1-1-10".
Proof.
  intros G e HE c t code Hs Ht Hv.
  pose proof (ctype_progress G e HE c t code Hs Ht Hv) as H. unfold bad_code in H.
  apply orb_false_elim in H; destruct H as [H1 H2].
  split; intro; subst; [rewrite String.eqb_refl in H1 | rewrite String.eqb_refl in H2]; discriminate.
Qed.
Print Assumptions C01_well_typed_expressions_do_not_go_wrong.

(* regression witness: the rule nvl had before the repair (the left operand's type) typed nvl(Me_i, 1.5) Integer although it
   evaluates to 3/2; the current rule types it Number *)
Theorem C10_nvl_left_type_rule_refuted_before_fix :
  env_typed nvl_witness_G nvl_witness_e /\ nvl_type_before_fix TInteger TNumber = Some TInteger /\
  ceval nvl_witness_e nvl_witness_c = Ok (VNum (3 # 2)) /\ has_ty (VNum (3 # 2)) TInteger = false /\
  ctype_code nvl_witness_G nvl_witness_c = Some TNumber.
Proof. exact nvl_left_type_rule_unsound_before_fix. Qed.
Print Assumptions C10_nvl_left_type_rule_refuted_before_fix.

(* the hypotheses are satisfiable and the judgement is not trivially None *)
Example C10_types_example :
  let G := [("Me_i", TInteger); ("Me_n", TNumber); ("Me_s", TString); ("Me_b", TBoolean)] in
  let e := [("Me_i", VInt 3); ("Me_n", VNum (5 # 2)); ("Me_s", VStr "ab"); ("Me_b", VNull)] in
  env_typed G e /\ env_typed_s true G e /\
  ctype_code G (CBin Add (CCol "Me_i") (CCol "Me_n")) = Some TNumber /\
  ctype_code G (CBin Add (CCol "Me_i") (CCol "Me_i")) = Some TInteger /\
  ctype_code G (CBin Div (CCol "Me_i") (CCol "Me_i")) = Some TNumber /\
  ctype_code G (CIf (CCol "Me_b") (CCol "Me_i") (CCol "Me_n")) = Some TNumber /\
  ctype_code G (CNvl (CCol "Me_i") (CLit (VNum (3 # 2)))) = Some TNumber /\
  ctype_code G (CBin Gt (CCol "Me_i") (CCol "Me_s")) = None /\
  ctype_code G (CBetween (CCol "Me_i") (CCol "Me_i") (CCol "Me_s")) = None /\
  ctype_code G (CBin Eq (CCol "Me_s") (CCol "Me_b")) = Some TBoolean /\
  ctype_strict G (CBin Eq (CCol "Me_s") (CCol "Me_b")) = None /\
  ceval e (CBin Add (CCol "Me_i") (CCol "Me_n")) = Ok (VNum (11 # 2)).
Proof.
  cbv zeta. split; [|split].
  - simpl; repeat split; eexists; split; reflexivity.
  - simpl; repeat split; eexists; split; reflexivity.
  - repeat split; reflexivity.
Qed.
