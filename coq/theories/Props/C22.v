(* C22 — public API calls never modify the caller's arguments.
   Statements only; proofs in Proofs/OwnershipP.v; skeletons faithful to the CURRENT code (validate_before_fix = the code
   before the repair, regression witness only); the ownership skeletons of the API functions (hand-written from
   API/__init__.py, API/_InternalApi.py, files/parser/__init__.py, duckdb_transpiler/io/_io.py) in Model/Ownership.v. *)
From Coq Require Import List Bool Arith.
Import ListNotations.
From VTL Require Import Model.Ownership Proofs.OwnershipP.

(* FRAME: if no in-place modification targets a variable that may alias a caller-owned object, then for ALL fault
   positions k (the call raises after k operations; k >= length is success) every caller object is unchanged.
   Induction over skeletons; unbounded in program length, number of arguments and k. *)
Theorem C22_frame : forall nc p, safe (taint0 nc) p = true ->
  forall k ob, ob < nc -> heap (run_prefix k p (oinit nc)) ob = [].
Proof. exact frame. Qed.

Theorem C22_frame_view : forall nc p, safe (taint0 nc) p = true ->
  forall k, caller_view nc (run_prefix k p (oinit nc)) = repeat [] nc.
Proof. exact frame_view. Qed.

(* ---- per-API instances, for every number of DataFrames and every input class of each ---------------------------- *)
Theorem C22_run_skeleton_frame : forall cs k,
  caller_view (ncaller (length cs)) (run_prefix k (run_impl_o false cs) (oinit (ncaller (length cs)))) = repeat [] (ncaller (length cs)).
Proof. exact run_skeleton_frame. Qed.

Theorem C22_run_sdmx_skeleton_frame : forall cs k,
  caller_view (ncaller (length cs)) (run_prefix k (run_sdmx_o cs) (oinit (ncaller (length cs)))) = repeat [] (ncaller (length cs)).
Proof. exact run_sdmx_skeleton_frame. Qed.

Theorem C22_semantic_analysis_skeleton_frame : forall nc k,
  caller_view nc (run_prefix k semantic_o (oinit nc)) = repeat [] nc.
Proof. exact semantic_skeleton_frame. Qed.

Theorem C22_prettify_skeleton_frame : forall nc k,
  caller_view nc (run_prefix k prettify_o (oinit nc)) = repeat [] nc.
Proof. exact prettify_skeleton_frame. Qed.

Theorem C22_generate_sdmx_skeleton_frame : forall nc k,
  caller_view nc (run_prefix k generate_sdmx_o (oinit nc)) = repeat [] nc.
Proof. exact generate_sdmx_skeleton_frame. Qed.

Theorem C22_validate_value_domain_skeleton_frame : forall nc k,
  caller_view nc (run_prefix k validate_vd_o (oinit nc)) = repeat [] nc.
Proof. exact validate_vd_skeleton_frame. Qed.

Theorem C22_validate_external_routine_skeleton_frame : forall nc k,
  caller_view nc (run_prefix k validate_er_o (oinit nc)) = repeat [] nc.
Proof. exact validate_er_skeleton_frame. Qed.

Theorem C22_create_ast_skeleton_frame : forall nc k,
  caller_view nc (run_prefix k create_ast_o (oinit nc)) = repeat [] nc.
Proof. exact create_ast_skeleton_frame. Qed.

(* validate_dataset, current code (validation on a renamed copy), every number of frames, every input class *)
Theorem C22_validate_dataset_skeleton_frame : forall cs k,
  caller_view (ncaller (length cs)) (run_prefix k (validate_impl cs) (oinit (ncaller (length cs)))) = repeat [] (ncaller (length cs)).
Proof. exact validate_impl_frame. Qed.

(* ---- regression witnesses: validate_dataset BEFORE the repair commit.  Exactly what happened to the caller's frame,
   per input class; the correspondence evaluates this skeleton next to the current one: an engine that matches it again
   has regressed (and the modification is reported as a violation). *)
Theorem C22_before_fix_validate_dataset_view : forall c,
  caller_view (ncaller 1) (run_all (validate_before_fix [c]) (oinit (ncaller 1))) = [[]; []; []; []; []; tags_of c].
Proof. exact validate_before_fix_view. Qed.

(* the old skeleton violated the frame premise and modified labels, columns and values *)
Theorem C22_before_fix_validate_dataset_refuted :
  caller_view (ncaller 1) (run_all (validate_before_fix [mkDf true true true]) (oinit (ncaller 1)))
    = [[]; []; []; []; []; [TValues; TAddCol; TCols; TColsId]] /\
  safe (taint0 (ncaller 1)) (validate_before_fix [plain]) = false.
Proof. exact validate_before_fix_refuted. Qed.

Theorem C22_before_fix_validate_dataset_mutates_on_failure :
  caller_view (ncaller 2) (run_prefix (5 + block_len + 11) (validate_before_fix [mkDf true false false; plain]) (oinit (ncaller 2)))
    = [[]; []; []; []; []; [TCols; TColsId]; [TColsId]].
Proof. exact validate_before_fix_mutates_on_failure_refuted. Qed.

(* current code, model only (URL datapoints cannot be reached offline; nothing reproduced, not a finding): run() with
   http(s) datapoints stores the fetched frame into / deletes keys from the caller's datapoints dict *)
Theorem C22_run_url_refuted :
  caller_view (ncaller 0) (run_all (run_impl_o true []) (oinit (ncaller 0))) = [[]; [TDictKeys]; []; []; []] /\
  safe (taint0 (ncaller 0)) (run_impl_o true []) = false.
Proof. exact run_url_refuted. Qed.

(* non-vacuity: the safe skeletons do contain in-place modifications (of local copies), and the analysis rejects one
   that reaches a parameter *)
Example C22_nonvacuous :
  safe (taint0 7) (run_impl_o false [plain; plain]) = true /\
  existsb (fun o => match o with Mutate _ _ => true | _ => false end) (run_impl_o false [plain]) = true /\
  safe (taint0 6) [Alias vData (pDf 0); Mutate vData TCols] = false /\
  safe (taint0 6) [Alias vData (pDf 0); Copy vData vData; Mutate vData TCols] = true.
Proof. vm_compute. repeat split; reflexivity. Qed.

Print Assumptions C22_frame.
Print Assumptions C22_frame_view.
Print Assumptions C22_run_skeleton_frame.
Print Assumptions C22_run_sdmx_skeleton_frame.
Print Assumptions C22_semantic_analysis_skeleton_frame.
Print Assumptions C22_prettify_skeleton_frame.
Print Assumptions C22_generate_sdmx_skeleton_frame.
Print Assumptions C22_validate_value_domain_skeleton_frame.
Print Assumptions C22_validate_external_routine_skeleton_frame.
Print Assumptions C22_create_ast_skeleton_frame.
Print Assumptions C22_validate_dataset_skeleton_frame.
Print Assumptions C22_before_fix_validate_dataset_view.
Print Assumptions C22_before_fix_validate_dataset_refuted.
Print Assumptions C22_before_fix_validate_dataset_mutates_on_failure.
Print Assumptions C22_run_url_refuted.
