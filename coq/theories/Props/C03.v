(* C03 — aggregations group and summarise as specified.
   Statements over Model/Aggr.v: the standalone form `op(DS group by/except … having …)` (d_aggr) and the clause form
   `DS[aggr n := op(comp), … group … having …]` (d_aggr_clause).  Rows are unbounded lists; values are exact.
   stddev_pop / stddev_samp are specified through their square (the model value is the variance).
   `group all` (time_agg) is outside the model (no time identifiers in Base/Val.v). *)
From Coq Require Import ZArith QArith String List Bool Permutation.
Import ListNotations.
From VTL Require Import Base.Val Model.Table Model.Scalar Model.Expr Model.Aggr Proofs.TableP Proofs.MonadP Proofs.AggrP.

(* ---- one datapoint per distinct group; groups whose having condition is not TRUE are absent *)
Theorem C03_one_datapoint_per_group : forall op d g hav d',
  d_aggr op d g hav = Ok d' -> (d_ids d <> [] \/ d_rows d <> []) ->
  d_ids d' = group_ids (d_ids d) g /\ uniq_keys (d_rows d') = true /\
  forall k, has_key k (d_rows d') = true <->
    (exists r, In r (d_rows d) /\ key_eqb k (proj_of d g r) = true) /\
    having_ok d hav (group_rows (proj_of d g) k (d_rows d)) = Ok true.
Proof. exact d_aggr_one_per_group. Qed.

Theorem C03_one_datapoint_per_group_clause : forall d items g hav d',
  d_aggr_clause d items g hav = Ok d' -> (d_rows d <> [] \/ group_ids (d_ids d) g <> []) ->
  d_ids d' = group_ids (d_ids d) g /\ d_ms d' = map fst items /\ uniq_keys (d_rows d') = true /\
  forall k, has_key k (d_rows d') = true <->
    (exists r, In r (d_rows d) /\ key_eqb k (proj_of d g r) = true) /\
    having_ok d hav (group_rows (proj_of d g) k (d_rows d)) = Ok true.
Proof. exact d_aggr_clause_one_per_group. Qed.

Theorem C03_having_false_or_null_drops_group : forall op d g h d' k v,
  d_aggr op d g (Some h) = Ok d' ->
  heval d (group_rows (proj_of d g) k (d_rows d)) h = Ok v -> v <> VBool true -> has_key k (d_rows d') = false.
Proof. exact d_aggr_having_drops. Qed.

Theorem C03_having_false_or_null_drops_group_clause : forall d items g h d' k v,
  d_aggr_clause d items g (Some h) = Ok d' ->
  heval d (group_rows (proj_of d g) k (d_rows d)) h = Ok v -> v <> VBool true -> has_key k (d_rows d') = false.
Proof. exact d_aggr_clause_having_drops. Qed.

(* the groups: every datapoint is in the group of its projected key; group keys are pairwise distinct *)
Theorem C03_group_by_covers : forall proj rows r,
  In r rows -> exists k grp, In (k, grp) (group_by proj rows) /\ key_eqb k (proj r) = true /\ In r grp.
Proof. exact group_by_covers. Qed.
Theorem C03_group_by_spec : forall proj rows k grp,
  In (k, grp) (group_by proj rows) <-> In k (nub (map proj rows)) /\ grp = group_rows proj k rows.
Proof. exact group_by_spec. Qed.

(* ---- each measure of a result datapoint is the aggregate of exactly the values of that measure in its group *)
Theorem C03_agg_value : forall op d g hav d' k ms,
  d_aggr op d g hav = Ok d' -> op <> ACount -> In (k, ms) (d_rows d') ->
  d_ms d' = d_ms d /\ List.length ms = List.length (d_ms d) /\
  forall j, (j < List.length (d_ms d))%nat ->
    agg_vals op (column j (group_rows (proj_of d g) k (d_rows d))) = Ok (nth j ms VNull).
Proof. exact d_aggr_value. Qed.

Theorem C03_count_value : forall d g hav d' k ms,
  d_aggr ACount d g hav = Ok d' -> In (k, ms) (d_rows d') ->
  d_ms d' = ["int_var"%string] /\
  ms = [if is_nil (group_ids (d_ids d) g) then VInt (Z.of_nat (count_all (group_rows (proj_of d g) k (d_rows d))))
        else nullif0 (count_all (group_rows (proj_of d g) k (d_rows d)))].
Proof. exact d_aggr_count_value. Qed.

Theorem C03_clause_value : forall d items g hav d' k ms,
  d_aggr_clause d items g hav = Ok d' -> In (k, ms) (d_rows d') ->
  Forall2 (fun it v => item_val d (group_rows (proj_of d g) k (d_rows d)) (snd it) = Ok v) items ms.
Proof. exact d_aggr_clause_value. Qed.

(* ---- null measure values are ignored; empty / all-null groups *)
Theorem C03_nulls_ignored : forall op l, agg_vals op l = agg_vals op (non_null l).
Proof. exact agg_vals_nulls_ignored. Qed.

Theorem C03_all_null_group_is_null : forall op l, forallb is_null l = true -> agg_vals op l = Ok VNull.
Proof. exact agg_vals_all_null. Qed.

Theorem C03_count_without_complete_datapoint : forall d g hav d' k ms,
  d_aggr ACount d g hav = Ok d' -> In (k, ms) (d_rows d') ->
  count_all (group_rows (proj_of d g) k (d_rows d)) = 0%nat ->
  ms = [if is_nil (group_ids (d_ids d) g) then VInt 0%Z else VNull].
Proof. exact d_aggr_count_no_complete_row. Qed.

Theorem C03_empty_operand_standalone : forall op d g hav d',
  d_aggr op d g hav = Ok d' -> d_rows d = [] -> d_ids d <> [] -> d_rows d' = [].
Proof. exact d_aggr_empty. Qed.

Theorem C03_empty_operand_clause_without_grouping : forall d items g,
  d_rows d = [] -> check_grouping d g = Ok tt -> group_ids (d_ids d) g = [] ->
  d_aggr_clause d items g None = Ok (mkD [] (map fst items) [([], map (fun _ => VNull) items)]).
Proof. exact d_aggr_clause_empty. Qed.

(* min / max need a measure or a remaining grouping identifier: otherwise the statement is rejected with 1-1-1-8 *)
Theorem C03_minmax_without_measures_and_identifiers_rejected : forall op d g hav,
  (op = AMin \/ op = AMax) -> d_ms d = [] -> group_ids (d_ids d) g = [] ->
  (check_grouping d g = Ok tt -> d_aggr op d g hav = Err "1-1-1-8"%string) /\ (forall d', d_aggr op d g hav <> Ok d').
Proof. exact d_aggr_minmax_no_component. Qed.

Theorem C03_sample_variance_of_one_value : forall v q,
  to_q v = Some q -> agg_vals AVarSamp [v] = Ok VNull /\ agg_vals AStddevSamp [v] = Ok VNull.
Proof. exact var_samp_single. Qed.

(* ---- independence of the order of the datapoints *)
Theorem C03_agg_vals_perm : forall op l l', Permutation l l' -> agg_vals op l = agg_vals op l'.
Proof. exact agg_vals_perm. Qed.

Theorem C03_agg_perm : forall op d g hav r rows2,
  d_aggr op d g hav = Ok r -> Permutation (d_rows d) rows2 -> keys_leibniz (proj_of d g) (d_rows d) ->
  exists r2, d_aggr op (mkD (d_ids d) (d_ms d) rows2) g hav = Ok r2 /\
             d_ids r2 = d_ids r /\ d_ms r2 = d_ms r /\ Permutation (d_rows r) (d_rows r2).
Proof. exact d_aggr_perm. Qed.

Theorem C03_agg_perm_clause : forall d items g hav r rows2,
  d_aggr_clause d items g hav = Ok r -> Permutation (d_rows d) rows2 -> keys_leibniz (proj_of d g) (d_rows d) ->
  exists r2, d_aggr_clause (mkD (d_ids d) (d_ms d) rows2) items g hav = Ok r2 /\
             d_ids r2 = d_ids r /\ d_ms r2 = d_ms r /\ Permutation (d_rows r) (d_rows r2).
Proof. exact d_aggr_clause_perm. Qed.

(* the hypothesis keys_leibniz holds whenever identifier values are Integers, Strings, Booleans or reduced rationals *)
Theorem C03_keys_leibniz_sufficient : forall d g rows,
  (forall r, In r rows -> Forall vcanon (fst r)) -> keys_leibniz (proj_of d g) rows.
Proof. exact keys_leibniz_canon. Qed.

(* ---- a concrete dataset: nulls, an all-null group, repeated non-grouped identifiers, having *)
Definition C03_D : dset :=
  mkD ["Id_1"%string; "Id_2"%string] ["Me_1"%string; "Me_2"%string]
      [([VInt 1; VStr "A"], [VInt 1; VNum (3 # 2)]); ([VInt 1; VStr "B"], [VInt 2; VNull]);
       ([VInt 1; VStr "C"], [VNull; VNum (9 # 4)]); ([VInt 2; VStr "A"], [VNull; VNull]);
       ([VInt 2; VStr "B"], [VNull; VNull]); ([VInt 3; VStr "A"], [VInt 4; VNum (1 # 4)])].

Example C03_example :
  let by1 := GBy ["Id_1"%string] in
  bind (d_aggr ASum C03_D by1 None) (fun d => Ok (d_ids d, d_ms d, d_rows d))
    = Ok (["Id_1"%string], ["Me_1"%string; "Me_2"%string],
          [([VInt 1], [VInt 3; VNum (15 # 4)]); ([VInt 2], [VNull; VNull]); ([VInt 3], [VInt 4; VNum (1 # 4)])]) /\
  bind (d_aggr ACount C03_D by1 None) (fun d => Ok (d_ms d, d_rows d))
    = Ok (["int_var"%string], [([VInt 1], [VInt 1]); ([VInt 2], [VNull]); ([VInt 3], [VInt 1])]) /\
  bind (d_aggr ACount C03_D GNone None) (fun d => Ok (d_rows d)) = Ok [([], [VInt 2])] /\
  bind (d_aggr AMedian C03_D (GExcept ["Id_2"%string]) None) (fun d => Ok (d_rows d))
    = Ok [([VInt 1], [VNum (3 # 2); VNum (15 # 8)]); ([VInt 2], [VNull; VNull]); ([VInt 3], [VNum (4 # 1); VNum (1 # 4)])] /\
  bind (d_aggr AVarSamp C03_D by1 None) (fun d => Ok (d_rows d))
    = Ok [([VInt 1], [VNum (1 # 2); VNum (9 # 32)]); ([VInt 2], [VNull; VNull]); ([VInt 3], [VNull; VNull])] /\
  bind (d_aggr_clause C03_D [("Me_9"%string, IAgg ASum (CCol "Me_1")); ("Me_8"%string, ICount)] by1
          (Some (HBin Gt (HAgg AAvg (CCol "Me_1")) (HLit (VInt 1))))) (fun d => Ok (d_ms d, d_rows d))
    = Ok (["Me_9"%string; "Me_8"%string], [([VInt 1], [VInt 3; VInt 3]); ([VInt 3], [VInt 4; VInt 1])]) /\
  bind (d_aggr_clause (mkD (d_ids C03_D) (d_ms C03_D) []) [("Me_9"%string, IAgg ASum (CCol "Me_1")); ("Me_8"%string, ICount)] GNone None)
       (fun d => Ok (d_rows d)) = Ok [([], [VNull; VNull])] /\
  bind (d_aggr ASum (mkD (d_ids C03_D) (d_ms C03_D) []) GNone None) (fun d => Ok (d_rows d)) = Ok [] /\
  bind (d_aggr_clause C03_D [("Me_9"%string, IAgg AMax (CCol "Id_2")); ("Me_8"%string, IAgg ACount (CCol "Id_2"))] by1
          (Some (HUn Not (HUn IsNull (HAgg ASum (CCol "Me_1")))))) (fun d => Ok (d_rows d))
    = Ok [([VInt 1], [VStr "C"; VInt 3]); ([VInt 3], [VStr "A"; VInt 1])] /\
  d_aggr AMin (mkD (d_ids C03_D) [] [([VInt 1; VStr "A"], [])]) GNone None = Err "1-1-1-8"%string /\
  bind (d_aggr AMax (mkD (d_ids C03_D) [] [([VInt 1; VStr "A"], []); ([VInt 1; VStr "B"], [])]) by1 None) (fun d => Ok (d_rows d))
    = Ok [([VInt 1], [])].
Proof. vm_compute. repeat split. Qed.

(* the hypotheses of the order-independence theorems are satisfiable *)
Example C03_example_hypotheses :
  keys_leibniz (proj_of C03_D (GBy ["Id_1"%string])) (d_rows C03_D) /\ (d_ids C03_D <> [] \/ d_rows C03_D <> []).
Proof.
  split; [|left; discriminate].
  apply keys_leibniz_canon. intros r Hr. simpl in Hr.
  repeat (destruct Hr as [<-|Hr]; [repeat constructor|]). destruct Hr.
Qed.

Print Assumptions C03_one_datapoint_per_group.
Print Assumptions C03_one_datapoint_per_group_clause.
Print Assumptions C03_having_false_or_null_drops_group.
Print Assumptions C03_having_false_or_null_drops_group_clause.
Print Assumptions C03_group_by_covers.
Print Assumptions C03_agg_value.
Print Assumptions C03_count_value.
Print Assumptions C03_clause_value.
Print Assumptions C03_nulls_ignored.
Print Assumptions C03_all_null_group_is_null.
Print Assumptions C03_count_without_complete_datapoint.
Print Assumptions C03_empty_operand_standalone.
Print Assumptions C03_empty_operand_clause_without_grouping.
Print Assumptions C03_sample_variance_of_one_value.
Print Assumptions C03_minmax_without_measures_and_identifiers_rejected.
Print Assumptions C03_agg_vals_perm.
Print Assumptions C03_agg_perm.
Print Assumptions C03_agg_perm_clause.
Print Assumptions C03_keys_leibniz_sufficient.
