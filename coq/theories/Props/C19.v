(* C19 — run() rejects every input that violates its declared structure, accepts every other input, and returns each value as the
   value it denotes.
   Spec: Model/Loader.v `denote` / `valid_repr` = the documented input formats of docs/data_types.rst with real calendar ranges.
   Faithful: `load_run` / `accept_*` transcribed from the loaders (tied to the engine every run, K) over the regex ASTs REGENERATED
   from the engine's pattern strings (Gen/Regex.v, T-regex) and decided by the derivative matcher proved correct below. *)
From Coq Require Import ZArith Ascii String List Bool.
Import ListNotations.
From VTL Require Import Base.Calendar Model.Types Model.Regex Gen.Regex Model.Loader Proofs.RegexP Proofs.LoaderP.
Open Scope Z_scope.

(* ---------------------------------------------------------------- the matcher used for every pattern is correct (all regexes, all strings) *)
Theorem C19_regex_matcher_decides_the_language : forall s r, matches r s = true <-> lang r s.
Proof. exact matches_iff_lang. Qed.

(* ---------------------------------------------------------------- structure: for ALL tables (induction over the rows) *)
(* null identifier / null in a non-nullable column / missing identifier column (file forms, or any form with at least one row) /
   missing non-nullable column (CSV): run() ends in an input error *)
Theorem C19_structure_violations_rejected : forall p st tb, violation p st tb -> exists code, load_run p st tb = TRej code.
Proof. exact structure_violations_rejected. Qed.
(* duplicate identifier values and more than one datapoint without identifiers, judged on the stored rows: input error *)
Theorem C19_duplicates_and_dwi_rejected : forall p st tb va vb,
  file_checks p st tb = None -> stage_insert p st tb = Acc va -> stage_normalize st va = Acc vb ->
  ((ids st = [] /\ (1 < length vb)%nat) \/ (ids st <> [] /\ dup_pair (map (key_of st) vb))) ->
  exists code, load_run p st tb = TRej code.
Proof. exact stored_violations_rejected. Qed.
(* COUNT( * ) <> COUNT(DISTINCT ids) is exactly "two datapoints share their identifier values" *)
Theorem C19_duplicate_check_is_exact : forall keys, has_duplicates keys = true <-> dup_pair keys.
Proof. exact has_duplicates_spec. Qed.
(* a table with none of the violations passes the structural stage (and only such a table does) *)
Theorem C19_structural_stage_exact : forall st vb,
  structural_stage st vb = None <->
  ((ids st = [] -> (length vb <= 1)%nat) /\ (ids st <> [] -> ~ dup_pair (map (key_of st) vb))).
Proof. exact structural_stage_spec. Qed.
Theorem C19_all_required_columns_present_passes_file_checks : forall p st tb,
  (forall c, In c st -> required c = true -> has_col tb (c_name c) = true) -> file_checks p st tb = None.
Proof. exact file_checks_pass. Qed.
(* refuted for the one remaining shape: a DataFrame WITHOUT rows may lack an identifier column *)
Theorem C19_structure_refuted_empty_dataframe :
  let st := [mkComp "Id_1" TInteger true false; mkComp "Me_1" TNumber false true] in
  let tb := mkTable ["Me_1"%string] [] in
  load_run PDfStr st tb = TAcc [] /\ load_run PCsv st tb = TRej E118.
Proof. exact empty_dataframe_missing_identifier_accepted. Qed.

(* ---------------------------------------------------------------- values *)
Definition value_accept_iff_valid_repr (p : path) (t : ty) : Prop :=
  forall s, s <> [] -> ((exists v, accept_run p t (RStr s) = Acc v) <-> valid_repr t s = true).
Definition returns_denoted_value (p : path) (t : ty) : Prop :=
  forall s v, s <> [] -> denote t s = Some v -> accept_run p t (RStr s) = Acc v.

Ltac refute_iff w := let H := fresh in intro H; specialize (H w ltac:(discriminate)); vm_compute in H;
  first [ destruct H as [H _]; specialize (H (ex_intro _ _ eq_refl)); discriminate
        | destruct H as [_ H]; destruct (H eq_refl) as [? X]; discriminate ].

(* Time_Period *)
Theorem C19_period_refuted_week_53_of_52_week_year : ~ value_accept_iff_valid_repr PDfStr TPeriod.
Proof. refute_iff (s_ "2021W53"%string). Qed.
Theorem C19_period_witnesses :
  accept_df_str TPeriod (RStr (s_ "2021W53")) = Acc (SPer 2021 "W" 53) /\ valid_repr TPeriod (s_ "2021W53") = false /\   (* 2021 has 52 weeks *)
  accept_csv TPeriod (RStr (s_ "2021M13")) = Late "2-1-19-7" /\                         (* loaded; fails when the result is formatted *)
  accept_csv TPeriod (RStr (s_ "2021W54")) = Late "2-1-19-7" /\
  accept_csv TPeriod (RStr (s_ "2021D366")) = Late "2-1-19-9" /\
  accept_df_str TPeriod (RStr (s_ "2020M123")) = Acc (SPer 2020 "M" 12) /\              (* LPAD truncates *)
  accept_df_str TPeriod (RStr (s_ "2020M1.4")) = Acc (SPer 2020 "M" 1) /\               (* CAST rounds *)
  accept_df_str TPeriod (RStr (s_ "2020X1")) = Acc (SPer 2020 "D" 1) /\                 (* unknown indicator = day *)
  accept_df_str TPeriod (RStr (s_ "2020-01-15junk")) = Acc (SPer 2020 "D" 15) /\
  accept_df_str TPeriod (RStr (s_ "2020-Q")) = Acc SNull /\                             (* silently NULL *)
  accept_df_str TPeriod (RStr []) = Late RAW_ValueError.                                (* '' in a DataFrame: raw ValueError *)
Proof. vm_compute. repeat split; reflexivity. Qed.
(* partial (finite sweep, bound = tp_years): on EVERY string of a documented shape the acceptor and the documented formats agree
   (same value or both refuse), except week 53 of a 52-week year, which is accepted *)
Theorem C19_period_documented_shapes_partial : forall y t, In y tp_years -> In t tp_tails -> tp_gap y t = false ->
  tp_consistent (y4 y ++ t) = true.
Proof. exact period_documented_shapes_partial. Qed.
Theorem C19_period_week_53_gap : forall y t, In y tp_years -> In t tp_tails -> tp_gap y t = true -> tp_gap_witness (y4 y ++ t) = true.
Proof. exact period_week53_gap. Qed.

(* Date *)
Theorem C19_date_refuted_year_range : ~ value_accept_iff_valid_repr PCsv TDate.
Proof. refute_iff (s_ "1799-12-31"%string). Qed.
Theorem C19_date_witnesses :
  accept_csv TDate (RStr (s_ "1799-12-31")) = Acc (STs (-62092) 0) /\ valid_repr TDate (s_ "1799-12-31") = false /\
  accept_df_str TDate (RStr (s_ "0001-01-01")) = Acc (STs (-719162) 0) /\
  accept_parquet TDate (RStr (s_ "2020-01-15T10:30:00")) = Acc (STs 18276 0) /\
  denote TDate (s_ "2020-01-15T10:30:00") = Some (STs 18276 37800000000).
Proof. vm_compute. repeat split; reflexivity. Qed.
Theorem C19_date_csv_partial : returns_denoted_value PCsv TDate.
Proof. intros s v _ H. unfold denote in H. destruct (spec_date s) as [w|] eqn:E; [|discriminate]. inversion H. exact (date_csv_documented_accepted s w E). Qed.

(* Time *)
Theorem C19_time_refuted_documented_year_form_rejected : ~ value_accept_iff_valid_repr PCsv TTime.
Proof. refute_iff (s_ "2020"%string). Qed.
Theorem C19_time_witnesses :
  valid_repr TTime (s_ "2020") = true /\ accept_csv TTime (RStr (s_ "2020")) = Rej E6 /\
  valid_repr TTime (s_ "2020-06") = true /\ accept_df_str TTime (RStr (s_ "2020-06")) = Rej E6 /\
  valid_repr TTime (s_ "2020-12-31/2020-01-01") = false /\ accept_csv TTime (RStr (s_ "2020-12-31/2020-01-01")) = Acc (SStr (s_ "2020-12-31/2020-01-01")) /\
  valid_repr TTime (s_ "2020-13-01/2020-12-31") = false /\ accept_csv TTime (RStr (s_ "2020-13-01/2020-12-31")) = Acc (SStr (s_ "2020-13-01/2020-12-31")).
Proof. vm_compute. repeat split; reflexivity. Qed.
(* partial: the loader checks the SHAPE of an interval and nothing else *)
Theorem C19_time_shape_only : forall s, nonempty s = true -> upper (trim_sp s) = s ->
  accept_df_str TTime (RStr s) = (if matches re_TIME_INTERVAL s then Acc (SStr s) else Rej E6).
Proof. exact time_interval_accepted_without_calendar_check. Qed.

(* Integer *)
Theorem C19_integer_refuted_dataframe : ~ value_accept_iff_valid_repr PDfStr TInteger.
Proof. refute_iff (s_ "1.5"%string). Qed.
Theorem C19_integer_refuted_csv_value : ~ returns_denoted_value PCsv TInteger.
Proof. intro H. specialize (H (s_ "9007199254740993") (SInt 9007199254740993) ltac:(discriminate) eq_refl). vm_compute in H. discriminate. Qed.
Theorem C19_integer_dataframe_partial : forall s m e,
  nonempty s = true -> strip_py s = strip_c s -> lex_radix (strip_c s) = None -> lex_dec (strip_c s) = Some (m, e) ->
  dec_integral m e = true -> in_int64 (dec_exact_Z m e) = true ->
  accept_df_str TInteger (RStr s) = Acc (SInt (dec_exact_Z m e)) /\ denote TInteger s = Some (SInt (dec_exact_Z m e)).
Proof. exact integer_dataframe_partial. Qed.
Theorem C19_integer_csv_partial : forall s m e,
  nonempty s = true -> strip_py s = strip_c s -> lex_dec (strip_c s) = Some (m, e) ->
  dec_integral m e = true -> Z.abs (dec_exact_Z m e) < 2 ^ 53 ->
  accept_csv TInteger (RStr s) = Acc (SInt (dec_exact_Z m e)) /\ denote TInteger s = Some (SInt (dec_exact_Z m e)).
Proof. exact integer_csv_partial. Qed.

(* Number: holds up to the set of blanks stripped *)
Theorem C19_number_partial : forall s, nonempty s = true -> strip_py s = strip_c s ->
  match denote TNumber s with
  | Some v => accept_df_str TNumber (RStr s) = Acc v /\ accept_csv TNumber (RStr s) = Acc v /\ accept_parquet TNumber (RStr s) = Acc v
  | None => accept_df_str TNumber (RStr s) = Rej E6 /\ accept_csv TNumber (RStr s) = Rej E6 /\ accept_parquet TNumber (RStr s) = Rej E6
  end.
Proof. exact number_partial. Qed.

(* String *)
Theorem C19_string_dataframe_exact : forall s,
  accept_df_str TString (RStr s) = Acc (SStr s) /\ accept_parquet TString (RStr s) = Acc (SStr s) /\ denote TString s = Some (SStr s).
Proof. exact string_dataframe_exact. Qed.
Theorem C19_string_refuted_csv : ~ returns_denoted_value PCsv TString.
Proof. intro H. specialize (H (s_ "a""b") (SStr (s_ "a""b")) ltac:(discriminate) eq_refl). vm_compute in H. discriminate. Qed.
Theorem C19_string_csv_partial : forall s, nonempty s = true -> mem_char c_quote s = false -> accept_csv TString (RStr s) = Acc (SStr s).
Proof. exact string_csv_exact. Qed.

(* Boolean: documented spellings are accepted with their value (the converse fails for DuckDB's extra spellings t/f/y/n/yes/no, on
   which the documentation is silent) *)
Theorem C19_boolean_documented_accepted : forall s b, spec_boolean s = Some b ->
  accept_df_str TBoolean (RStr s) = Acc (SBool b) /\ accept_parquet TBoolean (RStr s) = Acc (SBool b) /\ accept_csv TBoolean (RStr s) = Acc (SBool b).
Proof. exact boolean_documented_accepted. Qed.

(* Duration: exact on strings without lowercase letters / outer blanks (the pattern is applied to UPPER(TRIM(x)), the value is stored as is) *)
Theorem C19_duration_partial : forall s, nonempty s = true -> upper (trim_sp s) = s ->
  accept_df_str TDuration (RStr s) = (if spec_duration s then Acc (SStr s) else Rej E6) /\
  accept_csv TDuration (RStr s) = (if spec_duration s then Acc (SStr s) else Rej E6) /\
  accept_parquet TDuration (RStr s) = (if spec_duration s then Acc (SStr s) else Rej E6).
Proof. exact duration_partial. Qed.
Theorem C19_duration_refuted_lowercase : ~ value_accept_iff_valid_repr PDfStr TDuration.
Proof. refute_iff (s_ "d"%string). Qed.

(* the hypotheses are satisfiable *)
Example C19_hypotheses_satisfiable :
  (exists p st tb, violation p st tb) /\ existsb (Z.eqb 2004) tp_years = true /\ existsb (str_eqb (s_ "-W53")) tp_tails = true /\ tp_gap 2004 (s_ "-W53") = false /\ tp_gap 1997 (s_ "W53") = true /\
  spec_boolean (s_ "TRUE") = Some true /\ (nonempty (s_ "D") = true /\ upper (trim_sp (s_ "D")) = s_ "D") /\
  denote TDate (s_ "2020-02-29") = Some (STs 18321 0) /\ lex_dec (strip_c (s_ "1e3")) = Some (1, 3).
Proof.
  split.
  - exists PCsv, [mkComp "Id_1" TInteger true false], (mkTable ["Id_1"%string] [[RNull]]).
    apply V_null_required. exists [RNull], (mkComp "Id_1" TInteger true false). simpl. auto.
  - vm_compute. repeat split; try reflexivity; auto 30.
Qed.

Print Assumptions C19_regex_matcher_decides_the_language.
Print Assumptions C19_structure_violations_rejected.
Print Assumptions C19_duplicates_and_dwi_rejected.
Print Assumptions C19_structural_stage_exact.
Print Assumptions C19_period_documented_shapes_partial.
Print Assumptions C19_period_refuted_week_53_of_52_week_year.
Print Assumptions C19_date_csv_partial.
Print Assumptions C19_integer_dataframe_partial.
Print Assumptions C19_duration_partial.
Print Assumptions C19_boolean_documented_accepted.
