(* C24 — prettify preserves meaning and is idempotent: the literal and identifier layer.
   Model: Model/Codec.v (c) render_literal = ASTString.visit_Constant/_handle_literal, parse_literal = the grammar's `constant`
   as built by Terminals.visitConstant; a float is the finite decimal its repr shows (CPython: scientific iff exponent < -4 or
   >= 16 — py_repr is compared with repr() on every generated literal by the harness).  (d) _format_reserved_word (plain = first IDENTIFIER alternative; names with ':' are outside the model).
   Partial: the whole renderer ASTString against the whole grammar is checked by correspondence only (harness). *)
From Coq Require Import String Ascii List ZArith.
Import ListNotations.
From VTL Require Import Model.Codec Proofs.CodecP.

Theorem C24_literal_roundtrip_int : forall z, parse_literal (render_literal (LInt z)) = Some (LInt z).
Proof. exact literal_roundtrip_int. Qed.
Print Assumptions C24_literal_roundtrip_int.

Theorem C24_literal_roundtrip_bool : forall b, parse_literal (render_literal (LBool b)) = Some (LBool b).
Proof. exact literal_roundtrip_bool. Qed.
Print Assumptions C24_literal_roundtrip_bool.

Theorem C24_literal_roundtrip_null : parse_literal (render_literal LNull) = Some LNull.
Proof. exact literal_roundtrip_null. Qed.
Print Assumptions C24_literal_roundtrip_null.

(* all strings that a VTL script can contain (STRING_CONSTANT has no way to hold a double quote) *)
Theorem C24_literal_roundtrip_string : forall s, has_dq s = false -> parse_literal (render_literal (LStr s)) = Some (LStr s).
Proof. exact literal_roundtrip_string. Qed.
Print Assumptions C24_literal_roundtrip_string.

(* numbers, FULL statement for the renderer as coded now (/repo 70d45d5: repr, Decimal 'f' when it has an exponent, '.0' when
   it has no point): every canonical decimal = every finite float through the digits of its repr *)
Theorem C24_literal_roundtrip_number : forall d, dec_canon d = true ->
  parse_literal (render_literal (LNum d)) = Some (LNum d).
Proof. exact literal_roundtrip_number. Qed.
Print Assumptions C24_literal_roundtrip_number.

(* the coded float renderer is the specified one *)
Theorem C24_render_float_impl_is_spec : forall d, dec_canon d = true -> render_float_impl d = render_float_spec d.
Proof. exact render_float_impl_is_spec. Qed.
Print Assumptions C24_render_float_impl_is_spec.

(* every literal *)
Theorem C24_literal_roundtrip : forall l, lit_ok l -> parse_literal (render_literal l) = Some l.
Proof. exact literal_roundtrip. Qed.
Print Assumptions C24_literal_roundtrip.

(* BEFORE THE FIX the statement was false: witnesses 0.0000001, 10000000000000000000000.0 (IndexError), 0.00001234, 12345.678,
   1234567.5, 1.0, 0.00000015 (the harness checks that they now round-trip on the engine) … *)
Theorem C24_literal_roundtrip_number_refuted_before_fix : forall bias,
  Forall (fun d => dec_canon d = true /\
                   option_map parse_literal (render_float_before_fix bias d) <> Some (Some (LNum d))) number_witnesses.
Proof. exact literal_roundtrip_number_refuted_before_fix. Qed.
Print Assumptions C24_literal_roundtrip_number_refuted_before_fix.

(* … and held only on this closed-form domain *)
Theorem C24_literal_roundtrip_number_partial_before_fix : forall bias d, float_roundtrip_domain d = true ->
  option_map parse_literal (render_float_before_fix bias d) = Some (Some (LNum d)).
Proof. exact literal_roundtrip_number_domain_before_fix. Qed.
Print Assumptions C24_literal_roundtrip_number_partial_before_fix.

(* identifiers: the specified quoting rule round-trips every name … *)
Theorem C24_quote_reserved_roundtrip : forall reserved n, has_sq n = false ->
  parse_ident reserved (render_ident reserved n) = Some n.
Proof. exact quote_reserved_roundtrip. Qed.
Print Assumptions C24_quote_reserved_roundtrip.

(* … _format_reserved_word as coded now (/repo d900c32) is that rule on every name a script can hold … *)
Theorem C24_render_ident_impl_is_spec : forall reserved n, has_sq n = false ->
  render_ident_impl reserved n = render_ident reserved n.
Proof. exact render_ident_impl_is_spec. Qed.
Print Assumptions C24_render_ident_impl_is_spec.

(* … so the full statement holds for the code *)
Theorem C24_quote_reserved_roundtrip_impl : forall reserved n, has_sq n = false ->
  parse_ident reserved (render_ident_impl reserved n) = Some n.
Proof. exact quote_reserved_roundtrip_impl. Qed.
Print Assumptions C24_quote_reserved_roundtrip_impl.

(* BEFORE THE FIX: reserved words and plain identifiers only; every other name ('a b', 'true') was lost *)
Theorem C24_quote_reserved_roundtrip_partial_before_fix : forall reserved n, has_sq n = false ->
  mem_bytes n reserved = true \/ (is_plain_ident n = true /\ is_bool_kw n = false) ->
  parse_ident reserved (render_ident_before_fix reserved n) = Some n.
Proof. exact quote_reserved_roundtrip_partial_before_fix. Qed.
Print Assumptions C24_quote_reserved_roundtrip_partial_before_fix.

Theorem C24_quote_reserved_roundtrip_refuted_before_fix : forall reserved n,
  has_sq n = false -> mem_bytes n reserved = false -> is_plain_ident n = false \/ is_bool_kw n = true ->
  parse_ident reserved (render_ident_before_fix reserved n) = None.
Proof. exact quote_reserved_roundtrip_refuted_before_fix. Qed.
Print Assumptions C24_quote_reserved_roundtrip_refuted_before_fix.

(* hypotheses are satisfiable *)
Example C24_example_canon :
  dec_canon (Dn false "2" "25") = true /\ dec_canon (Dn true "" "0000001") = true /\ dec_canon (Dn false "1" "") = true
  /\ dec_canon (Dn true "" "") = true /\ dec_canon (Dn false "10000000000000000000000" "") = true
  /\ render_float_impl (Dn false "" "0000001") = B "0.0000001" /\ render_float_impl (Dn false "1" "") = B "1.0".
Proof. vm_compute. repeat split. Qed.
Example C24_example_ident :
  has_sq (B "calc") = false /\ mem_bytes (B "calc") [B "calc"; B "filter"] = true /\ is_plain_ident (B "Me_1") = true
  /\ is_plain_ident (B "a b") = false
  /\ render_ident_impl [B "calc"] (B "a b") = B "'a b'" /\ render_ident_impl [B "calc"] (B "true") = B "'true'"
  /\ render_ident_impl [B "calc"] (B "'x y'") = B "'x y'" /\ render_ident_before_fix [B "calc"] (B "a b") = B "a b".
Proof. vm_compute. repeat split. Qed.
