(* C24 — prettify preserves meaning and is idempotent: the literal and identifier layer.
   Model: Model/Codec.v (c) render_literal = ASTString.visit_Constant/_handle_literal, parse_literal = the grammar's `constant`
   as built by Terminals.visitConstant; floats are finite decimals (<= 15 significant digits, for which CPython's repr is the
   decimal itself; scientific iff exponent < -4 or >= 16 — X-checked on every generated literal by the harness);
   `bias` is the oracle deciding exact decimal ties of %f/%g (sign of binary value - decimal).  (d) _format_reserved_word.
   Partial: the whole renderer ASTString against the whole grammar is checked by correspondence only (harness). *)
From Coq Require Import String Ascii List ZArith.
Import ListNotations.
From VTL Require Import Model.Codec Proofs.CodecP.

Theorem C24_literal_roundtrip_int : forall bias z,
  option_map parse_literal (render_literal bias (LInt z)) = Some (Some (LInt z)).
Proof. exact literal_roundtrip_int. Qed.
Print Assumptions C24_literal_roundtrip_int.

Theorem C24_literal_roundtrip_bool : forall bias b,
  option_map parse_literal (render_literal bias (LBool b)) = Some (Some (LBool b)).
Proof. exact literal_roundtrip_bool. Qed.
Print Assumptions C24_literal_roundtrip_bool.

Theorem C24_literal_roundtrip_null : forall bias,
  option_map parse_literal (render_literal bias LNull) = Some (Some LNull).
Proof. exact literal_roundtrip_null. Qed.
Print Assumptions C24_literal_roundtrip_null.

(* all strings that a VTL script can contain (STRING_CONSTANT has no way to hold a double quote) *)
Theorem C24_literal_roundtrip_string : forall bias s, has_dq s = false ->
  option_map parse_literal (render_literal bias (LStr s)) = Some (Some (LStr s)).
Proof. exact literal_roundtrip_string. Qed.
Print Assumptions C24_literal_roundtrip_string.

(* numbers: the full statement is FALSE for the renderer as coded.  Witnesses (replayed on the engine by the harness):
   0.0000001, 10000000000000000000000.0 (IndexError), 0.00001234, 12345.678, 1234567.5, 1.0, 0.00000015 *)
Theorem C24_literal_roundtrip_number_refuted : forall bias,
  Forall (fun d => dec_canon d = true /\
                   option_map parse_literal (render_literal bias (LNum d)) <> Some (Some (LNum d))) number_witnesses.
Proof. exact literal_roundtrip_number_refuted. Qed.
Print Assumptions C24_literal_roundtrip_number_refuted.

Theorem C24_render_float_raises : forall bias,
  render_literal bias (LNum (Dn false "" "0000001")) = None
  /\ render_literal bias (LNum (Dn false "10000000000000000000000" "")) = None.
Proof. exact render_float_raises. Qed.
Print Assumptions C24_render_float_raises.

(* … and holds on the closed-form domain: fixed-notation repr with (1..4 decimals and <= 6 significant digits) or (5 or 6
   decimals), or 0.0000ab.  (The harness compares this domain with the computed round trip on every generated literal:
   outside it no round trip was ever observed, i.e. the domain is exact on everything sampled.) *)
Theorem C24_literal_roundtrip_number_partial : forall bias d, float_roundtrip_domain d = true ->
  option_map parse_literal (render_literal bias (LNum d)) = Some (Some (LNum d)).
Proof. exact literal_roundtrip_number_domain. Qed.
Print Assumptions C24_literal_roundtrip_number_partial.

(* the specified renderer (print the decimal itself) has no such restriction *)
Theorem C24_literal_roundtrip_number_spec : forall d, dec_canon d = true -> dfrac d <> [] ->
  option_map parse_literal (render_literal_spec (LNum d)) = Some (Some (LNum d)).
Proof. exact literal_roundtrip_number_spec. Qed.
Print Assumptions C24_literal_roundtrip_number_spec.

(* identifiers: the specified quoting rule round-trips every name … *)
Theorem C24_quote_reserved_roundtrip : forall reserved n, has_sq n = false ->
  parse_ident reserved (render_ident reserved n) = Some n.
Proof. exact quote_reserved_roundtrip. Qed.
Print Assumptions C24_quote_reserved_roundtrip.

(* … _format_reserved_word as coded does so for reserved words and plain identifiers … *)
Theorem C24_quote_reserved_roundtrip_impl_partial : forall reserved n, has_sq n = false ->
  mem_bytes n reserved = true \/ is_plain_ident n = true ->
  parse_ident reserved (render_ident_impl reserved n) = Some n.
Proof. exact quote_reserved_roundtrip_impl_partial. Qed.
Print Assumptions C24_quote_reserved_roundtrip_impl_partial.

(* … and loses every other name (a quoted name with a blank, replayed on the engine) *)
Theorem C24_quote_reserved_roundtrip_impl_refuted : forall reserved n,
  has_sq n = false -> mem_bytes n reserved = false -> is_plain_ident n = false ->
  parse_ident reserved (render_ident_impl reserved n) = None.
Proof. exact quote_reserved_roundtrip_impl_refuted. Qed.
Print Assumptions C24_quote_reserved_roundtrip_impl_refuted.

(* hypotheses are satisfiable *)
Example C24_example_domain :
  float_roundtrip_domain (Dn false "2" "25") = true /\ float_roundtrip_domain (Dn true "" "000015") = true
  /\ float_roundtrip_domain (Dn false "1234" "123456") = true /\ float_roundtrip_domain (Dn false "12345" "678") = false.
Proof. vm_compute. repeat split. Qed.
Example C24_example_ident :
  has_sq (B "calc") = false /\ mem_bytes (B "calc") [B "calc"; B "filter"] = true /\ is_plain_ident (B "Me_1") = true
  /\ is_plain_ident (B "a b") = false.
Proof. vm_compute. repeat split. Qed.
