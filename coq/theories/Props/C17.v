(* C17 — concurrent API calls behave like sequential ones.
   Model/Interleave.v: each call is a program of Write/Read/Local/Acq/Rel steps over process-global state; any number of threads,
   every schedule.  The general theorem is an induction over the schedule with a 8-part invariant (Proofs/InterleaveP.v).
   The skeletons are the recorded global-access traces of the engine's API calls (yield tags of vtlengine._verif), checked
   against the recognisers of the model on every run by harness/props/c17.py. *)
From Coq Require Import List Arith ZArith Bool.
Import ListNotations.
From VTL Require Import Model.Interleave Proofs.InterleaveP.

(* ---- the general theorem: unbounded threads, unbounded steps, EVERY interleaving, any initial store *)
Theorem C17_confined_serializable :
  forall (disc : gvar -> prot) (progs : tid -> prog),
  (forall i, confined disc W_all i (progs i) = true) ->
  forall (st0 : gvar -> val) (sched : list tid) (i : tid),
  t_todo (c_thr (run sched (init st0 progs)) i) = [] ->
  t_obs (c_thr (run sched (init st0 progs)) i) = solo_result zero_store (progs i).
Proof. exact confined_serializable. Qed.

(* the same relative to a set W of watched globals: only reads of W are constrained, only observations of W are compared
   (values written to W may depend on observations of W only) *)
Theorem C17_confined_serializable_watched :
  forall (disc : gvar -> prot) (W : gvar -> bool) (progs : tid -> prog),
  (forall i, Forall (write_ok W) (progs i)) ->
  (forall i, confined disc W i (progs i) = true) ->
  forall (st0 : gvar -> val) (sched : list tid) (i : tid),
  t_todo (c_thr (run sched (init st0 progs)) i) = [] ->
  wobs W (t_obs (c_thr (run sched (init st0 progs)) i)) = wobs W (solo_result zero_store (progs i)).
Proof. exact confined_serializable_W. Qed.

(* before completion too: at every point of every interleaving a confined call has seen what it sees alone after the same steps *)
Theorem C17_confined_prefix :
  forall disc W progs st0, (forall i, Forall (write_ok W) (progs i)) -> (forall i, confined_res disc W i (progs i) = true) ->
  forall sched i, let c := run sched (init st0 progs) in
  wobs W (t_obs (c_thr c i)) = wobs W (v_obs (view_of st0 (t_done (c_thr c i)))) /\ t_done (c_thr c i) ++ t_todo (c_thr c i) = progs i.
Proof. intros disc W progs st0 Hw H. exact (confined_prefix disc W progs st0 Hw H). Qed.

(* `solo_result` is what the call observes when every other thread is idle, whatever earlier calls left in the globals *)
Theorem C17_solo_is_alone :
  forall disc i p, confined disc W_all i p = true ->
  forall st0 sched, let progs := fun j => if Nat.eqb j i then p else [] in
  t_todo (c_thr (run sched (init st0 progs)) i) = [] ->
  t_obs (c_thr (run sched (init st0 progs)) i) = solo_result zero_store p.
Proof. exact solo_is_alone. Qed.

(* ---- FAITHFUL (current code: the viral-propagation registry and Exceptions.dataset_output are ContextVars, the VirtualCounter
        counters a threading.local).  For ANY number of concurrent calls whose access traces never read their registry /
        output-dataset cell before writing it (every recorded trace: checked on each run), of ANY length, under EVERY
        interleaving: each completed call read — at every registry access, every error construction and every counter access —
        exactly what it reads alone from the same initial state.  (W_reg = the parse state and all per-thread cells; the only
        global left process-wide, TimePeriodConfig, is written but never read by the four API calls: checked on each run.
        A counter may be read before the call resets it: it then holds what the SAME thread's earlier calls left — st0.) *)
Theorem C17_cells_serializable_impl :
  forall (trs : tid -> list tag) (toks : tid -> val), (forall i, cells_wf false false (trs i) = true) ->
  forall st0 sched i, let progs := fun j => prog_of_trace (gmap_impl j) (toks j) (trs j) in
  t_todo (c_thr (run sched (init st0 progs)) i) = [] ->
  wobs W_reg (t_obs (c_thr (run sched (init st0 progs)) i)) = wobs W_reg (solo_result st0 (progs i)).
Proof.
  intros trs toks Hwf st0 sched i progs. apply (confined_serializable_st disc_impl W_reg progs st0).
  - intros j. apply impl_trace_writes.
  - intros j. apply impl_trace_confined. apply Hwf.
Qed.

(* the canonical run() shape satisfies that hypothesis, whatever its size *)
Lemma rep_cells_wf n l : (forall r, cells_wf true true r = true -> cells_wf true true (l ++ r) = true) ->
  forall r, cells_wf true true r = true -> cells_wf true true (rep n l ++ r) = true.
Proof. intros Happ. induction n; intros r Hr; simpl; [exact Hr|]. rewrite <- app_assoc. apply Happ. apply IHn. exact Hr. Qed.

Theorem C17_run_shape_cells_wf : forall n k, cells_wf false false (run_tags n k) = true.
Proof.
  intros n k. unfold run_tags. cbn [app cells_wf].
  destruct n as [|n].
  - cbn [rep app cells_wf]. induction k; simpl; [reflexivity | exact IHk].
  - cbn [rep]. unfold stmt_tags at 1. cbn [app cells_wf].
    apply rep_cells_wf; [intros r Hr; exact Hr|].
    cbn [app cells_wf]. induction k; simpl; [reflexivity | exact IHk].
Qed.

Definition race_found (g : gvar) (tokb : val) (pa pb : prog) : bool :=
  match race_schedule g 0 1 pa pb with
  | None => false
  | Some s => finished s (two pa pb) 0 && finished s (two pa pb) 1 &&
              negb (obs_eqb (obs_of s (two pa pb) 0) (solo_result zero_store pa)) &&
              existsb (fun o => Nat.eqb (fst o) g && Z.eqb (snd o) tokb) (obs_of s (two pa pb) 0)
  end.

Lemma race_found_sound g tokb pa pb : race_found g tokb pa pb = true ->
  exists sched, finished sched (two pa pb) 0 = true /\ finished sched (two pa pb) 1 = true /\
                obs_of sched (two pa pb) 0 <> solo_result zero_store pa /\ In (g, tokb) (obs_of sched (two pa pb) 0).
Proof.
  unfold race_found. destruct (race_schedule g 0 1 pa pb) as [s|]; [|discriminate].
  intros H. apply andb_true_iff in H. destruct H as [H H4]. apply andb_true_iff in H. destruct H as [H H3].
  apply andb_true_iff in H. destruct H as [H1 H2].
  exists s. repeat split; auto.
  - intros E. rewrite E in H3. apply negb_true_iff in H3.
    assert (R : forall o, obs_eqb o o = true).
    { induction o as [|[g0 v0] r IH]; simpl; [reflexivity|]. rewrite Nat.eqb_refl, Z.eqb_refl, IH. reflexivity. }
    rewrite R in H3. discriminate.
  - apply existsb_exists in H4. destruct H4 as [[g0 v0] [Hin Hb]]. simpl in Hb.
    apply andb_true_iff in Hb. destruct Hb as [Hg Hv]. apply Nat.eqb_eq in Hg. apply Z.eqb_eq in Hv. subst. exact Hin.
Qed.

(* the witness search finds NO registry race in the current skeletons (consistent with the theorem above) *)
Definition pA : prog := prog_of_trace (gmap_impl 0) 1%Z (run_tags 1 1).
Definition pB : prog := prog_of_trace (gmap_impl 1) 2%Z (run_tags 1 1).
Example C17_no_cell_witness_impl :
  race_schedule (gmap_impl 0 GRegistry) 0 1 pA pB = None /\ race_schedule GRegistry 0 1 pA pB = None /\
  race_schedule (gmap_impl 0 GDsOut) 0 1 pA pB = None /\ race_schedule GDsOut 0 1 pA pB = None /\
  race_schedule (gmap_impl 0 GVcDs) 0 1 pA pB = None /\ race_schedule GVcDs 0 1 pA pB = None.
Proof. vm_compute. repeat split; reflexivity. Qed.

(* ---- REGRESSION WITNESS, behaviour BEFORE the fix (one process-wide registry): an interleaving in which both calls complete
        and call A transpiles under B's registry (reads token 2) *)
Definition pA_before_fix : prog := prog_of_trace gmap_before_fix 1%Z (run_tags 1 1).
Definition pB_before_fix : prog := prog_of_trace gmap_before_fix 2%Z (run_tags 1 1).
Theorem C17_registry_race_before_fix_refuted :
  exists sched, finished sched (two pA_before_fix pB_before_fix) 0 = true /\ finished sched (two pA_before_fix pB_before_fix) 1 = true /\
                obs_of sched (two pA_before_fix pB_before_fix) 0 <> solo_result zero_store pA_before_fix /\
                In (GRegistry, 2%Z) (obs_of sched (two pA_before_fix pB_before_fix) 0).
Proof. apply race_found_sound. vm_compute. reflexivity. Qed.

Definition shapes3 : list (nat * nat) := list_prod [1; 2; 3] [1; 2; 3].
Theorem C17_registry_race_all_shapes_le3_before_fix :
  forall sa sb, In sa shapes3 -> In sb shapes3 ->
  race_found GRegistry 2%Z (prog_of_trace gmap_before_fix 1%Z (run_tags (fst sa) (snd sa)))
                           (prog_of_trace gmap_before_fix 2%Z (run_tags (fst sb) (snd sb))) = true.
Proof.
  intros sa sb Ha Hb.
  assert (H : forallb (fun sa => forallb (fun sb =>
            race_found GRegistry 2%Z (prog_of_trace gmap_before_fix 1%Z (run_tags (fst sa) (snd sa)))
                                     (prog_of_trace gmap_before_fix 2%Z (run_tags (fst sb) (snd sb)))) shapes3) shapes3 = true)
    by (vm_compute; reflexivity).
  rewrite forallb_forall in H. specialize (H sa Ha). rewrite forallb_forall in H. exact (H sb Hb).
Qed.

(* ---- REGRESSION WITNESS, behaviour BEFORE the fix (one process-wide Exceptions.dataset_output): a failing semantic_analysis
        (raises while statement 1 is analysed) reads the other call's output-dataset name *)
Definition pSemErr_before_fix : prog := prog_of_trace gmap_before_fix 1%Z [TParse; TRegSet; TDsOutSet; TVcDs; TRaise; TDsOutClear].
Theorem C17_dataset_output_race_before_fix_refuted :
  exists sched, finished sched (two pSemErr_before_fix pB_before_fix) 0 = true /\ finished sched (two pSemErr_before_fix pB_before_fix) 1 = true /\
                obs_of sched (two pSemErr_before_fix pB_before_fix) 0 <> solo_result zero_store pSemErr_before_fix /\
                In (GDsOut, 2%Z) (obs_of sched (two pSemErr_before_fix pB_before_fix) 0).
Proof. apply race_found_sound. vm_compute. reflexivity. Qed.

(* ---- REGRESSION WITNESS, behaviour BEFORE the fix (process-wide VirtualCounter, reset only AFTER each statement): B advances
        the counter, A then runs from start to end and its first intermediate name uses 1 instead of 0 *)
Definition residue_schedule (g : gvar) (pa pb : prog) : option (list tid) :=
  match first_write g 0 pb with
  | Some j => Some (repeat 1 (S j) ++ repeat 0 (length pa) ++ repeat 1 (length pb - S j))
  | None => None
  end.
Theorem C17_virtual_counter_race_before_fix_refuted :
  exists sched, finished sched (two pSemErr_before_fix pB_before_fix) 0 = true /\ finished sched (two pSemErr_before_fix pB_before_fix) 1 = true /\
                In (GVcDs, 0%Z) (solo_result zero_store pSemErr_before_fix) /\ In (GVcDs, 1%Z) (obs_of sched (two pSemErr_before_fix pB_before_fix) 0) /\
                ~ In (GVcDs, 0%Z) (obs_of sched (two pSemErr_before_fix pB_before_fix) 0).
Proof.
  destruct (residue_schedule GVcDs pSemErr_before_fix pB_before_fix) as [s|] eqn:E; [|vm_compute in E; discriminate].
  exists s. vm_compute in E. inversion E; subst s. vm_compute.
  repeat split; auto 10.
  intros H. repeat (destruct H as [H|H]; [discriminate|]). exact H.
Qed.

(* BEFORE the fixes no protection discipline (no assignment of locks / owners to the globals) made the skeletons confined *)
Theorem C17_run_skeleton_not_confinable_before_fix :
  forall disc, ~ (confined disc W_all 0 pSemErr_before_fix = true /\ confined disc W_all 1 pB_before_fix = true).
Proof.
  intros disc [Ha Hb].
  destruct C17_dataset_output_race_before_fix_refuted as [sched [F0 [_ [Hne _]]]].
  apply Hne. unfold obs_of.
  apply (confined_serializable disc (two pSemErr_before_fix pB_before_fix)).
  - intros i. destruct i as [|[|i]]; simpl; [exact Ha | exact Hb | reflexivity].
  - unfold finished in F0. destruct (t_todo (c_thr (run sched (init zero_store (two pSemErr_before_fix pB_before_fix))) 0)); [reflexivity | discriminate].
Qed.

(* ---- partial, FAITHFUL: the parse-only calls (create_ast, prettify) are serializable under every interleaving, in any number,
        with respect to ALL globals: parser_lock confines the parse state *)
Theorem C17_parse_calls_serializable_partial :
  forall (toks : tid -> val) st0 sched i,
  let progs := fun j => prog_of_trace (gmap_impl j) (toks j) parse_tags in
  t_todo (c_thr (run sched (init st0 progs)) i) = [] ->
  t_obs (c_thr (run sched (init st0 progs)) i) = solo_result zero_store (progs i).
Proof.
  intros toks st0 sched i progs. apply (confined_serializable disc_impl progs).
  intros j. apply parse_confined.
Qed.

(* ---- SPEC (every global per thread, each call starting from its own
        fresh registry / reset counters): ANY mix of parse-only calls and run()/semantic_analysis calls of ANY shape, in ANY
        number, is serializable under every interleaving with respect to ALL globals *)
Definition spec_prog (kind : bool) (i : tid) (tok : val) (n k : nat) : prog :=
  if kind then prog_of_trace (gmap_spec i) tok (run_tags_spec n k) else prog_of_trace (gmap_spec i) tok parse_tags.

Theorem C17_spec_calls_serializable :
  forall (kind : tid -> bool) (toks : tid -> val) (n k : tid -> nat) st0 sched i,
  let progs := fun j => spec_prog (kind j) j (toks j) (n j) (k j) in
  t_todo (c_thr (run sched (init st0 progs)) i) = [] ->
  t_obs (c_thr (run sched (init st0 progs)) i) = solo_result zero_store (progs i).
Proof.
  intros kind toks n k st0 sched i progs. apply (confined_serializable disc_spec progs).
  intros j. unfold progs, spec_prog. destruct (kind j); [apply spec_run_confined | reflexivity].
Qed.

(* non-vacuity: the spec skeletons do complete under a schedule, and their solo results contain observations *)
Example C17_nonvacuous :
  let progs := fun j => match j with 0 | 1 => spec_prog true j (Z.of_nat j + 1)%Z 1 1 | _ => [] end in
  let sched := flat_map (fun _ => [0; 1]) (seq 0 40) in
  finished sched progs 0 = true /\ finished sched progs 1 = true /\
  Nat.ltb 2 (length (obs_of sched progs 0)) = true /\ confined disc_spec W_all 0 (progs 0) = true /\
  confined disc_impl W_all 0 pA = false /\ confined_res disc_impl W_reg 0 pA = true.
Proof. vm_compute. repeat split. Qed.

Print Assumptions C17_confined_serializable.
Print Assumptions C17_confined_serializable_watched.
Print Assumptions C17_confined_prefix.
Print Assumptions C17_solo_is_alone.
Print Assumptions C17_cells_serializable_impl.
Print Assumptions C17_run_shape_cells_wf.
Print Assumptions C17_registry_race_before_fix_refuted.
Print Assumptions C17_registry_race_all_shapes_le3_before_fix.
Print Assumptions C17_dataset_output_race_before_fix_refuted.
Print Assumptions C17_virtual_counter_race_before_fix_refuted.
Print Assumptions C17_run_skeleton_not_confinable_before_fix.
Print Assumptions C17_parse_calls_serializable_partial.
Print Assumptions C17_spec_calls_serializable.
