(* C17 — concurrent API calls behave like sequential ones.
   Model/Interleave.v: each call is a program of Write/Read/Local/Acq/Rel steps over process-global state; any number of threads,
   every schedule.  The general theorem is an induction over the schedule with a 7-part invariant (Proofs/InterleaveP.v).
   The skeletons are the recorded global-access traces of the engine's API calls (yield tags of vtlengine._verif), checked
   against the recognisers of the model on every run by harness/props/c17.py. *)
From Coq Require Import List Arith ZArith Bool.
Import ListNotations.
From VTL Require Import Model.Interleave Proofs.InterleaveP.

(* ---- the general theorem: unbounded threads, unbounded steps, EVERY interleaving, any initial store *)
Theorem C17_confined_serializable :
  forall (disc : gvar -> prot) (progs : tid -> prog),
  (forall i, confined disc i (progs i) = true) ->
  forall (st0 : gvar -> val) (sched : list tid) (i : tid),
  t_todo (c_thr (run sched (init st0 progs)) i) = [] ->
  t_obs (c_thr (run sched (init st0 progs)) i) = solo_result zero_store (progs i).
Proof. exact confined_serializable. Qed.

(* before completion too: at every point of every interleaving a confined call has seen what it sees alone after the same steps *)
Theorem C17_confined_prefix :
  forall disc progs st0, (forall i, confined disc i (progs i) = true) ->
  forall sched i, let c := run sched (init st0 progs) in
  t_obs (c_thr c i) = v_obs (view_of st0 (t_done (c_thr c i))) /\ t_done (c_thr c i) ++ t_todo (c_thr c i) = progs i.
Proof. intros disc progs st0 H. exact (confined_prefix disc progs st0 H). Qed.

(* `solo_result` is what the call observes when every other thread is idle, whatever earlier calls left in the globals *)
Theorem C17_solo_is_alone :
  forall disc i p, confined disc i p = true ->
  forall st0 sched, let progs := fun j => if Nat.eqb j i then p else [] in
  t_todo (c_thr (run sched (init st0 progs)) i) = [] ->
  t_obs (c_thr (run sched (init st0 progs)) i) = solo_result zero_store p.
Proof. exact solo_is_alone. Qed.

(* ---- FAITHFUL skeleton of two run() calls (tokens 1 and 2; one statement, one transpile-time registry read) *)
Definition pA : prog := prog_of_trace gmap_impl 1%Z (run_tags 1 1).
Definition pB : prog := prog_of_trace gmap_impl 2%Z (run_tags 1 1).

Definition race_found (g : gvar) (tokb : val) (pa pb : prog) : bool :=
  match race_schedule g 0 1 pa pb with
  | None => false
  | Some s => finished s (two pa pb) 0 && finished s (two pa pb) 1 &&
              negb (obs_eqb (obs_of s (two pa pb) 0) (solo_result zero_store pa)) &&
              existsb (fun o => Nat.eqb (fst o) g && Z.eqb (snd o) tokb) (obs_of s (two pa pb) 0)
  end.

Lemma race_found_sound g tokb pa pb : race_found g tokb pa pb = true ->
  exists sched, finished sched (two pa pb) 0 = true /\ finished sched (two pa pb) 1 = true /\
                obs_of sched (two pa pb) 0 <> solo_result zero_store pa /\ In (g, tokb) (obs_of sched (two pa pb) 0).
Proof.
  unfold race_found. destruct (race_schedule g 0 1 pa pb) as [s|]; [|discriminate].
  intros H. apply andb_true_iff in H. destruct H as [H H4]. apply andb_true_iff in H. destruct H as [H H3].
  apply andb_true_iff in H. destruct H as [H1 H2].
  exists s. repeat split; auto.
  - intros E. rewrite E in H3. apply negb_true_iff in H3.
    assert (R : forall o, obs_eqb o o = true).
    { induction o as [|[g0 v0] r IH]; simpl; [reflexivity|]. rewrite Nat.eqb_refl, Z.eqb_refl, IH. reflexivity. }
    rewrite R in H3. discriminate.
  - apply existsb_exists in H4. destruct H4 as [[g0 v0] [Hin Hb]]. simpl in Hb.
    apply andb_true_iff in Hb. destruct Hb as [Hg Hv]. apply Nat.eqb_eq in Hg. apply Z.eqb_eq in Hv. subst. exact Hin.
Qed.

(* refuted: an interleaving in which both calls complete and call A transpiles under B's registry (reads token 2) *)
Theorem C17_registry_race_refuted :
  exists sched, finished sched (two pA pB) 0 = true /\ finished sched (two pA pB) 1 = true /\
                obs_of sched (two pA pB) 0 <> solo_result zero_store pA /\ In (GRegistry, 2%Z) (obs_of sched (two pA pB) 0).
Proof. apply race_found_sound. vm_compute. reflexivity. Qed.

(* the same for every run() shape with 1..3 statements and 1..3 transpile-time reads on either side (finite sweep, bound 3) *)
Definition shapes3 : list (nat * nat) := list_prod [1; 2; 3] [1; 2; 3].
Theorem C17_registry_race_all_shapes_le3 :
  forall sa sb, In sa shapes3 -> In sb shapes3 ->
  race_found GRegistry 2%Z (prog_of_trace gmap_impl 1%Z (run_tags (fst sa) (snd sa)))
                           (prog_of_trace gmap_impl 2%Z (run_tags (fst sb) (snd sb))) = true.
Proof.
  intros sa sb Ha Hb.
  assert (H : forallb (fun sa => forallb (fun sb =>
            race_found GRegistry 2%Z (prog_of_trace gmap_impl 1%Z (run_tags (fst sa) (snd sa)))
                                     (prog_of_trace gmap_impl 2%Z (run_tags (fst sb) (snd sb)))) shapes3) shapes3 = true)
    by (vm_compute; reflexivity).
  rewrite forallb_forall in H. specialize (H sa Ha). rewrite forallb_forall in H. exact (H sb Hb).
Qed.

(* hence NO protection discipline (no assignment of locks / owners to the globals) makes the faithful skeletons confined *)
Theorem C17_run_skeleton_not_confinable :
  forall disc, ~ (confined disc 0 pA = true /\ confined disc 1 pB = true).
Proof.
  intros disc [Ha Hb].
  destruct C17_registry_race_refuted as [sched [F0 [_ [Hne _]]]].
  apply Hne. unfold obs_of.
  apply (confined_serializable disc (two pA pB)).
  - intros i. destruct i as [|[|i]]; simpl; [exact Ha | exact Hb | reflexivity].
  - unfold finished in F0. destruct (t_todo (c_thr (run sched (init zero_store (two pA pB))) 0)); [reflexivity | discriminate].
Qed.

(* refuted: a failing semantic_analysis (raises while statement 1 is analysed) reads the other call's dataset_output *)
Definition pSemErr : prog := prog_of_trace gmap_impl 1%Z [TParse; TRegSet; TDsOutSet; TVcDs; TRaise; TDsOutClear].
Theorem C17_dataset_output_race_refuted :
  exists sched, finished sched (two pSemErr pB) 0 = true /\ finished sched (two pSemErr pB) 1 = true /\
                obs_of sched (two pSemErr pB) 0 <> solo_result zero_store pSemErr /\ In (GDsOut, 2%Z) (obs_of sched (two pSemErr pB) 0).
Proof. apply race_found_sound. vm_compute. reflexivity. Qed.

(* ---- partial, FAITHFUL: the parse-only calls (create_ast, prettify) are serializable under every interleaving, in any number:
        parser_lock confines the parse state *)
Theorem C17_parse_calls_serializable_partial :
  forall (toks : tid -> val) st0 sched i,
  let progs := fun j => prog_of_trace gmap_impl (toks j) parse_tags in
  t_todo (c_thr (run sched (init st0 progs)) i) = [] ->
  t_obs (c_thr (run sched (init st0 progs)) i) = solo_result zero_store (progs i).
Proof.
  intros toks st0 sched i progs. apply (confined_serializable disc_impl progs).
  intros j. apply parse_confined.
Qed.

(* ---- SPEC (the repair: registry, counters, representation and dataset_output per thread, each call starting from its own
        fresh registry / reset counters): ANY mix of parse-only calls and run()/semantic_analysis calls of ANY shape, in ANY
        number, is serializable under every interleaving *)
Definition spec_prog (kind : bool) (i : tid) (tok : val) (n k : nat) : prog :=
  if kind then prog_of_trace (gmap_spec i) tok (run_tags_spec n k) else prog_of_trace (gmap_spec i) tok parse_tags.

Theorem C17_spec_calls_serializable :
  forall (kind : tid -> bool) (toks : tid -> val) (n k : tid -> nat) st0 sched i,
  let progs := fun j => spec_prog (kind j) j (toks j) (n j) (k j) in
  t_todo (c_thr (run sched (init st0 progs)) i) = [] ->
  t_obs (c_thr (run sched (init st0 progs)) i) = solo_result zero_store (progs i).
Proof.
  intros kind toks n k st0 sched i progs. apply (confined_serializable disc_spec progs).
  intros j. unfold progs, spec_prog. destruct (kind j); [apply spec_run_confined | reflexivity].
Qed.

(* non-vacuity: the spec skeletons do complete under a schedule, and their solo results contain observations *)
Example C17_nonvacuous :
  let progs := fun j => match j with 0 | 1 => spec_prog true j (Z.of_nat j + 1)%Z 1 1 | _ => [] end in
  let sched := flat_map (fun _ => [0; 1]) (seq 0 40) in
  finished sched progs 0 = true /\ finished sched progs 1 = true /\
  Nat.ltb 2 (length (obs_of sched progs 0)) = true /\ confined disc_spec 0 (progs 0) = true /\
  confined disc_impl 0 pA = false.
Proof. vm_compute. repeat split. Qed.

Print Assumptions C17_confined_serializable.
Print Assumptions C17_confined_prefix.
Print Assumptions C17_solo_is_alone.
Print Assumptions C17_registry_race_refuted.
Print Assumptions C17_registry_race_all_shapes_le3.
Print Assumptions C17_run_skeleton_not_confinable.
Print Assumptions C17_dataset_output_race_refuted.
Print Assumptions C17_parse_calls_serializable_partial.
Print Assumptions C17_spec_calls_serializable.
