(* C29 — names that differ only in letter case stay distinct.
   The specification functions keep case variants apart everywhere (lookup is exact string equality), while a catalog that
   ignores letter case cannot even store two such components: the faithful model of the engine's store refutes the property
   (witness replayed on the engine by harness/props/c29.py; recorded as a known finding, not repairable by a small patch:
   DuckDB identifiers are case-insensitive even when quoted). *)
From Coq Require Import ZArith String Ascii List Bool.
Import ListNotations.
From VTL Require Import Base.Val Model.Table Model.Scalar Model.Expr Model.Names Proofs.ExprP Proofs.NamesP.
Open Scope string_scope.

(* exact lookup: a component is found under its own name only; a case variant is a different component *)
Theorem C29_lookup_exact : forall n n' v (e : env),
  elook n ((n, v) :: e) = Some v /\ (n' <> n -> elook n' ((n, v) :: e) = elook n' e).
Proof.
  intros n n' v e. simpl. rewrite String.eqb_refl. split; [reflexivity|].
  intros H. destruct (String.eqb n' n) eqn:E; [apply String.eqb_eq in E; contradiction | reflexivity].
Qed.

(* keep / drop / calc / rename act on exactly the named component: its case variants are untouched
   (instances of the C02 frame theorems, stated for names equal up to case) *)
Theorem C29_keep_drop_distinguish_case : forall d f r,
  In r (d_rows d) -> List.length (d_ms d) = List.length (snd r) ->
  forall n, elook n (combine (d_ms (d_project d f)) (select_by (d_ms d) f (snd r))) =
            if f n then elook n (combine (d_ms d) (snd r)) else None.
Proof. intros d f r Hr Hl n. destruct (d_project_frame d f) as [_ [_ H]]. apply H; assumption. Qed.

Theorem C29_rename_distinguishes_case : forall l n, ~ In n (map fst l) -> ren l n = n.
Proof. exact ren_untouched. Qed.

(* specification vs the engine's store *)
Theorem C29_exact_store_accepts_case_variants :
  create_table_exact ["Id_1"; "Me_1"; "me_1"; "ME_1"] = Created.
Proof. vm_compute. reflexivity. Qed.

Theorem C29_catalog_collision_refuted :
  exists cols, has_dup cols = false /\ create_table_ci cols = CatalogError.
Proof. exists ["Id_1"; "Me_1"; "me_1"]. vm_compute. split; reflexivity. Qed.

(* general form: ANY structure with two names equal up to case cannot be stored case-insensitively *)
Theorem C29_catalog_collision_general : forall (cols : list string) a b pre mid post,
  cols = (pre ++ a :: mid ++ b :: post)%list -> same_upto_case a b = true -> create_table_ci cols = CatalogError.
Proof.
  intros cols a b pre mid post -> H. unfold create_table_ci.
  assert (has_ci_dup (pre ++ a :: mid ++ b :: post)%list = true) as ->; [|reflexivity].
  induction pre as [|p pre IH]; simpl.
  - apply orb_true_iff. left. apply existsb_exists. exists b. split; [apply in_or_app; right; left; reflexivity | exact H].
  - rewrite IH. apply orb_true_r.
Qed.

(* exact characterisation of the case-insensitive store (Proofs/NamesP.v): it fails ONLY on two names equal up to case, it fails on
   every exact duplicate the specification store refuses, and on structures without case variants the two stores agree — the
   divergence of the engine from the specification is confined to the recorded finding *)
Theorem C29_catalog_error_only_on_case_collision : forall cols,
  create_table_ci cols = CatalogError ->
  exists pre a mid b post, cols = (pre ++ a :: mid ++ b :: post)%list /\ same_upto_case a b = true.
Proof. exact catalog_error_only_on_case_collision. Qed.

Theorem C29_catalog_agrees_without_case_variants : forall cols,
  has_ci_dup cols = false -> create_table_ci cols = create_table_exact cols.
Proof. exact catalog_agrees_without_case_variants. Qed.

Example C29_agreement_nonvacuous :
  has_ci_dup ["Id_1"; "Id_2"; "Me_1"; "At_1"] = false /\ create_table_ci ["Id_1"; "Id_2"; "Me_1"; "At_1"] = Created /\
  has_ci_dup ["Id_1"; "Me_1"; "Me_1"] = true /\ create_table_exact ["Id_1"; "Me_1"; "Me_1"] = CatalogError.
Proof. vm_compute. repeat split. Qed.

Example C29_spec_example :
  let D := mkD ["Id_1"] ["Me_1"; "me_1"] [([VInt 1], [VInt 10; VInt 20])] in
  bind (d_calc D [("ME_1", CBin Add (CCol "Me_1") (CCol "me_1"))]) (fun d => Ok (d_ms d, map snd (d_rows d)))
  = Ok (["Me_1"; "me_1"; "ME_1"], [[VInt 10; VInt 20; VInt 30]]).
Proof. vm_compute. reflexivity. Qed.

Print Assumptions C29_lookup_exact.
Print Assumptions C29_keep_drop_distinguish_case.
Print Assumptions C29_catalog_collision_refuted.
Print Assumptions C29_catalog_collision_general.
Print Assumptions C29_catalog_error_only_on_case_collision.
Print Assumptions C29_catalog_agrees_without_case_variants.
