(* C13 — the dataset load/release schedule is safe and results are selected correctly.
   Model: Model/Sched.v (schedule_of = DAGAnalyzer._ds_usage_analysis; replay = the loop of execute_queries; abstract table store).
   For EVERY statement list (any length) that is topologically sorted and has unique outputs — what run() hands to
   _ds_usage_analysis after create_dag, each order being validated with is_topo_order (C12) — and for every choice of which
   inputs have a dataset structure (`tabled`) and of return_only_persistent (`rop`).
   A history position is written  replay = h1 ++ e :: h2 ; store_of h1 [] is the set of tables present just before e. *)
From Coq Require Import List Bool Arith.
Import ListNotations.
From VTL Require Import Model.Dag Model.Sched Proofs.DagP Proofs.SchedP.

Section C13.
  Variable all : list stmt.
  Variable tabled : name -> bool.
  Variable rop : bool.
  Hypothesis unique_outputs : NoDup (outs all).
  Hypothesis sorted : topo_sorted all.

  (* when a statement executes, every table it reads (result of another statement, or input with a structure) is in the store *)
  Theorem C13_reads_available : forall h1 k n h2, replay all tabled rop = h1 ++ Exec k n :: h2 ->
    forall s, In s all -> s_out s = n -> forall d, In d (s_deps s) -> needs_table all tabled d -> In d (store_of h1 []).
  Proof. exact (reads_available all tabled rop unique_outputs sorted). Qed.

  (* nothing is released before a statement that reads it has executed *)
  Theorem C13_no_early_release : forall h1 x h2, replay all tabled rop = h1 ++ Release x :: h2 ->
    forall n, In n (execs h2) -> forall s, In s all -> s_out s = n -> ~ In x (s_deps s).
  Proof. exact (no_early_release all tabled rop unique_outputs sorted). Qed.

  (* inputs: loaded at most once (exactly the global inputs that have a structure), never while already present *)
  Theorem C13_load_at_most_once :
    NoDup (loads (replay all tabled rop)) /\
    forall x, In x (loads (replay all tabled rop)) <-> In x (global_inputs all) /\ tabled x = true.
  Proof. exact (load_at_most_once all tabled rop unique_outputs sorted). Qed.

  Theorem C13_load_not_present : forall h1 x h2, replay all tabled rop = h1 ++ Load x :: h2 -> ~ In x (store_of h1 []).
  Proof. exact (load_not_present all tabled rop unique_outputs sorted). Qed.

  (* every statement result and every global input is released exactly once, nothing else is released *)
  Theorem C13_release_exactly_once :
    NoDup (releases (replay all tabled rop)) /\
    forall x, In x (releases (replay all tabled rop)) <-> In x (outs all) \/ In x (global_inputs all).
  Proof. exact (release_exactly_once all tabled rop unique_outputs sorted). Qed.

  (* no table is left behind *)
  Theorem C13_store_empty_at_end : store_of (replay all tabled rop) [] = [].
  Proof. exact (store_empty_at_end all tabled rop unique_outputs sorted). Qed.

  (* run() returns exactly the persistent assignments, or all assignments when return_only_persistent is false, each once ... *)
  Theorem C13_result_selection :
    NoDup (returned all tabled rop) /\
    forall x, In x (returned all tabled rop) <-> exists s, In s all /\ s_out s = x /\ (rop = false \/ s_pers s = true).
  Proof. exact (result_selection all tabled rop unique_outputs sorted). Qed.

  (* ... and each is fetched while its table is still in the store *)
  Theorem C13_fetch_in_store : forall h1 x h2, replay all tabled rop = h1 ++ Fetch x :: h2 -> In x (store_of h1 []).
  Proof. exact (fetch_in_store all tabled rop unique_outputs sorted). Qed.
End C13.

(* the boolean checker evaluated on concrete (real) histories implies the per-event safety predicate *)
Theorem C13_safe_historyb_sound : forall all tabled h st,
  safe_historyb all tabled st h = true -> hist_all (safe_event all tabled) st h.
Proof. exact safe_historyb_sound. Qed.

(* the hypotheses are satisfiable, and the model's history of a concrete script *)
Example C13_hypotheses_satisfiable : NoDup (outs example_script) /\ topo_sorted example_script.
Proof. exact example_script_ok. Qed.

Example C13_example_replay :
  replay example_script (fun _ => true) false =
  [Load 0; Exec 1 2; Release 0; Load 1; Exec 2 3; Fetch 3; Release 3; Release 1; Exec 3 4; Fetch 2; Release 2; Fetch 4; Release 4].
Proof. exact example_script_replay. Qed.

Print Assumptions C13_reads_available.
Print Assumptions C13_no_early_release.
Print Assumptions C13_load_at_most_once.
Print Assumptions C13_load_not_present.
Print Assumptions C13_release_exactly_once.
Print Assumptions C13_store_empty_at_end.
Print Assumptions C13_result_selection.
Print Assumptions C13_fetch_in_store.
Print Assumptions C13_safe_historyb_sound.
