(* C09 — cast converts values according to the documented conversion table.
   Gen.Types / Gen.Cast are regenerated from /repo on every run: the code's explicit/implicit promotion tables, the two
   From/To tables and the "Cast on datasets" renaming table of docs/data_types.rst, COMP_NAME_MAPPING, and the REAL
   `Cast.check_without_mask` / `Cast.dataset_validation` evaluated on all 9 x 9 type pairs.  Table theorems are exhaustive
   computations over the finite domain lifted by sweepN_sound (a proof: 81 pairs); value theorems (round trips, error kinds,
   totality) are unbounded (all Z, all strings) and proved in Proofs/CastP.v.
   *partial*: the value model covers Integer/Number/String/Boolean (16 pairs) and the textual time pairs; the remaining time
   conversions are checked by the correspondence against the engine only. *)
From Coq Require Import ZArith QArith String List Bool.
Import ListNotations.
From VTL Require Import Base.Val Base.Calendar Model.Types Model.Period Model.Cast Proofs.PromoteP Proofs.CastP Gen.Types Gen.Cast.

(* "Null to any type: Null is compatible with every type" (Key rules); the doc tables have no Null row *)
Definition doc_implicit (t : ty) : list ty := match t with TNull => all_ty | _ => doc_implicit_rows t end.
Definition doc_explicit (t : ty) : list ty := match t with TNull => all_ty | _ => doc_explicit_rows t end.

Definition code_allows : ty -> ty -> bool := allows_of explicit_code implicit_code.
Definition doc_allows : ty -> ty -> bool := allows_of doc_explicit doc_implicit.
Definition cast_code := cast_op code_allows.
Definition cast_doc := cast_op doc_allows.

(* --- tie, checked by the kernel: code_allows IS Cast.check_without_mask on the entire domain *)
Theorem C09_model_is_code_check : forall s d, assoc key2_eqb (s, d) cast_check_tab = Some (code_allows s d).
Proof.
  intros. apply obool_eqb_eq.
  exact (sweep2_sound (fun s d => obool_eqb (assoc key2_eqb (s, d) cast_check_tab) (Some (code_allows s d)))
           ltac:(vm_compute; reflexivity) s d).
Qed.

(* --- the documented table vs the code's table.  The full statement is FALSE on the unchanged tree: *)
Definition known_mismatch : list (ty * ty) := [(TString, TBoolean); (TTime, TDate); (TTime, TPeriod); (TPeriod, TDate)].

Theorem C09_cast_allowed_iff_doc_refuted :
  (exists s d, code_allows s d <> doc_allows s d) /\
  forall p, In p known_mismatch -> code_allows (fst p) (snd p) = true /\ doc_allows (fst p) (snd p) = false.
Proof.
  split.
  - exists TString, TBoolean. vm_compute. discriminate.
  - intros p H.
    assert (forallb (fun p => code_allows (fst p) (snd p) && negb (doc_allows (fst p) (snd p))) known_mismatch = true) as A
        by (vm_compute; reflexivity).
    rewrite forallb_forall in A. specialize (A p H). apply andb_prop in A as [A B].
    split; [exact A | destruct (doc_allows (fst p) (snd p)); [discriminate | reflexivity]].
Qed.

(* ... and true everywhere else: the four pairs above are the ONLY disagreements of the 81 *)
Theorem C09_cast_allowed_iff_doc_partial :
  forall s d, mem_pair (s, d) known_mismatch = false -> code_allows s d = doc_allows s d.
Proof.
  intros s d H.
  pose proof (sweep2_sound (fun s d => mem_pair (s, d) known_mismatch || Bool.eqb (code_allows s d) (doc_allows s d))
                ltac:(vm_compute; reflexivity) s d) as S.
  cbv beta in S. rewrite H in S. simpl in S. apply Bool.eqb_prop. exact S.
Qed.

Theorem C09_cast_code_is_doc_partial :
  forall s d v, mem_pair (s, d) known_mismatch = false -> cast_code s d v = cast_doc s d v.
Proof. intros s d v H. unfold cast_code, cast_doc, cast_op. rewrite (C09_cast_allowed_iff_doc_partial s d H). reflexivity. Qed.

(* --- error kinds: a forbidden pair is a semantic error whatever the value (null included: before any data) ... *)
Theorem C09_cast_forbidden_is_semantic :
  forall allows s d v, allows s d = false -> cast_op allows s d v = Err ERR_SEM.
Proof. exact cast_op_forbidden. Qed.

(* ... and on the modelled pairs the semantic error arises ONLY from the table, every other failure is the runtime error *)
Theorem C09_cast_error_kind :
  forall allows s d v c, modelled s d = true -> has_type s v = true -> cast_op allows s d v = Err c ->
  (allows s d = false /\ c = ERR_SEM) \/
  (allows s d = true /\ (c = ERR_RT \/ (s = TNumber /\ d = TString /\ c = ERR_UNMODELLED))).
Proof.
  intros allows s d v c Hm Ht H. unfold cast_op in H. destruct (allows s d).
  - right. split; [reflexivity | exact (cast_val_error_kind s d v c Hm Ht H)].
  - left. split; [reflexivity | injection H as <-; reflexivity].
Qed.

Theorem C09_cast_semantic_iff_forbidden :
  forall allows s d v, modelled s d = true -> has_type s v = true ->
  (cast_op allows s d v = Err ERR_SEM <-> allows s d = false).
Proof. exact cast_op_semantic_iff. Qed.

(* --- totality: an allowed pair whose rule needs no parsing converts every value of the source type *)
Theorem C09_cast_total_on_allowed :
  forall allows s d v, allows s d = true -> total_pair s d = true -> has_type s v = true ->
  exists w, cast_op allows s d v = Ok w.
Proof. intros allows s d v Ha Hp Ht. rewrite (cast_op_allowed allows s d v Ha). exact (cast_total s d v Hp Ht). Qed.

(* the documented pairs that are total, spelled out (regenerated doc table): all documented pairs among the modelled ones
   except String -> Integer/Number/Date/Duration (parsing) and Number -> String (see Model/Cast.v) *)
Theorem C09_documented_total_pairs :
  forall s d, doc_allows s d = true -> modelled s d = true ->
  total_pair s d = true \/ (s = TString /\ In d [TInteger; TNumber; TDate; TDuration]) \/ (s = TNumber /\ d = TString) \/
  (s = TTime /\ d = TPeriod).
Proof. intros s d _ Hm. exact (total_or_parsing s d Hm). Qed.

(* --- round trips, for ALL values (unbounded) *)
Theorem C09_roundtrip_integer_string_integer : forall z, cast2 TInteger TString TInteger (VInt z) = Ok (VInt z).
Proof. exact roundtrip_int_str_int. Qed.
Theorem C09_roundtrip_boolean_integer_boolean : forall b, cast2 TBoolean TInteger TBoolean (VBool b) = Ok (VBool b).
Proof. exact roundtrip_bool_int_bool. Qed.
Theorem C09_roundtrip_boolean_number_boolean : forall b, cast2 TBoolean TNumber TBoolean (VBool b) = Ok (VBool b).
Proof. exact roundtrip_bool_num_bool. Qed.
Theorem C09_roundtrip_boolean_string_boolean : forall b, cast2 TBoolean TString TBoolean (VBool b) = Ok (VBool b).
Proof. exact roundtrip_bool_str_bool. Qed.
Theorem C09_roundtrip_integer_number_integer : forall z, cast2 TInteger TNumber TInteger (VInt z) = Ok (VInt z).
Proof. exact roundtrip_int_num_int. Qed.
Theorem C09_number_to_integer_truncates :
  forall n d, cast_val TNumber TInteger (VNum (n # d)) = Ok (VInt (if (0 <=? n)%Z then (n / Zpos d)%Z else (- ((- n) / Zpos d))%Z)).
Proof. exact num_to_int_trunc. Qed.
(* not every composition is a round trip *)
Theorem C09_integer_boolean_integer_refuted : exists z, cast2 TInteger TBoolean TInteger (VInt z) <> Ok (VInt z).
Proof. exact int_bool_int_not_roundtrip. Qed.

(* --- Time -> Time_Period (the code's reading; calendar-exact): the answer is a period whose first and last day ARE the interval
       (unbounded), and every valid period of the years 1900..2100 is recovered from its own dates (finite sweep, bound stated) *)
Theorem C09_interval_period_sound : forall a b p, interval_period a b = Some p -> start_date p = a /\ end_date p = b.
Proof. exact interval_period_sound. Qed.
Theorem C09_interval_period_complete_1900_2100 :
  forall y, In y (zrange 1900 201) -> forall p, In p (periods_of_year y) -> recovered p = true.
Proof.
  intros y Hy p Hp. pose proof interval_period_complete_1900_2100 as H.
  rewrite forallb_forall in H. specialize (H y Hy). rewrite forallb_forall in H. exact (H p Hp).
Qed.
(* a week is labelled with its ISO week-year, also when its Monday lies in the previous calendar year *)
Example C09_interval_period_year_boundaries :
  interval_to_period_str "2019-12-30/2020-01-05" = Some "2020W1" /\ interval_to_period_str "2018-12-31/2019-01-06" = Some "2019W1" /\
  interval_to_period_str "2020-12-28/2021-01-03" = Some "2020W53" /\ interval_to_period_str "2021-01-04/2021-01-10" = Some "2021W1" /\
  interval_to_period_str "2015-12-28/2016-01-03" = Some "2015W53" /\ interval_to_period_str "2020-02-29/2020-02-29" = Some "2020D60" /\
  interval_to_period_str "2020-12-31/2020-12-31" = Some "2020D366" /\ interval_to_period_str "2020-10-01/2020-12-31" = Some "2020Q4" /\
  interval_to_period_str "2020-07-01/2020-12-31" = Some "2020S2" /\ interval_to_period_str "2021-02-01/2021-02-28" = Some "2021M2" /\
  interval_to_period_str "2020-01-01/2020-12-31" = Some "2020" /\ interval_to_period_str "2020-01-07/2020-01-13" = None /\
  interval_to_period_str "2020-01-01/2021-12-31" = None.
Proof. vm_compute. repeat split. Qed.

(* --- dataset level: the measure is renamed to COMP_NAME_MAPPING[dst] unless dst is in IMPLICIT[src]; this IS what the real
       Cast.dataset_validation answers on all 81 pairs (None = the call raises) *)
Definition rename_code := cast_rename implicit_code comp_name_code.

Theorem C09_cast_rename_rule :
  forall s d, assoc key2_eqb (s, d) cast_rename_tab =
              Some (if code_allows s d then Some (rename_code s d cast_probe_measure) else None).
Proof.
  intros. apply oostr_eqb_eq.
  exact (sweep2_sound (fun s d => oostr_eqb (assoc key2_eqb (s, d) cast_rename_tab)
                                    (Some (if code_allows s d then Some (rename_code s d cast_probe_measure) else None)))
           ltac:(vm_compute; reflexivity) s d).
Qed.

(* the generic names are the documented ones, and the exception ("source implicitly promotes to the target") uses the
   documented implicit table: the code's renaming rule is the documented rule *)
Definition doc_comp_name (t : ty) : string := match doc_rename_rows t with Some n => n | None => comp_name_code t end.

Theorem C09_rename_names_documented : forall d, d <> TNull -> doc_rename_rows d = Some (comp_name_code d).
Proof.
  intros d H.
  pose proof (sweep1_sound (fun d => ty_eqb d TNull || ostr_eqb (doc_rename_rows d) (Some (comp_name_code d)))
                ltac:(vm_compute; reflexivity) d) as S.
  cbv beta in S. destruct (ty_eqb d TNull) eqn:E.
  - apply ty_eqb_eq in E. contradiction.
  - apply ostr_eqb_eq. exact S.
Qed.

Theorem C09_rename_rule_documented :
  forall s d n, cast_rename doc_implicit doc_comp_name s d n = rename_code s d n.
Proof.
  intros s d n.
  pose proof (sweep2_sound (fun s d => Bool.eqb (memty d (doc_implicit s)) (memty d (implicit_code s)) &&
                                       String.eqb (doc_comp_name d) (comp_name_code d))
                ltac:(vm_compute; reflexivity) s d) as S.
  cbv beta in S. apply andb_prop in S as [A B]. apply Bool.eqb_prop in A. apply String.eqb_eq in B.
  unfold rename_code, cast_rename. rewrite A, B. reflexivity.
Qed.

(* --- examples: the documented conversion details, and non-vacuity of the hypotheses *)
Open Scope string_scope.
Example C09_doc_details :
  cast_val TString TInteger (VStr "3.5") = Err ERR_RT /\                  (* "rejects 3.5" *)
  cast_val TString TInteger (VStr "42") = Ok (VInt 42) /\
  cast_val TInteger TBoolean (VInt 0) = Ok (VBool false) /\ cast_val TInteger TBoolean (VInt (-7)) = Ok (VBool true) /\
  cast_val TNumber TBoolean (VNum (0 # 1)) = Ok (VBool false) /\ cast_val TNumber TBoolean (VNum (1 # 8)) = Ok (VBool true) /\
  cast_val TBoolean TInteger (VBool true) = Ok (VInt 1) /\ cast_val TBoolean TNumber (VBool false) = Ok (VNum (0 # 1)) /\
  cast_val TBoolean TString (VBool true) = Ok (VStr "True") /\ cast_val TBoolean TString (VBool false) = Ok (VStr "False") /\
  cast_val TNumber TInteger (VNum (7 # 2)) = Ok (VInt 3) /\ cast_val TNumber TInteger (VNum (-7 # 2)) = Ok (VInt (-3)) /\
  cast_val TNumber TString (VNum (-7 # 2)) = Ok (VStr "-3.5") /\ cast_val TNumber TString (VNum (10000000000 # 1)) = Ok (VStr "10000000000.0") /\
  cast_val TString TNumber (VStr " -2.50 ") = Ok (VNum (-5 # 2)) /\ cast_val TString TNumber (VStr "abc") = Err ERR_RT /\
  cast_val TString TDate (VStr "2021-02-29") = Err ERR_RT /\ cast_val TString TDate (VStr "2020-02-29") = Ok (VStr "2020-02-29") /\
  cast_val TString TDuration (VStr "P1Y") = Ok (VStr "A") /\ cast_val TString TDuration (VStr "X") = Err ERR_RT /\
  cast_val TString TInteger VNull = Ok VNull.
Proof. vm_compute. repeat split. Qed.

(* regression witnesses: every recorded pre-repair answer of the engine differs from the rule *)
Example C09_before_fix_witnesses_differ :
  forallb (fun w => let '(s, d, v, old) := w in negb (res_val_eqb (cast_val s d v) old)) cast_before_fix = true.
Proof. vm_compute. reflexivity. Qed.

Example C09_nonvacuous :
  doc_allows TInteger TString = true /\ code_allows TInteger TString = true /\ total_pair TInteger TString = true /\
  doc_allows TInteger TDate = false /\ cast_doc TInteger TDate VNull = Err ERR_SEM /\
  cast_doc TString TBoolean (VStr "true") = Err ERR_SEM /\ cast_code TString TBoolean (VStr "true") = Ok (VBool true) /\
  rename_code TInteger TString "Me_1" = "str_var" /\ rename_code TBoolean TString "Me_1" = "Me_1" /\
  rename_code TInteger TNumber "Me_1" = "Me_1" /\ rename_code TNumber TInteger "Me_1" = "Me_1".
Proof. vm_compute. repeat split. Qed.

Print Assumptions C09_model_is_code_check.
Print Assumptions C09_cast_allowed_iff_doc_refuted.
Print Assumptions C09_cast_allowed_iff_doc_partial.
Print Assumptions C09_cast_code_is_doc_partial.
Print Assumptions C09_cast_forbidden_is_semantic.
Print Assumptions C09_cast_error_kind.
Print Assumptions C09_cast_semantic_iff_forbidden.
Print Assumptions C09_cast_total_on_allowed.
Print Assumptions C09_documented_total_pairs.
Print Assumptions C09_roundtrip_integer_string_integer.
Print Assumptions C09_roundtrip_boolean_integer_boolean.
Print Assumptions C09_roundtrip_boolean_number_boolean.
Print Assumptions C09_roundtrip_boolean_string_boolean.
Print Assumptions C09_roundtrip_integer_number_integer.
Print Assumptions C09_number_to_integer_truncates.
Print Assumptions C09_integer_boolean_integer_refuted.
Print Assumptions C09_interval_period_sound.
Print Assumptions C09_interval_period_complete_1900_2100.
Print Assumptions C09_cast_rename_rule.
Print Assumptions C09_rename_names_documented.
Print Assumptions C09_rename_rule_documented.
