(* C21 — Time_Period values round-trip through every input and output representation.
   Statements quantify over EVERY valid period of EVERY year 0..9999 (the documented four-digit YYYY field; validity follows the
   calendar: week 53 / day 366 only where they exist).  Proof method: the year field is handled by digit lemmas (pad4 / digits_val,
   for all 0 <= y <= 9999, no enumeration of years); the part after the year depends on the year only through its leap flag, so it
   ranges over the finite set {leap, common} x indicator x number <= 366, checked by vm_compute and lifted by suffix_sweep_sound.
   The engine's own parsing / rendering code (SQL macros and Python) is transcribed in Model/Period.v Part 2 and tied to the real
   code on every run by harness/props/c21.py. *)
From Coq Require Import ZArith Lia Bool List String.
Import ListNotations.
From VTL Require Import Base.Calendar Proofs.CalendarP Model.Period Proofs.PeriodP.
Open Scope Z_scope.

(* every documented input spelling of a period denotes that period: all spellings agree *)
Theorem C21_spellings_agree : forall p s, period_valid p = true -> 0 <= p_year p <= 9999 ->
  In s (spellings p) -> parse_in s = Some p.
Proof. exact spellings_agree. Qed.
Print Assumptions C21_spellings_agree.

(* for every output format that can express the indicator, the documented rendering parses back to the same period *)
Theorem C21_render_parse : forall f p s, period_valid p = true -> 0 <= p_year p <= 9999 ->
  render f p = Some s -> parse_in s = Some p.
Proof. exact render_parse. Qed.
Print Assumptions C21_render_parse.

(* a format renders nothing exactly when it cannot express the indicator: sdmx_gregorian x {S, Q, W} *)
Theorem C21_render_error_iff_inexpressible : forall f p,
  render f p = None <-> (f = FGregorian /\ (p_ind p = IS \/ p_ind p = IQ \/ p_ind p = IW)).
Proof. exact render_none_iff_gregorian. Qed.
Print Assumptions C21_render_error_iff_inexpressible.

(* the internal (canonical) representation is itself an accepted input denoting the same period *)
Theorem C21_canonical_parse : forall p, period_valid p = true -> 0 <= p_year p <= 9999 -> parse_in (canonical p) = Some p.
Proof. exact canonical_parse. Qed.
Print Assumptions C21_canonical_parse.

(* renderings are unambiguous: two valid periods with the same rendering are the same period *)
Theorem C21_render_injective : forall f p q s, period_valid p = true -> period_valid q = true ->
  0 <= p_year p <= 9999 -> 0 <= p_year q <= 9999 -> render f p = Some s -> render f q = Some s -> p = q.
Proof. exact render_injective. Qed.
Print Assumptions C21_render_injective.

(* what parse_in accepts is a valid period of the calendar (never week 53 of a 52-week year, day 366 of a common year, ...) *)
Theorem C21_parse_in_valid : forall s p, parse_in s = Some p -> period_valid p = true.
Proof. exact parse_in_valid. Qed.
Print Assumptions C21_parse_in_valid.

(* ================================================================== the engine's own code (transcribed in Model/Period.v Part 2, tied on every run) *)
(* vtl_period_normalize maps EVERY documented spelling of a valid period to the canonical form: every year 0..9999.
   (Proof: the macro is run on every (indicator, number, spelling) with the four year characters left symbolic.) *)
Theorem C21_sql_normalize_ok : forall p s, period_valid p = true -> 0 <= p_year p <= 9999 ->
  In s (spellings p) -> period_normalize_impl s = SOk (canonical p).
Proof. exact period_normalize_impl_ok. Qed.
Print Assumptions C21_sql_normalize_ok.

(* the four vtl_period_to_<format> macros on the canonical string give the documented representation, and the error exactly when the
   format cannot express the indicator: every year 0..9999 *)
Theorem C21_sql_render_ok : forall f p, period_valid p = true -> 0 <= p_year p <= 9999 ->
  render_impl f (canonical p) = match render f p with Some s => SOk s | None => SErr end.
Proof. exact render_impl_ok. Qed.
Print Assumptions C21_sql_render_ok.

(* vtl_period_to_string (struct -> string; after fix aa363dc the year is LPAD-ed to four digits) is the canonical form: years 0..9999 *)
Theorem C21_sql_to_string_ok : forall p, period_valid p = true -> 0 <= p_year p <= 9999 -> period_to_string_impl p = canonical p.
Proof. exact period_to_string_impl_ok. Qed.
Print Assumptions C21_sql_to_string_ok.

(* the Python renderers / __str__ (after fix aa363dc: {year:04d}) give the documented forms; Python and SQL agree: years 1..9999
   (datetime has no year 0, so the date forms of year 0000 raise) *)
Theorem C21_py_render_ok : forall f p, period_valid p = true -> 1 <= p_year p <= 9999 ->
  py_render f p = match render f p with Some s => CkOk s | None => CkErr "2-1-19-21" end /\ py_str p = canonical p.
Proof. intros f p V Y. split; [apply py_render_ok; assumption | apply py_str_canonical; [assumption | lia]]. Qed.
Print Assumptions C21_py_render_ok.

Theorem C21_py_sql_render_agree : forall f p, period_valid p = true -> 1 <= p_year p <= 9999 ->
  py_render f p = sres_ck (render_impl f (period_to_string_impl p)).
Proof. exact py_sql_render_agree. Qed.
Print Assumptions C21_py_sql_render_agree.

(* REGRESSION WITNESSES: before fix aa363dc f"{year}" / CAST(year AS VARCHAR) did not pad (witness 0001-M01) *)
Theorem C21_before_fix_low_year_refuted :
  (exists p, period_valid p = true /\ 0 <= p_year p <= 9999 /\
             py_render_before_fix FVtl p <> match render FVtl p with Some s => CkOk s | None => CkErr "2-1-19-21" end /\
             py_str_before_fix p <> canonical p) /\
  (exists p, period_valid p = true /\ period_to_string_before_fix p <> canonical p /\
             period_parse_impl (period_to_string_before_fix p) = None).
Proof. split; [exact py_before_fix_low_year_refuted | exact period_to_string_before_fix_refuted]. Qed.
Print Assumptions C21_before_fix_low_year_refuted.

Example C21_hypotheses_satisfiable :
  period_valid (mkP 2020 ID 60) = true /\ In "2020-02-29"%string (spellings (mkP 2020 ID 60)) /\
  render FNatural (mkP 2020 ID 60) = Some "2020-02-29"%string /\ render FGregorian (mkP 2020 IQ 1) = None /\
  parse_in "2021-W53"%string = None /\ parse_in "2020-W53"%string = Some (mkP 2020 IW 53) /\
  parse_in "0001M1"%string = Some (mkP 1 IM 1).
Proof.
  split; [reflexivity|]. split; [vm_compute; do 6 right; left; reflexivity|].
  repeat split; vm_compute; reflexivity.
Qed.
