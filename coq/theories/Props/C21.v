(* C21 — Time_Period values round-trip through every input and output representation.
   Statements quantify over EVERY valid period of EVERY year 0..9999 (the documented four-digit YYYY field; validity follows the
   calendar: week 53 / day 366 only where they exist).  Proof method: the year field is handled by digit lemmas (pad4 / digits_val,
   for all 0 <= y <= 9999, no enumeration of years); the part after the year depends on the year only through its leap flag, so it
   ranges over the finite set {leap, common} x indicator x number <= 366, checked by vm_compute and lifted by suffix_sweep_sound.
   The engine's own parsing / rendering code (SQL macros and Python) is transcribed in Model/Period.v Part 2 and tied to the real
   code on every run by harness/props/c21.py. *)
From Coq Require Import ZArith Bool List String.
Import ListNotations.
From VTL Require Import Base.Calendar Proofs.CalendarP Model.Period Proofs.PeriodP.
Open Scope Z_scope.

(* every documented input spelling of a period denotes that period: all spellings agree *)
Theorem C21_spellings_agree : forall p s, period_valid p = true -> 0 <= p_year p <= 9999 ->
  In s (spellings p) -> parse_in s = Some p.
Proof. exact spellings_agree. Qed.
Print Assumptions C21_spellings_agree.

(* for every output format that can express the indicator, the documented rendering parses back to the same period *)
Theorem C21_render_parse : forall f p s, period_valid p = true -> 0 <= p_year p <= 9999 ->
  render f p = Some s -> parse_in s = Some p.
Proof. exact render_parse. Qed.
Print Assumptions C21_render_parse.

(* a format renders nothing exactly when it cannot express the indicator: sdmx_gregorian x {S, Q, W} *)
Theorem C21_render_error_iff_inexpressible : forall f p,
  render f p = None <-> (f = FGregorian /\ (p_ind p = IS \/ p_ind p = IQ \/ p_ind p = IW)).
Proof.
  intros f p. rewrite render_none_iff. destruct f, (p_ind p); simpl; split; intros H; try discriminate; try reflexivity;
    try (split; [reflexivity | tauto]); destruct H as [H1 H2]; try discriminate; destruct H2 as [H2 | [H2 | H2]]; discriminate.
Qed.
Print Assumptions C21_render_error_iff_inexpressible.

(* the internal (canonical) representation is itself an accepted input denoting the same period *)
Theorem C21_canonical_parse : forall p, period_valid p = true -> 0 <= p_year p <= 9999 -> parse_in (canonical p) = Some p.
Proof. exact canonical_parse. Qed.
Print Assumptions C21_canonical_parse.

(* renderings are unambiguous: two valid periods with the same rendering are the same period *)
Theorem C21_render_injective : forall f p q s, period_valid p = true -> period_valid q = true ->
  0 <= p_year p <= 9999 -> 0 <= p_year q <= 9999 -> render f p = Some s -> render f q = Some s -> p = q.
Proof. exact render_injective. Qed.
Print Assumptions C21_render_injective.

(* what parse_in accepts is a valid period of the calendar (never week 53 of a 52-week year, day 366 of a common year, ...) *)
Theorem C21_parse_in_valid : forall s p, parse_in s = Some p -> period_valid p = true.
Proof. exact parse_in_valid. Qed.
Print Assumptions C21_parse_in_valid.

Example C21_hypotheses_satisfiable :
  period_valid (mkP 2020 ID 60) = true /\ In "2020-02-29"%string (spellings (mkP 2020 ID 60)) /\
  render FNatural (mkP 2020 ID 60) = Some "2020-02-29"%string /\ render FGregorian (mkP 2020 IQ 1) = None /\
  parse_in "2021-W53"%string = None /\ parse_in "2020-W53"%string = Some (mkP 2020 IW 53) /\
  parse_in "0001M1"%string = Some (mkP 1 IM 1).
Proof.
  split; [reflexivity|]. split; [vm_compute; do 6 right; left; reflexivity|].
  repeat split; vm_compute; reflexivity.
Qed.
