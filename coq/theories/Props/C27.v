(* C27 — SDMX structures map to VTL structures as documented.
   Gen.Sdmx is regenerated on every run: the members of the installed pysdmx's DataType and Role enums, the two mapping
   dicts of vtlengine.Utils (import), the two tables of docs/data_structures.rst, and the complete result table of the real
   to_vtl_json over every single-component structure (41 data types x 3 roles; Schema / DataStructureDefinition / Dataflow,
   local / concept data type — six variants checked identical by the translator).
   `engine_to_vtl_json` is the model the engine is tied to (C27_model_is_code): since the repair of to_vtl_json in /repo
   (8357c84) that is the documented function `to_vtl_json_spec` (an unmapped data type -> InputValidationException).
   `before_fix_to_vtl_json` is the code as it was before (dict indexed directly -> raw KeyError); it is NOT tied to the tree and
   only carries the regression witness C27_mapping_total_or_rejected_before_fix. *)
From Coq Require Import String List Bool Permutation.
Import ListNotations.
From VTL Require Import Model.Sdmx Proofs.SdmxP Gen.Sdmx.
Open Scope string_scope.

Definition engine_to_vtl_json := to_vtl_json_spec code_dtype_map code_role_map.
Definition before_fix_to_vtl_json := to_vtl_json_impl code_dtype_map code_role_map.

(* ---------------------------------------------------------------- the tie *)
(* the installed pysdmx has exactly the three roles of the model *)
Theorem C27_role_enum_is_modelled : pysdmx_roles = map role_name all_roles.
Proof. vm_compute. reflexivity. Qed.

(* the model IS the code's function on every single-component structure (exhaustive over the regenerated enums) *)
Theorem C27_model_is_code : forall dt r, In dt pysdmx_dtypes ->
  assoc_single (dt, r) singles_tab = Some (engine_to_vtl_json [mkS "C1" r dt]).
Proof.
  intros dt r Hd. apply ooutcome_eqb_eq.
  assert (S : forallb (fun dt => forallb (fun r => ooutcome_eqb (assoc_single (dt, r) singles_tab)
                                                     (Some (engine_to_vtl_json [mkS "C1" r dt]))) all_roles) pysdmx_dtypes = true)
    by (vm_compute; reflexivity).
  exact (forallb_In _ _ (forallb_In _ _ S dt Hd) r (all_roles_complete r)).
Qed.

(* ---------------------------------------------------------------- every structure is mapped or rejected *)
Definition mapped (dt : string) : bool := match lookup dt code_dtype_map with Some _ => true | None => false end.

Lemma roles_mapped : forall r, lookup (role_name r) code_role_map <> None.
Proof. destruct r; vm_compute; discriminate. Qed.

(* for ANY list of components the result is a converted structure or an input-validation error — never a raw exception *)
Theorem C27_mapping_total_or_rejected : forall cs,
  (exists vs, engine_to_vtl_json cs = Converted vs) \/ engine_to_vtl_json cs = InputValidation.
Proof.
  intros cs. destruct (engine_to_vtl_json cs) as [vs| |k|w] eqn:E; [left; eauto | right; reflexivity | |];
    exfalso; unfold engine_to_vtl_json, to_vtl_json_spec in E;
    destruct (failure_is_on_unmapped _ _ _ _ _ E) as (k' & Hk); try discriminate; intros vs; discriminate.
Qed.

(* converted exactly when every data type is mapped (every role always is) *)
Theorem C27_converted_iff_all_mapped : forall cs,
  (exists vs, engine_to_vtl_json cs = Converted vs) <-> (forall c, In c cs -> mapped (sc_dtype c) = true).
Proof.
  intros cs. split.
  - intros (vs & H) c Hc. apply components_faithful in H; [|intros; discriminate].
    assert (G : In c (grouped cs)) by (apply grouped_In; exact Hc). clear Hc.
    induction H as [|c' v l l' (_ & _ & Ht & _) _ IH]; [destruct G|].
    destruct G as [<-|G]; [unfold mapped; rewrite Ht; reflexivity | exact (IH G)].
  - intros H. apply total_when_mapped. intros c Hc. split.
    + specialize (H c Hc). unfold mapped in H. destruct (lookup (sc_dtype c) code_dtype_map); discriminate.
    + apply roles_mapped.
Qed.

(* regression witness: before the repair an unmapped data type of the installed pysdmx escaped as a raw KeyError *)
Theorem C27_mapping_total_or_rejected_before_fix : exists dt r, In dt pysdmx_dtypes /\
  before_fix_to_vtl_json [mkS "C1" r dt] = RawKeyErr dt /\ engine_to_vtl_json [mkS "C1" r dt] = InputValidation /\
  assoc_single (dt, r) singles_tab = Some InputValidation.
Proof. exists "GeospatialInformation", Measure. split; [vm_compute; tauto|]. repeat split; vm_compute; reflexivity. Qed.

(* the unmapped data types of the installed pysdmx are exactly the rows of the real function's table that are rejected *)
Theorem C27_unmapped_iff_table_rejection : forall dt r, In dt pysdmx_dtypes ->
  (mapped dt = false <-> assoc_single (dt, r) singles_tab = Some InputValidation).
Proof.
  intros dt r Hd. rewrite (C27_model_is_code dt r Hd).
  assert (S : forallb (fun dt => forallb (fun r => Bool.eqb (negb (mapped dt))
             (match engine_to_vtl_json [mkS "C1" r dt] with InputValidation => true | _ => false end)) all_roles) pysdmx_dtypes = true)
    by (vm_compute; reflexivity).
  pose proof (forallb_In _ _ (forallb_In _ _ S dt Hd) r (all_roles_complete r)) as B. apply Bool.eqb_prop in B.
  destruct (engine_to_vtl_json [mkS "C1" r dt]) eqn:E; destruct (mapped dt); simpl in B; try discriminate;
    split; intros H; try discriminate; try reflexivity.
Qed.

(* ---------------------------------------------------------------- the mapping is the documented one *)
Definition all_type_names : list string := pysdmx_dtypes ++ map fst code_dtype_map ++ map fst doc_dtype_map.

Theorem C27_mapping_matches_doc :
  (forall dt, In dt all_type_names -> lookup dt code_dtype_map = lookup dt doc_dtype_map) /\
  (forall r, lookup_role (role_name r) doc_role_table =
             match lookup (role_name r) code_role_map with Some v => Some (v, negb (is_dim r)) | None => None end).
Proof.
  split.
  - intros dt H. apply ostring_eqb_eq.
    exact (forallb_In (fun dt => ostring_eqb (lookup dt code_dtype_map) (lookup dt doc_dtype_map)) all_type_names
             ltac:(vm_compute; reflexivity) dt H).
  - destruct r; vm_compute; reflexivity.
Qed.

(* ... for ALL component lists: every component of a converted structure carries the documented type, role and nullability *)
Theorem C27_components_as_documented : forall cs vs, engine_to_vtl_json cs = Converted vs ->
  Forall2 (fun c v => In c cs /\ vc_name v = sc_id c /\
                      (In (sc_dtype c) all_type_names -> lookup (sc_dtype c) doc_dtype_map = Some (vc_type v)) /\
                      lookup_role (role_name (sc_role c)) doc_role_table = Some (vc_role v, vc_nullable v)) (grouped cs) vs.
Proof.
  intros cs vs H. apply components_faithful in H; [|intros; discriminate].
  eapply Forall2_weaken; [|exact H]. intros c v (Hin & Hn & Ht & Hr & Hnull). split; [exact Hin|]. split; [exact Hn|]. split.
  - intros Ha. rewrite <- (proj1 C27_mapping_matches_doc _ Ha). exact Ht.
  - rewrite (proj2 C27_mapping_matches_doc). rewrite Hr, Hnull. reflexivity.
Qed.

(* ---------------------------------------------------------------- one component each; only dimensions non-nullable *)
Theorem C27_one_component_each : forall cs vs, engine_to_vtl_json cs = Converted vs ->
  Permutation (map sc_id cs) (map vc_name vs) /\ length vs = length cs.
Proof. intros cs vs H. apply one_component_each with (dmap := code_dtype_map) (rmap := code_role_map) (u := fun _ => InputValidation); [intros; discriminate | exact H]. Qed.

Lemma role_map_values : forall r, lookup (role_name r) code_role_map =
  Some (match r with Dimension => "Identifier" | Measure => "Measure" | Attribute => "Attribute" end).
Proof. destruct r; vm_compute; reflexivity. Qed.

Theorem C27_only_dimensions_non_nullable : forall cs vs, engine_to_vtl_json cs = Converted vs ->
  Forall2 (fun c v => vc_nullable v = negb (is_dim (sc_role c))) (grouped cs) vs /\
  (forall v, In v vs -> (vc_nullable v = false <-> vc_role v = "Identifier")).
Proof.
  intros cs vs H. apply components_faithful in H; [|intros; discriminate]. split.
  - eapply Forall2_weaken; [|exact H]. intros c v (_ & _ & _ & _ & Hn). exact Hn.
  - intros v Hv. clear -H Hv. induction H as [|c v' l l' (_ & _ & _ & Hr & Hn) _ IH]; [destruct Hv|].
    destruct Hv as [<-|Hv]; [|exact (IH Hv)].
    rewrite Hn. pose proof (role_map_values (sc_role c)) as E. rewrite E in Hr. injection Hr as <-.
    destruct (sc_role c); simpl; split; intros; try discriminate; reflexivity.
Qed.

(* non-vacuity: a five-component structure over all roles is converted (dimensions first), an unmapped type is not *)
Example C27_nonvacuous :
  engine_to_vtl_json [mkS "A" Attribute "String"; mkS "M" Measure "Double"; mkS "D1" Dimension "Integer";
                      mkS "T" Dimension "ObservationalTimePeriod"; mkS "M2" Measure "TimeRange"] =
  Converted [mkV "D1" "Identifier" "Integer" false; mkV "T" "Identifier" "Time_Period" false; mkV "M" "Measure" "Number" true;
             mkV "M2" "Measure" "Time" true; mkV "A" "Attribute" "String" true] /\
  engine_to_vtl_json [mkS "D1" Dimension "Integer"; mkS "X" Measure "XHTML"] = InputValidation /\
  before_fix_to_vtl_json [mkS "D1" Dimension "Integer"; mkS "X" Measure "XHTML"] = RawKeyErr "XHTML".
Proof. vm_compute. repeat split. Qed.

Print Assumptions C27_role_enum_is_modelled.
Print Assumptions C27_model_is_code.
Print Assumptions C27_mapping_total_or_rejected.
Print Assumptions C27_converted_iff_all_mapped.
Print Assumptions C27_mapping_total_or_rejected_before_fix.
Print Assumptions C27_unmapped_iff_table_rejection.
Print Assumptions C27_mapping_matches_doc.
Print Assumptions C27_components_as_documented.
Print Assumptions C27_one_component_each.
Print Assumptions C27_only_dimensions_non_nullable.
