(* C01 — element-wise operators compute VTL values over matched datapoints.
   Statements over Model/Scalar.v (value level) and Model/Expr.v (dataset level); the engine is tied to these functions
   by the correspondence check (harness/props/c01.py evaluates `run_script` on the very scripts the engine ran). *)
From Coq Require Import ZArith QArith String List Bool Permutation.
Import ListNotations.
From VTL Require Import Base.Val Model.Table Model.Scalar Model.Expr Proofs.TableP Proofs.MonadP Proofs.ExprP.

(* dataset ∘ dataset: operands are matched on their common identifiers, the operator is applied per measure, and the
   result holds exactly the matched datapoints (full functional statement, any number of datapoints/components) *)
Theorem C01_binop_matches : forall op a b res,
  subset_s (d_ids b) (d_ids a) = true -> uniq_keys (d_rows b) = true ->
  d_binop op a b = Ok res ->
  d_ids res = d_ids a /\ d_ms res = d_ms a /\
  forall r, In r (d_rows res) <->
    exists ra rb k ms, In ra (d_rows a) /\ In rb (d_rows b) /\
      proj_key (d_ids a) (fst ra) (d_ids b) = Some k /\ key_eqb k (fst rb) = true /\
      pair_measures op (d_ms a) (snd ra) (d_ms b) (snd rb) = Ok ms /\ r = (fst ra, ms).
Proof. exact d_binop_matches_left. Qed.

(* datapoints whose identifiers have no partner are absent from the result *)
Theorem C01_unmatched_absent : forall op a b res ra k,
  subset_s (d_ids b) (d_ids a) = true -> uniq_keys (d_rows b) = true -> uniq_keys (d_rows a) = true ->
  d_binop op a b = Ok res -> In ra (d_rows a) ->
  proj_key (d_ids a) (fst ra) (d_ids b) = Some k -> has_key k (d_rows b) = false ->
  has_key (fst ra) (d_rows res) = false.
Proof. exact d_binop_unmatched_absent. Qed.

(* an operation VTL defines as an error on some matched pair (division by zero) makes run() fail: never a value *)
Theorem C01_error_not_value : forall op a b ra rb k c,
  subset_s (d_ids b) (d_ids a) = true -> uniq_keys (d_rows b) = true ->
  In ra (d_rows a) -> In rb (d_rows b) ->
  proj_key (d_ids a) (fst ra) (d_ids b) = Some k -> key_eqb k (fst rb) = true ->
  pair_measures op (d_ms a) (snd ra) (d_ms b) (snd rb) = Err c ->
  forall res, d_binop op a b <> Ok res.
Proof. exact d_binop_error_if_pair_fails. Qed.
Theorem C01_div_zero_is_error : forall a, (exists z, a = VInt z) \/ (exists q, a = VNum q) \/ a = VNull ->
  arith Div a (VInt 0) = Err ERR_DIV0 /\ forall q, q_is_zero q = true -> arith Div a (VNum q) = Err ERR_DIV0.
Proof. exact div_zero_is_error. Qed.

(* one-operand / dataset∘scalar / parameterised operators: applied to every measure of every datapoint, identifiers kept *)
Theorem C01_map_spec : forall d body d',
  d_map d body = Ok d' ->
  d_ids d' = d_ids d /\ d_ms d' = d_ms d /\
  Forall2 (fun r r' => fst r' = fst r /\ Forall2 (fun v v' => ceval [(HOLE, v)] body = Ok v') (snd r) (snd r'))
          (d_rows d) (d_rows d').
Proof. exact d_map_spec. Qed.

(* NESTING.  An operator used as an operand of another operator (any context of the core language: dataset∘dataset operators
   on either side, set operators, element-wise operators, clauses, at any depth) contributes exactly its own result — with
   ALL the identifiers C01_binop_matches gives it: the one-statement form equals the script that computes the operand first *)
Theorem C01_nested_operand_is_its_result : forall k e x r n,
  deval e x = Ok r -> ~ In n (kvars k) -> deval e (plug k x) = deval ((n, r) :: e) (plug k (DVar n)).
Proof. exact deval_plug_let. Qed.
Theorem C01_nested_statement_is_flat_script : forall k e x r n out,
  deval e x = Ok r -> ~ In n (kvars k) -> n <> out ->
  run_script e [(out, plug k x)] out = run_script e [(n, x); (out, plug k (DVar n))] out.
Proof. exact nested_is_flat. Qed.

(* null propagates through the strict operators *)
Theorem C01_null_propagates :
  (forall op v, (exists z, v = VInt z) \/ (exists q, v = VNum q) \/ v = VNull -> arith op v VNull = Ok VNull) /\
  (forall op v, (exists z, v = VInt z) \/ (exists q, v = VNum q) \/ v = VNull -> op <> Div -> arith op VNull v = Ok VNull) /\
  (forall op v, In op [Eq; Neq; Gt; Ge; Lt; Le] -> compare_op op VNull v = Ok VNull /\ compare_op op v VNull = Ok VNull) /\
  (forall v, concat_op VNull v = Ok VNull /\ concat_op v VNull = Ok VNull) /\
  (forall a lo hi, is_null a = true \/ is_null lo = true \/ is_null hi = true -> between_val a lo hi = Ok VNull).
Proof.
  split; [exact arith_null_r|]. split; [exact arith_null_l|].
  split; [intros op v H; split; [apply compare_null_l | apply compare_null_r]; exact H|].
  split; [exact concat_null | exact between_null].
Qed.

(* boolean operators follow three-valued logic (complete truth tables), and the engine's XOR template is Kleene xor *)
Theorem C01_kleene_and :
  k_and (Some true) (Some true) = Some true /\ k_and (Some true) (Some false) = Some false /\ k_and (Some true) None = None /\
  k_and (Some false) (Some true) = Some false /\ k_and (Some false) (Some false) = Some false /\ k_and (Some false) None = Some false /\
  k_and None (Some true) = None /\ k_and None (Some false) = Some false /\ k_and None None = None.
Proof. exact kleene_and_table. Qed.
Theorem C01_kleene_or :
  k_or (Some true) (Some true) = Some true /\ k_or (Some true) (Some false) = Some true /\ k_or (Some true) None = Some true /\
  k_or (Some false) (Some true) = Some true /\ k_or (Some false) (Some false) = Some false /\ k_or (Some false) None = None /\
  k_or None (Some true) = Some true /\ k_or None (Some false) = None /\ k_or None None = None.
Proof. exact kleene_or_table. Qed.
Theorem C01_kleene_not_xor :
  (k_not (Some true) = Some false /\ k_not (Some false) = Some true /\ k_not None = None) /\
  (forall a, k_xor None a = None /\ k_xor a None = None) /\
  (forall a b, k_or (k_and a (k_not b)) (k_and (k_not a) b) = k_xor a b).
Proof. split; [exact kleene_not_table|]. split; [exact kleene_xor_null | exact xor_template_is_kleene]. Qed.

(* non-vacuity: a concrete matched / unmatched / null / division case *)
Example C01_example :
  let A := mkD ["Id_1"%string] ["Me_1"%string] [([VInt 1], [VInt 6]); ([VInt 2], [VNull]); ([VInt 3], [VInt 1])] in
  let B := mkD ["Id_1"%string] ["Me_1"%string] [([VInt 2], [VInt 5]); ([VInt 1], [VInt 4])] in
  d_binop Div A B = Ok (mkD ["Id_1"%string] ["Me_1"%string] [([VInt 1], [VNum (3 # 2)]); ([VInt 2], [VNull])]) /\
  d_binop Div A (mkD ["Id_1"%string] ["Me_1"%string] [([VInt 1], [VInt 0])]) = Err ERR_DIV0.
Proof. vm_compute. split; reflexivity. Qed.

(* the inner operator's LEFT operand has more identifiers than its right one; several datapoints share Id_1 *)
Example C01_nested_example :
  let D1 := mkD ["Id_1"; "Id_2"]%string ["Me_1"%string]
                [([VInt 1; VStr "A"], [VInt 1]); ([VInt 1; VStr "B"], [VInt 2]); ([VInt 2; VStr "A"], [VInt 3]); ([VInt 3; VStr "A"], [VInt 4])] in
  let D2 := mkD ["Id_1"%string] ["Me_1"%string] [([VInt 1], [VInt 10]); ([VInt 2], [VInt 100]); ([VInt 4], [VInt 1000])] in
  let D3 := mkD ["Id_1"; "Id_2"]%string ["Me_1"%string]
                [([VInt 1; VStr "A"], [VInt 5]); ([VInt 1; VStr "B"], [VInt 7]); ([VInt 2; VStr "A"], [VNull]); ([VInt 2; VStr "C"], [VInt 7])] in
  deval [("DS_1", D1); ("DS_2", D2); ("DS_3", D3)]%string (DBin Add (DBin Mul (DVar "DS_1") (DVar "DS_2")) (DVar "DS_3"))
  = Ok (mkD ["Id_1"; "Id_2"]%string ["Me_1"%string]
            [([VInt 1; VStr "A"], [VInt 15]); ([VInt 1; VStr "B"], [VInt 27]); ([VInt 2; VStr "A"], [VNull])]).
Proof. vm_compute. reflexivity. Qed.

Print Assumptions C01_binop_matches.
Print Assumptions C01_unmatched_absent.
Print Assumptions C01_error_not_value.
Print Assumptions C01_div_zero_is_error.
Print Assumptions C01_map_spec.
Print Assumptions C01_nested_operand_is_its_result.
Print Assumptions C01_nested_statement_is_flat_script.
Print Assumptions C01_null_propagates.
Print Assumptions C01_kleene_and.
Print Assumptions C01_kleene_or.
Print Assumptions C01_kleene_not_xor.
