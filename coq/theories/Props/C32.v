(* C32 — execution failures surface as VTL errors, not raw engine errors.
   Gen.ErrLits (every error('…') literal of the SQL library and of the SQL-building templates with its origin stage, the REAL
   mappers' outputs on each literal / variant / observed DuckDB message, the stage handler flags read from the code) and
   Gen.Errors (the message catalogue) are regenerated from /repo on every run.
   Finite statements are decided by vm_compute over those tables (bound = the tables); escape_closed / run_closed are
   inductive proofs over executions of programs of any size (any number of statements, loads, fetches). *)
From Coq Require Import String List Bool.
Import ListNotations.
From VTL Require Import Model.ErrMap Proofs.ErrMapP Gen.Errors Gen.ErrLits.
Open Scope string_scope.

(* ---- tie, checked by the kernel: the two hand-written decision lists ARE the code's mappers on every dumped message *)
Definition row_ok (r : string * (mres * mres)) : bool :=
  mres_eqb (map_query (fst r)) (fst (snd r)) && mres_eqb (map_load (fst r)) (snd (snd r)).

Theorem C32_model_is_code : forallb row_ok map_table = true.
Proof. vm_compute. reflexivity. Qed.

Theorem C32_model_is_code_pointwise : forall msg q l, In (msg, (q, l)) map_table ->
  mres_eqb (map_query msg) q = true /\ mres_eqb (map_load msg) l = true.
Proof.
  intros msg q l Hin. pose proof (proj1 (forallb_forall _ _) C32_model_is_code _ Hin) as H.
  unfold row_ok in H. cbn [fst snd] in H. apply andb_true_iff in H. exact H.
Qed.

(* ---- the faithful per-stage handler flags are the ones found in the code (where the scan classified the stage) *)
Definition flag_ok (x : stage * option mapper) : bool :=
  match snd x with None => true | Some m => mapper_eqb (stage_mapper_impl (fst x)) m end.

Theorem C32_stage_flags_model_is_code : forallb flag_ok stage_mapper_code = true.
Proof. vm_compute. reflexivity. Qed.

(* ---- every macro error literal, in each stage it can be raised in *)
Definition lit_entry (x : string * stage * string) : stage * string := (snd (fst x), snd x).

(* FAITHFUL (current code): each literal, in every stage it can be raised in, becomes a VTL error with a catalogued code *)
Theorem C32_mapped_macro_errors_impl :
  forall site s msg, In (site, s, msg) macro_lits ->
  exists k c, apply_mapper (stage_mapper_impl s) (RawDB msg) = VTL k c /\ cat_lookup c catalogue <> None.
Proof. apply lits_all_ok. vm_compute. reflexivity. Qed.

(* SPEC (a handler in every stage that executes SQL): the same *)
Theorem C32_mapped_macro_errors_spec :
  forall site s msg, In (site, s, msg) macro_lits ->
  exists k c, apply_mapper (stage_mapper_spec s) (RawDB msg) = VTL k c /\ cat_lookup c catalogue <> None.
Proof. apply lits_all_ok. vm_compute. reflexivity. Qed.

(* REGRESSION WITNESSES, behaviour BEFORE the fix (commit f47d60e): a macro literal raised in a stage that had no handler
   left run() as a raw DuckDB error ... *)
Theorem C32_mapped_macro_errors_before_fix_refuted :
  exists site s msg, In (site, s, msg) macro_lits /\ stage_mapper_before_fix s = NoMap /\
                     apply_mapper (stage_mapper_before_fix s) (RawDB msg) = RawDB msg.
Proof. apply lits_escape. vm_compute. reflexivity. Qed.

(* ... and one raised by statement execution (a handled stage) had no rule in the old mapper *)
Theorem C32_mapped_macro_errors_before_fix_norule_refuted :
  exists site s msg, In (site, s, msg) macro_lits /\ stage_mapper_before_fix s <> NoMap /\
                     is_vtl (apply_mapper (stage_mapper_before_fix s) (RawDB msg)) = false.
Proof. apply lits_norule. vm_compute. reflexivity. Qed.

(* ---- the general theorem: any program of stages, handlers and finally-blocks (unbounded size) *)
Theorem C32_escape_closed :
  forall (R : stage -> exn -> Prop) p, closed R (fun e => e) p ->
  forall e, exec R p (Raise e) -> is_vtl e = true.
Proof. exact escape_closed. Qed.

(* run() with per-stage handlers M over ANY number of statements / loads / fetches: if every stage's raisable set is mapped
   into VTL errors by that stage's handler, run raises only VTL errors *)
Theorem C32_run_closed :
  forall (R : stage -> exn -> Prop) (M : stage -> mapper),
  (forall s e, R s e -> is_vtl (apply_mapper (M s) e) = true) ->
  forall stmts final e, exec R (run_prog M stmts final) (Raise e) -> is_vtl e = true.
Proof. exact run_closed. Qed.

(* FAITHFUL: in every stage that has a handler today (statement execution, the whole fetch path, insert / normalise of the
   loader) ANY DuckDB error message whatsoever becomes a VTL error: the handlers are total *)
Theorem C32_handled_stage_total :
  forall s msg, stage_mapper_impl s <> NoMap -> is_vtl (apply_mapper (stage_mapper_impl s) (RawDB msg)) = true.
Proof. exact handled_stage_total. Qed.

(* FAITHFUL, closed: whatever the stages raise, as long as raw DuckDB errors come only from handled stages (statement
   execution, fetch, save, insert, normalise) and everything else raised is already a VTL error, run() — of any shape —
   raises only VTL errors *)
Theorem C32_run_impl_closed :
  forall (R : stage -> exn -> Prop),
  (forall s e, R s e -> is_vtl e = true \/ exists msg, e = RawDB msg /\ stage_mapper_impl s <> NoMap) ->
  forall stmts final e, exec R (run_prog stage_mapper_impl stmts final) (Raise e) -> is_vtl e = true.
Proof.
  intros R H. apply run_closed. intros s e He. destruct (H s e He) as [Hv | [msg [-> Hs]]].
  - apply apply_mapper_keeps_vtl. exact Hv.
  - apply handled_stage_total. exact Hs.
Qed.

(* raisable sets = everything known to be raisable per stage: the macro literals and the raw DuckDB messages observed *)
Definition raisable_tab : list (stage * string) := map lit_entry macro_lits ++ observed_raw.

(* SPEC pipeline: closed on the whole table, for every run shape *)
Theorem C32_run_spec_closed :
  forall stmts final e, exec (R_of raisable_tab) (run_prog stage_mapper_spec stmts final) (Raise e) -> is_vtl e = true.
Proof.
  apply run_closed. apply table_stage_ok. vm_compute. reflexivity.
Qed.

(* FAITHFUL pipeline, closed on the whole table: nothing known to be raisable (macro literals, every DuckDB message probed or
   observed, in the stage it was observed in) escapes from a run() of any shape *)
Theorem C32_run_impl_closed_on_table :
  forall stmts final e, exec (R_of raisable_tab) (run_prog stage_mapper_impl stmts final) (Raise e) -> is_vtl e = true.
Proof.
  apply run_closed. apply table_stage_ok. vm_compute. reflexivity.
Qed.

(* REGRESSION WITNESS: before the fixes a one-statement run let a table entry escape as a non-VTL error *)
Theorem C32_run_before_fix_escape_execution_refuted :
  exists e, exec (R_of raisable_tab) (run_prog stage_mapper_before_fix one_stmt 0) (Raise e) /\ is_vtl e = false.
Proof.
  assert (H : existsb (fun x => negb (entry_ok stage_mapper_before_fix x)) raisable_tab = true) by (vm_compute; reflexivity).
  apply existsb_exists in H. destruct H as [[s msg] [Hin Hbad]]. apply negb_true_iff in Hbad.
  exact (unmapped_entry_escapes stage_mapper_before_fix raisable_tab s msg Hin Hbad).
Qed.

(* in general: an entry can only escape from a stage without handler (macro installation, load validation queries, cleanup DROPs) *)
Theorem C32_run_impl_escapes_only_unhandled :
  forall s msg, In (s, msg) raisable_tab -> entry_ok stage_mapper_impl (s, msg) = false -> stage_mapper_impl s = NoMap.
Proof.
  intros s msg _ Hbad. destruct (stage_mapper_impl s) eqn:E; try reflexivity;
    exfalso; unfold entry_ok in Hbad; cbn [fst snd] in Hbad;
    rewrite (handled_stage_total s msg) in Hbad; try discriminate; rewrite E; discriminate.
Qed.

(* FAITHFUL pipeline, partial: restricted to the raisable entries its handlers do map, every run shape raises only VTL errors *)
Definition mapped_part : list (stage * string) := filter (entry_ok stage_mapper_impl) raisable_tab.

Theorem C32_run_impl_partial :
  forall stmts final e, exec (R_of mapped_part) (run_prog stage_mapper_impl stmts final) (Raise e) -> is_vtl e = true.
Proof.
  apply run_closed. apply table_stage_ok.
  unfold mapped_part. apply forallb_forall. intros x Hx. apply filter_In in Hx. exact (proj2 Hx).
Qed.

(* REGRESSION WITNESS: before the fix the statement-execution / fetch entries of the table escaped too *)
Theorem C32_run_before_fix_escape_refuted :
  exists s msg, In (s, msg) raisable_tab /\ stage_mapper_impl s <> NoMap /\ entry_ok stage_mapper_before_fix (s, msg) = false.
Proof.
  assert (H : existsb (fun x => negb (mapper_eqb (stage_mapper_impl (fst x)) NoMap) && negb (entry_ok stage_mapper_before_fix x)) raisable_tab = true)
    by (vm_compute; reflexivity).
  apply existsb_exists in H. destruct H as [[s msg] [Hin Hb]]. cbn [fst] in Hb.
  apply andb_true_iff in Hb. destruct Hb as [Hm Hbad]. apply negb_true_iff in Hm, Hbad.
  exists s, msg. split; [exact Hin|]. split; [|exact Hbad]. intros E. rewrite E in Hm. discriminate.
Qed.

(* non-vacuity: there are literals, rows, both mapped and unmapped entries; the hypotheses of run_closed are satisfiable *)
Example C32_nonvacuous :
  Nat.leb 10 (length macro_lits) = true /\ Nat.leb 100 (length map_table) = true /\
  existsb (entry_ok stage_mapper_impl) raisable_tab = true /\
  map_query "Invalid Input Error: VTL 2-1-15-6: Scalar division by Zero" = Mapped KRuntime "2-1-15-6" /\
  map_query "Out of Range Error: Overflow in addition of INT64" = Mapped KRuntime "2-1-1-1" /\
  map_query_before_fix "Out of Range Error: Overflow in addition of INT64" = Unmapped /\
  exec (R_of raisable_tab) (run_prog stage_mapper_spec one_stmt 0) Done.
Proof.
  repeat split; try (vm_compute; reflexivity).
  unfold run_prog, one_stmt.
  assert (Hd : forall s', exec (R_of raisable_tab) (stg stage_mapper_spec s') Done) by (intros; apply exec_stg_done).
  eapply ExSeqOk; [apply Hd|]. eapply ExSeqOk; [|apply Hd].
  eapply ExFinOk; [|constructor]. eapply ExSeqOk; [apply Hd|]. eapply ExSeqOk; [|constructor].
  cbn [stmts_prog]. eapply ExSeqOk; [|constructor]. unfold stmt_prog. cbn [n_loads n_fetch n_drop].
  eapply ExSeqOk.
  { apply exec_times_done. unfold load_one. repeat (eapply ExSeqOk; [apply Hd|]). apply Hd. }
  eapply ExSeqOk; [apply Hd|]. eapply ExSeqOk; [|constructor].
  apply exec_times_done. unfold fetch_one. repeat (eapply ExSeqOk; [apply Hd|]). apply Hd.
Qed.

Print Assumptions C32_model_is_code.
Print Assumptions C32_model_is_code_pointwise.
Print Assumptions C32_stage_flags_model_is_code.
Print Assumptions C32_mapped_macro_errors_impl.
Print Assumptions C32_mapped_macro_errors_spec.
Print Assumptions C32_mapped_macro_errors_before_fix_refuted.
Print Assumptions C32_mapped_macro_errors_before_fix_norule_refuted.
Print Assumptions C32_escape_closed.
Print Assumptions C32_run_closed.
Print Assumptions C32_handled_stage_total.
Print Assumptions C32_run_impl_closed.
Print Assumptions C32_run_spec_closed.
Print Assumptions C32_run_impl_closed_on_table.
Print Assumptions C32_run_before_fix_escape_execution_refuted.
Print Assumptions C32_run_impl_escapes_only_unhandled.
Print Assumptions C32_run_impl_partial.
Print Assumptions C32_run_before_fix_escape_refuted.
