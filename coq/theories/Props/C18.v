(* C18 — CSV, DataFrame (strings / native dtypes) and Parquet inputs with the same content behave identically.
   accept_csv / accept_df_str / accept_df_native / accept_parquet (Model/Loader.v) are the faithful acceptors of one cell through
   run('DS_r <- DS_1;'); they are tied to the engine on every run (K, harness/props/c18.py).
   The full statement is FALSE on the faithful model: the witnesses below replay on the engine (they are the findings); the
   strongest true statement is kept beside them on the decidable sub-domain agree18 (all strings, no bound). *)
From Coq Require Import ZArith Ascii String List Bool.
Import ListNotations.
From VTL Require Import Base.Calendar Model.Types Model.Regex Gen.Regex Model.Loader Proofs.LoaderP.
Open Scope Z_scope.

Definition loaders_agree : Prop :=
  forall t r, accept_csv t r = accept_df_str t r /\ accept_df_str t r = accept_parquet t r.

(* --- refutations (each witness is a concrete cell; vm_compute) *)
Theorem C18_refuted_integer_fractional :
  accept_csv TInteger (RStr (s_ "1.5")) = Rej E6 /\ accept_df_str TInteger (RStr (s_ "1.5")) = Acc (SInt 2)
  /\ accept_parquet TInteger (RStr (s_ "1.5")) = Acc (SInt 2).
Proof. vm_compute. auto. Qed.
Theorem C18_loaders_agree_refuted : ~ loaders_agree.
Proof. intro H. destruct (H TInteger (RStr (s_ "1.5"))) as [E _]. vm_compute in E. discriminate. Qed.
Theorem C18_refuted_integer_hex :
  accept_csv TInteger (RStr (s_ "0x1A")) = Rej E6 /\ accept_df_str TInteger (RStr (s_ "0x1A")) = Acc (SInt 26).
Proof. vm_compute. auto. Qed.
Theorem C18_refuted_integer_above_2_53 :
  accept_csv TInteger (RStr (s_ "9007199254740993")) = Acc (SInt 9007199254740992) /\
  accept_df_str TInteger (RStr (s_ "9007199254740993")) = Acc (SInt 9007199254740993).
Proof. vm_compute. auto. Qed.
Theorem C18_refuted_integer_int64_max :
  accept_csv TInteger (RStr (s_ "9223372036854775807")) = Rej E6 /\
  accept_df_str TInteger (RStr (s_ "9223372036854775807")) = Acc (SInt 9223372036854775807).
Proof. vm_compute. auto. Qed.
Theorem C18_refuted_string_embedded_quote :
  accept_csv TString (RStr (s_ "a""b")) = Acc (SStr (s_ "ab")) /\ accept_df_str TString (RStr (s_ "a""b")) = Acc (SStr (s_ "a""b")).
Proof. vm_compute. auto. Qed.
Theorem C18_refuted_boolean_embedded_quote :
  accept_csv TBoolean (RStr (s_ "tr""ue")) = Acc (SBool true) /\ accept_df_str TBoolean (RStr (s_ "tr""ue")) = Rej E6.
Proof. vm_compute. auto. Qed.
Theorem C18_refuted_date_time_dropped_by_parquet :
  accept_csv TDate (RStr (s_ "2020-01-15 10:30:00")) = Acc (STs 18276 37800000000) /\
  accept_df_str TDate (RStr (s_ "2020-01-15 10:30:00")) = Acc (STs 18276 37800000000) /\
  accept_parquet TDate (RStr (s_ "2020-01-15 10:30:00")) = Acc (STs 18276 0).
Proof. vm_compute. auto. Qed.
Theorem C18_refuted_date_one_digit_month_time_dropped_by_dataframe :
  accept_csv TDate (RStr (s_ "2020-1-5 10:30:00")) = Acc (STs 18266 37800000000) /\
  accept_df_str TDate (RStr (s_ "2020-1-5 10:30:00")) = Acc (STs 18266 0).
Proof. vm_compute. auto. Qed.
Theorem C18_refuted_native_datetime_time_dropped :
  accept_df_native TDate (RTs 18276 37800000000) = Acc (STs 18276 0) /\
  accept_csv TDate (RStr (s_ "2020-01-15 10:30:00")) = Acc (STs 18276 37800000000).
Proof. vm_compute. auto. Qed.
Theorem C18_refuted_native_float_half_to_even :
  accept_df_native TInteger (RFlt 25 (-1)) = Acc (SInt 2) /\ accept_df_str TInteger (RStr (s_ "2.5")) = Acc (SInt 3)
  /\ accept_csv TInteger (RStr (s_ "2.5")) = Rej E6.
Proof. vm_compute. auto. Qed.
Theorem C18_refuted_empty_dataframe_missing_identifier :
  let st := [mkComp "Id_1" TInteger true false; mkComp "Me_1" TNumber false true] in
  let tb := mkTable ["Me_1"%string] [] in
  load_run PDfStr st tb = TAcc [] /\ load_run PCsv st tb = TRej E118.
Proof. exact empty_dataframe_missing_identifier_accepted. Qed.

(* the Integer defect for ALL literals: every fractional decimal literal (inside int64 after rounding) is loaded, rounded half away
   from zero, by the DataFrame and Parquet paths, and refused by the CSV path *)
Theorem C18_every_fractional_integer_literal_splits_the_forms : forall s m e,
  lex_radix (strip_c s) = None -> lex_dec (strip_c s) = Some (m, e) -> dec_integral m e = false ->
  in_int64 (round_half_away m e) = true -> s <> [] ->
  accept_df_str TInteger (RStr s) = Acc (SInt (round_half_away m e)) /\
  accept_parquet TInteger (RStr s) = Acc (SInt (round_half_away m e)) /\
  accept_csv TInteger (RStr s) = Rej E6.
Proof. exact integer_fraction_rounded_by_dataframe_refused_by_csv. Qed.

(* --- the strongest true statement: on agree18 (decidable; every string) the three text forms give the same outcome *)
Theorem C18_loaders_agree_partial : forall t s, agree18 t s = true ->
  accept_csv t (RStr s) = accept_df_str t (RStr s) /\ accept_df_str t (RStr s) = accept_parquet t (RStr s).
Proof. exact loaders_agree_partial. Qed.
Theorem C18_loaders_agree_csv_dataframe_partial : forall t s, agree18_csv_df t s = true ->
  accept_csv t (RStr s) = accept_df_str t (RStr s).
Proof. exact loaders_agree_csv_df_partial. Qed.
Theorem C18_loaders_agree_on_null : forall t,
  accept_csv t RNull = Acc SNull /\ accept_df_str t RNull = Acc SNull /\ accept_df_native t RNull = Acc SNull /\ accept_parquet t RNull = Acc SNull.
Proof. exact loaders_agree_null. Qed.
(* after the INSERT the pipeline is shared: duplicates/DWI are judged on the stored rows whatever the form was *)
Theorem C18_structural_stage_is_form_independent : forall st vb,
  structural_stage st vb = None <->
  ((ids st = [] -> (length vb <= 1)%nat) /\ (ids st <> [] -> ~ dup_pair (map (key_of st) vb))).
Proof. exact structural_stage_spec. Qed.

(* the hypotheses are satisfiable: members of the agreeing sub-domain for every type *)
Example C18_partial_domain_inhabited :
  agree18 TInteger (s_ "42") = true /\ agree18 TInteger (s_ "1e3") = true /\ agree18 TNumber (s_ "3.14") = true /\
  agree18 TBoolean (s_ "TRUE") = true /\ agree18 TString (s_ "a,b") = true /\ agree18 TDate (s_ "2020-01-15") = true /\
  agree18 TTime (s_ "2020-01-01/2020-12-31") = true /\ agree18 TPeriod (s_ "2020-Q1") = true /\ agree18 TDuration (s_ "M") = true /\
  agree18_csv_df TDate (s_ "2020-01-15T10:30:00") = true /\ agree18 TInteger (s_ "1.5") = false /\ agree18 TString (s_ "a""b") = false.
Proof. vm_compute. repeat split; reflexivity. Qed.

Print Assumptions C18_loaders_agree_refuted.
Print Assumptions C18_every_fractional_integer_literal_splits_the_forms.
Print Assumptions C18_loaders_agree_partial.
Print Assumptions C18_loaders_agree_csv_dataframe_partial.
Print Assumptions C18_structural_stage_is_form_independent.
Print Assumptions C18_refuted_date_time_dropped_by_parquet.
