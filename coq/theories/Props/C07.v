(* C07 — validation and hierarchy operators report exactly the failing datapoints.
   Statements over Model/Validation.v (list functions over Model/Expr.dset), unbounded in datapoints, rules and groups.
   `d_check`, `d_hierarchy` follow the VTL manual; `d_check_impl`, `d_hierarchy_impl` are the engine (…_refuted with a witness
   and …_partial with the hypothesis under which the engine variant meets the statement, where it differs);
   `d_check_before_fix` is the engine before the repair of the imbalance join, kept as a regression witness. *)
From Coq Require Import ZArith QArith String List Bool Permutation.
Import ListNotations.
From VTL Require Import Base.Val Model.Table Model.Scalar Model.Expr Model.Validation
  Proofs.TableP Proofs.MonadP Proofs.ExprP Proofs.ValidationP.
Open Scope string_scope.
Open Scope list_scope.

(* ================================================================= check *)
(* invalid: a datapoint is in the result iff it is in the Boolean operand with value FALSE; it carries the rule's errorcode
   and errorlevel and the imbalance value of its key *)
Theorem C07_check_invalid_exact : forall op imb ec el res,
  d_check op imb ec el true = Ok res ->
  forall x, In x (d_rows res) <->
    exists r, In r (d_rows op) /\ first_val (snd r) = VBool false /\
              x = (fst r, [VBool false; imbv imb (fst r); ec; el]).
Proof. exact check_invalid_exact. Qed.

(* all: every datapoint of the operand appears once, in order, with its Boolean outcome (TRUE, FALSE or null) *)
Theorem C07_check_all_complete : forall op imb ec el res,
  d_check op imb ec el false = Ok res ->
  d_rows res = map (fun r => check_row ec el (fst r) (first_val (snd r)) (imbv imb (fst r))) (d_rows op).
Proof. exact check_all_complete. Qed.

Theorem C07_check_invalid_is_false_part_of_all : forall ku op imb ec el r1 r2,
  d_check_gen ku op imb ec el true = Ok r1 -> d_check_gen ku op imb ec el false = Ok r2 ->
  d_rows r1 = filter (fun x => is_false (first_val (snd x))) (d_rows r2).
Proof. exact check_invalid_is_filter_of_all. Qed.

(* errorcode and errorlevel are set exactly where the outcome is FALSE (both variants, both outputs) *)
Theorem C07_check_errorcode_iff_false : forall ku op imb ec el inv res x,
  d_check_gen ku op imb ec el inv = Ok res -> In x (d_rows res) ->
  exists r i, In r (d_rows op) /\
    x = (fst r, [first_val (snd r); i; err_if_false (first_val (snd r)) ec; err_if_false (first_val (snd r)) el]).
Proof. exact check_row_shape. Qed.
Theorem C07_errorcode_iff_false : forall b e, e <> VNull -> (err_if_false b e <> VNull <-> b = VBool false).
Proof. exact err_if_false_iff. Qed.

(* imbalance = left - right for check(A cmp B imbalance A - B) *)
Theorem C07_check_imbalance_is_diff : forall cmp a b o i ec el inv res m,
  d_ms a = [m] -> d_ms b = [m] ->
  subset_s (d_ids b) (d_ids a) = true -> uniq_keys (d_rows a) = true -> uniq_keys (d_rows b) = true ->
  (forall r, In r (d_rows a) -> exists x, snd r = [x]) -> (forall r, In r (d_rows b) -> exists y, snd r = [y]) ->
  d_binop cmp a b = Ok o -> d_binop Sub a b = Ok i ->
  d_check o (Some i) ec el inv = Ok res ->
  forall r, In r (d_rows res) ->
    exists ra rb k x y bv iv, In ra (d_rows a) /\ In rb (d_rows b) /\ fst r = fst ra /\
      proj_key (d_ids a) (fst ra) (d_ids b) = Some k /\ key_eqb k (fst rb) = true /\
      snd ra = [x] /\ snd rb = [y] /\
      binop_val cmp x y = Ok bv /\ binop_val Sub x y = Ok iv /\
      snd r = [bv; iv; err_if_false bv ec; err_if_false bv el].
Proof. exact check_imbalance_is_diff. Qed.

(* the engine follows the manual (since the repair: LEFT JOIN with the imbalance operand), so every statement above holds for it *)
Theorem C07_check_impl_eq_spec : forall op imb ec el inv, d_check_impl op imb ec el inv = d_check op imb ec el inv.
Proof. exact check_impl_eq_spec. Qed.
(* regression witness — the engine before the repair (inner join): the statements above failed … *)
Theorem C07_check_before_fix_invalid_exact_refuted :
  exists op imb ec el res r,
    d_check_before_fix op (Some imb) ec el true = Ok res /\ In r (d_rows op) /\ snd r = [VBool false] /\
    has_key (fst r) (d_rows res) = false.
Proof.
  exists (mkD ["Id_1"] ["bool_var"] [([VInt 1], [VBool false]); ([VInt 4], [VBool false])]),
         (mkD ["Id_1"] ["Me_1"] [([VInt 1], [VInt 2])]), (VStr "x"), VNull.
  eexists. exists ([VInt 4], [VBool false]). vm_compute. repeat split; auto.
Qed.
(* … and held only when every datapoint of the operand has a partner in the imbalance operand *)
Theorem C07_check_before_fix_partial : forall op imb ec el inv,
  (forall r, In r (d_rows op) -> imb_of imb (fst r) <> None) ->
  d_check_before_fix op imb ec el inv = d_check op imb ec el inv.
Proof. exact check_before_fix_eq_spec. Qed.

(* ================================================================= check_datapoint *)
(* a rule fails on a datapoint iff its antecedent (when present) is TRUE and its condition is FALSE *)
Theorem C07_rule_fails_iff : forall sig d rl r,
  rule_outcome sig d rl r = Ok (VBool false) <->
  exists e, sig_env sig (row_env d r) = Ok e /\ ceval e (r_then rl) = Ok (VBool false) /\
            match r_when rl with None => True | Some wc => ceval e wc = Ok (VBool true) end.
Proof. exact rule_fails_iff. Qed.

(* invalid: (datapoint, rule) is in the result iff the rule fails on the datapoint; measures, errorcode, errorlevel attached *)
Theorem C07_dp_invalid_exact : forall d sig rules res,
  d_check_datapoint d sig rules OInvalid = Ok res ->
  forall x, In x (d_rows res) <->
    exists rl r, In rl rules /\ In r (d_rows d) /\ rule_outcome sig d rl r = Ok (VBool false) /\
                 x = (fst r ++ [VStr (r_name rl)], snd r ++ [r_ec rl; r_el rl]).
Proof. exact dp_invalid_exact. Qed.

(* all: every datapoint x rule appears with its outcome, and nothing else; |result| = |rules| * |datapoints| *)
Theorem C07_dp_all_complete : forall d sig rules res,
  d_check_datapoint d sig rules OAll = Ok res ->
  (forall rl r, In rl rules -> In r (d_rows d) -> exists b, rule_outcome sig d rl r = Ok b /\
     In (fst r ++ [VStr (r_name rl)], [b; err_if_false b (r_ec rl); err_if_false b (r_el rl)]) (d_rows res)) /\
  (forall x, In x (d_rows res) ->
     exists rl r b, In rl rules /\ In r (d_rows d) /\ rule_outcome sig d rl r = Ok b /\
       x = (fst r ++ [VStr (r_name rl)], [b; err_if_false b (r_ec rl); err_if_false b (r_el rl)])).
Proof. exact dp_all_complete. Qed.
Theorem C07_dp_all_count : forall d sig rules o res,
  o <> OInvalid -> d_check_datapoint d sig rules o = Ok res ->
  List.length (d_rows res) = (List.length rules * List.length (d_rows d))%nat.
Proof. exact dp_all_count. Qed.

(* every output mode at once (all_measures included): the rows are exactly those of the evaluated (rule, datapoint) pairs *)
Theorem C07_dp_any_output : forall d sig rules o res,
  d_check_datapoint d sig rules o = Ok res ->
  d_ids res = d_ids d ++ ["ruleid"] /\ d_ms res = dp_ms (d_ms d) o /\
  (forall rl r, In rl rules -> In r (d_rows d) -> exists b, rule_outcome sig d rl r = Ok b) /\
  forall x, In x (d_rows res) <->
    exists rl r b, In rl rules /\ In r (d_rows d) /\ rule_outcome sig d rl r = Ok b /\ In x (dp_row o rl r b).
Proof. exact dp_spec. Qed.

Theorem C07_dp_invalid_is_false_part_of_all : forall d sig rules r1 r2,
  d_check_datapoint d sig rules OInvalid = Ok r1 -> d_check_datapoint d sig rules OAll = Ok r2 ->
  forall k, (exists m, In (k, m) (d_rows r1)) <-> (exists e l, In (k, [VBool false; e; l]) (d_rows r2)).
Proof. exact dp_invalid_is_all_false. Qed.

(* ================================================================= check_hierarchy (all six modes: `chk_applicable m`) *)
Theorem C07_check_hierarchy_exact : forall d rules m o res,
  d_check_hierarchy d rules m o = Ok res ->
  exists me pts, d_ms d = [me] /\ hpoints d = Ok pts /\
    d_ids res = d_ids d ++ ["ruleid"] /\ d_ms res = chk_ms me o /\
    forall x, In x (d_rows res) <->
      exists rl g, In rl rules /\ In g (group_keys pts) /\ In x (chk_row m o g (group_state g pts) rl).
Proof. exact d_check_hierarchy_spec. Qed.
(* invalid: the code item of a rule is reported for a group iff the rule applies there (mode) and evaluates to FALSE;
   imbalance = left - right *)
Theorem C07_check_hierarchy_invalid_row : forall m g st rl x,
  In x (chk_row m CInvalid g st rl) <->
  chk_applicable m st rl = true /\ cmpv (h_cmp rl) (item_val m st (h_left rl)) (heval m st (h_right rl)) = VBool false /\
  x = (g ++ [VStr (h_left rl); VStr (h_name rl)],
       [item_val m st (h_left rl); ar Sub (item_val m st (h_left rl)) (heval m st (h_right rl)); h_ec rl; h_el rl]).
Proof. exact chk_row_invalid. Qed.
Theorem C07_check_hierarchy_all_row : forall m g st rl x,
  In x (chk_row m CAll g st rl) <->
  chk_applicable m st rl = true /\
  x = (g ++ [VStr (h_left rl); VStr (h_name rl)],
       [chk_bool m st rl; chk_imbalance m st rl;
        err_if_false (chk_bool m st rl) (h_ec rl); err_if_false (chk_bool m st rl) (h_el rl)]).
Proof. exact chk_row_all. Qed.
Theorem C07_check_hierarchy_all_measures_row : forall m g st rl x,
  In x (chk_row m CAllMeasures g st rl) <->
  chk_applicable m st rl = true /\
  x = (g ++ [VStr (h_left rl); VStr (h_name rl)],
       [item_val m st (h_left rl); chk_bool m st rl; chk_imbalance m st rl;
        err_if_false (chk_bool m st rl) (h_ec rl); err_if_false (chk_bool m st rl) (h_el rl)]).
Proof. exact chk_row_all_measures. Qed.
(* the modes *)
Theorem C07_mode_non_null : forall st rl,
  chk_applicable NonNull st rl = true <->
  forall c, In c (h_left rl :: hitems (h_right rl)) -> exists v, elook c st = Some v /\ v <> VNull.
Proof. exact applicable_non_null. Qed.
Theorem C07_mode_non_zero : forall st rl,
  chk_applicable NonZero st rl = true <->
  ~ (is_zero (item_val NonZero st (h_left rl)) = true /\ is_zero (heval NonZero st (h_right rl)) = true).
Proof. exact applicable_non_zero. Qed.
Theorem C07_mode_partial : forall m st rl, m = PartialNull \/ m = PartialZero ->
  (chk_applicable m st rl = true <->
   exists c v, In c (h_left rl :: hitems (h_right rl)) /\ elook c st = Some v /\ v <> VNull).
Proof. exact applicable_partial. Qed.
Theorem C07_mode_always : forall m st rl, m = AlwaysNull \/ m = AlwaysZero ->
  (chk_applicable m st rl = true <-> exists c v, In c (h_left rl :: hitems (h_right rl)) /\ elook c st = Some v).
Proof. exact applicable_always. Qed.
(* the pivot: every datapoint lies in exactly one group; a group's state holds exactly its datapoints *)
Theorem C07_pivot_groups : forall pts,
  (forall p, In p pts -> exists g, In g (group_keys pts) /\ key_eqb g (fst (fst p)) = true) /\
  (forall g, In g (group_keys pts) -> exists p, In p pts /\ fst (fst p) = g) /\
  ForallOrdPairs (fun a b => key_eqb a b = false) (group_keys pts) /\
  (forall g c v, In (c, v) (group_state g pts) <-> exists gp, In (gp, c, v) pts /\ key_eqb g gp = true).
Proof.
  intros pts. split; [intros p; apply group_keys_complete|]. split; [intros g; apply group_keys_sound|].
  split; [apply group_keys_distinct | intros g c v; apply group_state_spec].
Qed.

(* ================================================================= hierarchy *)
(* each computed item = its rule's expression over the state left by the rules evaluated before it (per group) *)
Theorem C07_hierarchy_value : forall m im chain st0 rules st c v,
  In (c, v) (snd (hier_group m im chain st0 st rules)) <->
  exists pre rl post, rules = pre ++ rl :: post /\ c = h_left rl /\
    hier_applicable m (hier_src chain st0 (fst (hier_group m im chain st0 st pre))) rl = true /\
    v = heval m (hier_src chain st0 (fst (hier_group m im chain st0 st pre))) (h_right rl) /\
    hier_emit m v = true.
Proof. exact hier_group_value. Qed.
(* … where a computed value replaces the item for the following rules (rule), or only when it is not null (rule_priority) *)
Theorem C07_hierarchy_state_step : forall m im chain st0 st rl c',
  elook c' (hier_step m im chain st0 st rl) =
  if hier_applicable m (hier_src chain st0 st) rl && String.eqb c' (h_left rl) then
    let v := heval m (hier_src chain st0 st) (h_right rl) in
    match im with
    | IRulePriority => if is_null v then (match elook (h_left rl) st with Some x => Some x | None => Some VNull end) else Some v
    | _ => Some v
    end
  else elook c' st.
Proof. exact hier_step_lookup. Qed.
Theorem C07_hierarchy_state_fold : forall m im chain st0 st rl t,
  hier_group m im chain st0 st (rl :: t) =
  (fst (hier_group m im chain st0 (hier_step m im chain st0 st rl) t),
   hier_out m chain st0 st rl ++ snd (hier_group m im chain st0 (hier_step m im chain st0 st rl) t)).
Proof. exact hier_group_cons. Qed.
(* dataset level: the result of `computed`, and `all` = computed datapoints over the operand's *)
Theorem C07_hierarchy_result : forall impl d rules m im o res,
  d_hierarchy_gen impl d rules m im o = Ok res ->
  exists pts, hpoints d = Ok pts /\ d_ids res = d_ids d /\ d_ms res = d_ms d /\
    let sorted := hr_sort (List.length (filter is_eq_rule rules)) (filter is_eq_rule rules) in
    let chain := match im with IDataset => impl | _ => true end in
    let comp := hier_computed m im chain pts sorted in
    (o = HComputed -> d_rows res = comp) /\
    (o = HAll -> forall x, In x (d_rows res) <-> In x comp \/ (In x (d_rows d) /\ has_key (fst x) comp = false)).
Proof. exact d_hierarchy_spec. Qed.
Theorem C07_hierarchy_computed_rows : forall m im chain pts rules x,
  In x (hier_computed m im chain pts rules) <->
  exists g c v, In g (group_keys pts) /\
    In (c, v) (snd (hier_group m im chain (group_state g pts) (group_state g pts) rules)) /\ x = (g ++ [VStr c], [v]).
Proof. exact hier_computed_spec. Qed.
(* rule ordering: no rule is evaluated before a different rule computing one of its right-side items; when no rule is left
   out (acyclic rule graph) every `=` rule is evaluated exactly once *)
Theorem C07_hierarchy_dependency_order : forall n l pre rl post,
  hr_sort n l = pre ++ rl :: post ->
  forall c r2, In c (hitems (h_right rl)) -> In r2 post -> h_left r2 = c -> h_name r2 = h_name rl.
Proof. exact hr_sort_deps. Qed.
Theorem C07_hierarchy_order_is_permutation : forall n l,
  List.length (hr_sort n l) = List.length l -> Permutation l (hr_sort n l).
Proof. exact hr_sort_perm. Qed.

(* independence of the textual order.  FULL statement (DESIGN `hierarchy_fixpoint`), NOT proved here: for an acyclic rule graph,
   any two orders of the `=` rules that respect the dependencies give the same computed datapoints (as a set) and the same
   final state — hence the result does not depend on the textual order of the ruleset nor on which topological order the
   engine's sort picks.  PROVED: the step that carries it — two adjacent independent rules (different left items, neither
   reads the item the other computes) can be swapped anywhere in the sequence without changing the computed datapoints
   (up to order) or the content of the final state, for every validation mode and input mode.  Missing: the (standard)
   fact that two linear extensions of one partial order are connected by such adjacent swaps. *)
Theorem C07_hierarchy_order_independent_partial : forall m im chain st0 st pre r1 r2 post,
  indep r1 r2 ->
  st_eq (fst (hier_group m im chain st0 st (pre ++ r1 :: r2 :: post)))
        (fst (hier_group m im chain st0 st (pre ++ r2 :: r1 :: post))) /\
  Permutation (snd (hier_group m im chain st0 st (pre ++ r1 :: r2 :: post)))
              (snd (hier_group m im chain st0 st (pre ++ r2 :: r1 :: post))).
Proof. exact hier_group_swap. Qed.
(* evaluation depends on the content of a state only *)
Theorem C07_hierarchy_state_content_only : forall m im chain st0 rules a b, st_eq a b ->
  st_eq (fst (hier_group m im chain st0 a rules)) (fst (hier_group m im chain st0 b rules)) /\
  snd (hier_group m im chain st0 a rules) = snd (hier_group m im chain st0 b rules).
Proof. exact hier_group_ext. Qed.

(* the engine evaluates input mode `dataset` like `rule`: refuted with a witness; equal for the other input modes *)
Theorem C07_hierarchy_impl_dataset_refuted :
  exists d rules, d_hierarchy_impl d rules NonNull IDataset HComputed <> d_hierarchy d rules NonNull IDataset HComputed.
Proof.
  exists (mkD ["Id_1"; "Id_2"] ["Me_1"] [([VInt 7; VStr "B"], [VInt 2]); ([VInt 7; VStr "C"], [VInt (-2)]); ([VInt 7; VStr "E"], [VInt 1])]),
         [mkH "r2" "D" Eq (HSub (HItem "A") (HItem "E")) VNull VNull; mkH "r1" "A" Eq (HAdd (HItem "B") (HItem "C")) VNull VNull].
  vm_compute. discriminate.
Qed.
Theorem C07_hierarchy_impl_partial : forall d rules m im o,
  im <> IDataset -> d_hierarchy_impl d rules m im o = d_hierarchy d rules m im o.
Proof. exact hierarchy_impl_eq_spec. Qed.

(* ================================================================= concrete data *)
Example C07_example_check :
  let A := mkD ["Id_1"] ["Me_1"] [([VInt 1], [VInt 1]); ([VInt 2], [VInt 5]); ([VInt 3], [VNull])] in
  let B := mkD ["Id_1"] ["Me_1"] [([VInt 1], [VInt 2]); ([VInt 2], [VInt 5]); ([VInt 3], [VInt 3])] in
  let e := [("DS_1", A); ("DS_2", B)] in
  bind (run_check false e (DBin Ge (DVar "DS_1") (DVar "DS_2")) (Some (DBin Sub (DVar "DS_1") (DVar "DS_2"))) (VStr "E1") (VInt 3) true)
       (fun d => Ok (d_rows d)) = Ok [([VInt 1], [VBool false; VInt (-1); VStr "E1"; VInt 3])] /\
  bind (run_check false e (DBin Ge (DVar "DS_1") (DVar "DS_2")) (Some (DBin Sub (DVar "DS_1") (DVar "DS_2"))) (VStr "E1") (VInt 3) false)
       (fun d => Ok (d_rows d)) =
    Ok [([VInt 1], [VBool false; VInt (-1); VStr "E1"; VInt 3]); ([VInt 2], [VBool true; VInt 0; VNull; VNull]);
        ([VInt 3], [VNull; VNull; VNull; VNull])].
Proof. vm_compute. split; reflexivity. Qed.

Example C07_example_check_datapoint :
  let D := mkD ["Id_1"] ["Me_1"; "Me_2"] [([VInt 1], [VInt 1; VInt 1]); ([VInt 2], [VInt 5; VNull]); ([VInt 3], [VInt (-2); VInt 0])] in
  let rules := [mkRule "r1" (Some (CBin Gt (CCol "M2") (CLit (VInt 0)))) (CBin Gt (CCol "Me_1") (CLit (VInt 2))) (VStr "EC1") (VInt 1);
                mkRule "r2" None (CBin Ge (CCol "Me_1") (CLit (VInt 0))) (VStr "EC2") VNull] in
  let sg := [("Me_1", "Me_1"); ("M2", "Me_2")] in
  bind (d_check_datapoint D sg rules OInvalid) (fun d => Ok (d_rows d)) =
    Ok [([VInt 1; VStr "r1"], [VInt 1; VInt 1; VStr "EC1"; VInt 1]); ([VInt 3; VStr "r2"], [VInt (-2); VInt 0; VStr "EC2"; VNull])] /\
  bind (d_check_datapoint D sg rules OAll) (fun d => Ok (map snd (d_rows d))) =
    Ok [[VBool false; VStr "EC1"; VInt 1]; [VNull; VNull; VNull]; [VBool true; VNull; VNull];
        [VBool true; VNull; VNull]; [VBool true; VNull; VNull]; [VBool false; VStr "EC2"; VNull]].
Proof. vm_compute. split; reflexivity. Qed.

Example C07_example_hierarchy :
  let D := mkD ["Id_1"; "Id_2"] ["Me_1"]
             [([VInt 1; VStr "A"], [VInt 10]); ([VInt 1; VStr "B"], [VInt 4]); ([VInt 1; VStr "C"], [VInt 6]); ([VInt 1; VStr "D"], [VInt 1]);
              ([VInt 3; VStr "B"], [VInt 2]); ([VInt 3; VStr "C"], [VInt 3]); ([VInt 3; VStr "E"], [VInt 1])] in
  let rules := [mkH "r2" "D" Ge (HSub (HItem "A") (HItem "B")) (VStr "ED") VNull;
                mkH "r1" "A" Eq (HAdd (HItem "B") (HItem "C")) (VStr "EA") (VInt 2)] in
  bind (d_check_hierarchy D rules NonNull CInvalid) (fun d => Ok (d_rows d)) =
    Ok [([VInt 1; VStr "D"; VStr "r2"], [VInt 1; VInt (-5); VStr "ED"; VNull])] /\
  bind (d_check_hierarchy D rules NonZero CAll) (fun d => Ok (d_rows d)) =
    Ok [([VInt 1; VStr "D"; VStr "r2"], [VBool false; VInt (-5); VStr "ED"; VNull]);
        ([VInt 3; VStr "D"; VStr "r2"], [VBool true; VInt 2; VNull; VNull]);
        ([VInt 1; VStr "A"; VStr "r1"], [VBool true; VInt 0; VNull; VNull]);
        ([VInt 3; VStr "A"; VStr "r1"], [VBool false; VInt (-5); VStr "EA"; VInt 2])] /\
  bind (d_hierarchy D [mkH "r2" "D" Eq (HSub (HItem "A") (HItem "E")) VNull VNull; mkH "r1" "A" Eq (HAdd (HItem "B") (HItem "C")) VNull VNull]
          NonNull IRule HComputed) (fun d => Ok (d_rows d)) =
    Ok [([VInt 1; VStr "A"], [VInt 10]); ([VInt 3; VStr "A"], [VInt 5]); ([VInt 3; VStr "D"], [VInt 4])].
Proof. vm_compute. repeat split; reflexivity. Qed.

Print Assumptions C07_check_invalid_exact.
Print Assumptions C07_check_all_complete.
Print Assumptions C07_check_invalid_is_false_part_of_all.
Print Assumptions C07_check_errorcode_iff_false.
Print Assumptions C07_errorcode_iff_false.
Print Assumptions C07_check_imbalance_is_diff.
Print Assumptions C07_check_impl_eq_spec.
Print Assumptions C07_check_before_fix_invalid_exact_refuted.
Print Assumptions C07_check_before_fix_partial.
Print Assumptions C07_rule_fails_iff.
Print Assumptions C07_dp_invalid_exact.
Print Assumptions C07_dp_all_complete.
Print Assumptions C07_dp_all_count.
Print Assumptions C07_dp_any_output.
Print Assumptions C07_dp_invalid_is_false_part_of_all.
Print Assumptions C07_check_hierarchy_exact.
Print Assumptions C07_check_hierarchy_invalid_row.
Print Assumptions C07_check_hierarchy_all_row.
Print Assumptions C07_check_hierarchy_all_measures_row.
Print Assumptions C07_mode_non_null.
Print Assumptions C07_mode_non_zero.
Print Assumptions C07_mode_partial.
Print Assumptions C07_mode_always.
Print Assumptions C07_pivot_groups.
Print Assumptions C07_hierarchy_value.
Print Assumptions C07_hierarchy_state_step.
Print Assumptions C07_hierarchy_state_fold.
Print Assumptions C07_hierarchy_result.
Print Assumptions C07_hierarchy_computed_rows.
Print Assumptions C07_hierarchy_dependency_order.
Print Assumptions C07_hierarchy_order_is_permutation.
Print Assumptions C07_hierarchy_order_independent_partial.
Print Assumptions C07_hierarchy_state_content_only.
Print Assumptions C07_hierarchy_impl_dataset_refuted.
Print Assumptions C07_hierarchy_impl_partial.
