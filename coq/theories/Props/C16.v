(* C16 — run() releases its session resources at every failure point; a later run behaves as if the failed run never
   happened.  Statements only (closed by `exact`, or by evaluating a closed witness); proofs are in Proofs/EffectsP.v.
   The step language and its fault semantics are in Model/Effects.v, the skeletons of the engine code in Model/Skeleton.v
   (`*_impl` faithful to the CURRENT code -- the engine is compared with these on every run; `*_before_fix` the code
   before the repair commits, kept only as the object of the regression-witness theorems at the end). *)
From Coq Require Import List Bool Arith ZArith Lia.
Import ListNotations.
From VTL Require Import Model.Effects Model.Skeleton Proofs.EffectsP.
Local Open Scope nat_scope.

(* ---------------------------------------------------------------------------------------------- general theorems *)
(* every program in which each Acquire is inside the Try whose Finally releases it: for ALL fault positions (and any
   value-dependent failure), no resource is left.  Induction over programs; unbounded. *)
Theorem C16_bracketed_safe : forall p, bracketed p = true ->
  forall k s, live s = [] -> live (snd (exec k p s)) = [].
Proof. exact bracketed_safe. Qed.

(* ... also across any sequence of runs in one process *)
Theorem C16_bracketed_sequences_safe : forall runs s,
  (forall p k, In (p, k) runs -> bracketed p = true) -> live s = [] -> live (run_seq runs s) = [].
Proof. exact run_seq_no_leak. Qed.

(* every fault position inside the program makes the run raise (a finally block never swallows the error) *)
Theorem C16_fault_raises : forall p k s, cnt s <= k < cnt s + nsteps p -> fst (exec (Some k) p s) = Fail.
Proof. exact fault_raises. Qed.

(* and, when no value-dependent check is involved, nothing else fails *)
Theorem C16_only_faults_fail : forall p k s, check_free p = true -> fst (exec k p s) = Fail ->
  exists j, k = Some j /\ cnt s <= j < cnt s + nsteps p.
Proof. exact only_faults_fail. Qed.

(* a run whose reads are covered by what it wrote itself and by the restored globals behaves identically after ANY
   sequence (any length, any faults) of earlier runs that leave the restored globals at their baseline *)
Theorem C16_history_independence : forall R runs p k G,
  (forall q kq, In (q, kq) runs -> forall s, inv R s -> inv R (snd (exec kq q s))) ->
  inv R (init G) -> si (map fst R) p = true ->
  behaviour k p (run_seq runs (init G)) = behaviour k p (init G).
Proof. exact history_independence. Qed.

(* ------------------------------------------------------------------------- the skeleton of the CURRENT code *)
(* every acquisition of run() is inside the try whose finally releases it -- for every number of statements, every
   load/release schedule, in-memory and file-backed, every environment setting *)
Theorem C16_run_skeleton_bracketed : forall n fb envW envS ss nfinal save,
  bracketed (run_impl n fb envW envS (exec_queries ss nfinal save)) = true.
Proof. exact run_impl_bracketed. Qed.

(* the schedules of execute_queries acquire only the temporary view, inside its own try/finally *)
Theorem C16_exec_queries_bracketed : forall A ss nfinal save, wb A (exec_queries ss nfinal save) = true.
Proof. exact wb_exec_queries. Qed.

(* hence: for every script shape, every environment setting (valid or not), every fault position k (None = no injected
   fault: real configuration / load errors are the failing Checks): nothing is left *)
Theorem C16_run_skeleton_never_leaks : forall n fb envW envS ss nfinal save k G,
  live (snd (exec k (run_impl n fb envW envS (exec_queries ss nfinal save)) (init G))) = [].
Proof. exact run_impl_never_leaks. Qed.

(* run() reads only globals it wrote itself in the same run, or dataset_output, which every call leaves at None *)
Theorem C16_run_skeleton_self_initialising : forall n fb envW envS ss nfinal save,
  si (map fst restored) (run_impl n fb envW envS (exec_queries ss nfinal save)) = true.
Proof. exact run_impl_self_init. Qed.

Theorem C16_run_skeleton_restores_dataset_output : forall n fb envW envS ss nfinal save k s,
  inv restored s -> inv restored (snd (exec k (run_impl n fb envW envS (exec_queries ss nfinal save)) s)).
Proof. exact run_impl_restores. Qed.

(* any number of earlier calls (runs of any shape, loaders), failed at any position or by any configuration error, do
   not change what a call does *)
Theorem C16_run_skeleton_history_independent : forall runs p k G,
  (forall q kq, In (q, kq) runs -> api_call q) -> api_call p -> G GDsOut = 0%Z ->
  behaviour k p (run_seq runs (init G)) = behaviour k p (init G).
Proof. exact history_independence_impl. Qed.

(* ------------------------------------------------------- regression witnesses: the code BEFORE the repair commits *)
(* exact leak of the old skeleton for ALL numbers of statements n, ALL schedules, ALL fault positions k: positions
   0..n-1 are the semantic analysis of the n statements, n+i is event i.  The correspondence evaluates this skeleton
   next to the current one: an engine that matches it again has regressed. *)
Theorem C16_before_fix_leaks_iff : forall n fb envW envS body k G,
  valid_cfg_before_fix envW envS G = true -> wb [RConn; RDbFile; RDir] body = true ->
  live (snd (exec (Some k) (run_before_fix n fb envW envS body) (init G))) =
    if k <? n then [] else predicted_leak fb (k - n).
Proof. exact run_before_fix_leaks. Qed.

Corollary C16_before_fix_leaks_positions : forall n fb envW envS body k G,
  valid_cfg_before_fix envW envS G = true -> wb [RConn; RDbFile; RDir] body = true ->
  (live (snd (exec (Some k) (run_before_fix n fb envW envS body) (init G))) <> [] <-> n + 1 <= k <= n + 5).
Proof. exact run_before_fix_leaks_positions. Qed.

Theorem C16_before_fix_bracketed_refuted : forall n fb envW envS ss nfinal save G,
  valid_cfg_before_fix envW envS G = true ->
  live (snd (exec (Some (n + 1)) (run_before_fix n fb envW envS (exec_queries ss nfinal save)) (init G))) = [RDir] /\
  live (snd (exec (Some (n + 4)) (run_before_fix n fb envW envS (exec_queries ss nfinal save)) (init G))) = leakset fb.
Proof. exact run_before_fix_bracketed_refuted. Qed.

Theorem C16_before_fix_config_error_leaks : forall fb envW envS body s,
  live s = [] -> cnt s = 0 -> valid_cfg_before_fix envW envS (glb s) = false ->
  fst (exec None (conn_before_fix fb (decimal_before_fix envW envS) body) s) = Fail /\
  live (snd (exec None (conn_before_fix fb (decimal_before_fix envW envS) body) s)) = leakset fb.
Proof. exact config_error_leaks. Qed.

(* (a) VTL_DUCKDB_DECIMAL_WIDTH=3 made a run fail and the NEXT run, with the variable unset, failed too *)
Theorem C16_before_fix_history_refuted_decimal :
  let failing := (run_before_fix 1 false (Some 3%Z) None body1, None) in
  let clean := run_before_fix 1 false None None body1 in
  fst (behaviour None clean (init G0)) = Ok /\
  fst (behaviour None clean (run_seq [failing] (init G0))) = Fail.
Proof. vm_compute. split; reflexivity. Qed.

(* (a') width 45 passed the engine's own check, failed in DuckDB, and stuck *)
Theorem C16_before_fix_history_refuted_decimal_45 :
  let failing := (run_before_fix 1 false (Some 45%Z) None body1, None) in
  let clean := run_before_fix 1 false None None body1 in
  fst (behaviour None (fst failing) (init G0)) = Fail /\
  fst (behaviour None clean (init G0)) = Ok /\
  fst (behaviour None clean (run_seq [failing] (init G0))) = Fail.
Proof. vm_compute. repeat split; reflexivity. Qed.

(* (b) a semantic error in statement 2 left dataset_output set; a later unrelated error message read it *)
Theorem C16_before_fix_history_refuted_dataset_output :
  let failing := (run_before_fix 2 false None None body1, Some 1) in
  behaviour (Some 0) validate_prog (init G0) = (Fail, [(GDsOut, 0%Z)]) /\
  behaviour (Some 0) validate_prog (run_seq [failing] (init G0)) = (Fail, [(GDsOut, 2%Z)]).
Proof. vm_compute. split; reflexivity. Qed.

(* ------------------------------------------------------------------------------------------------- non-vacuity *)
(* the current skeleton on the very witnesses above: rejected settings raise, leave nothing, and do not stick; a
   semantic error does not reach a later message; the two skeletons differ exactly at the pre-try fault positions *)
Example C16_nonvacuous :
  bracketed (run_impl 2 true None None body1) = true /\
  bracketed (run_before_fix 2 true None None body1) = false /\
  valid_cfg None None = true /\ valid_cfg (Some 45%Z) None = false /\
  observe_run (Some 9) (run_impl 2 true None None body1) G0 =
    (Fail, [], [LSem; LSem; LMkdir; LConnect; LSettings; LUdf; LDecimal; LSetTemp; LInitMacros; LLoad]) /\
  observe_run (Some 5) (run_impl 2 true None None body1) G0 =
    (Fail, [], [LSem; LSem; LMkdir; LConnect; LSettings; LUdf]) /\
  observe_run (Some 5) (run_before_fix 2 true None None body1) G0 =
    (Fail, [RDbFile; RConn; RDir], [LSem; LSem; LMkdir; LConnect; LSettings; LUdf]) /\
  observe_run None (run_impl 1 true (Some 3%Z) None body1) G0 = (Fail, [], [LSem; LMkdir; LConnect; LSettings; LUdf; LDecimal]) /\
  observe_run None (run_impl 1 true (Some 45%Z) None body1) G0 = (Fail, [], [LSem; LMkdir; LConnect; LSettings; LUdf; LDecimal]) /\
  fst (behaviour None (run_impl 1 false None None body1) (run_seq [(run_impl 1 false (Some 3%Z) None body1, None)] (init G0))) = Ok /\
  behaviour (Some 0) validate_prog (run_seq [(run_impl 2 false None None body1, Some 1)] (init G0)) = (Fail, [(GDsOut, 0%Z)]) /\
  fst (fst (observe_run None (run_impl 2 true None None body1) G0)) = Ok.
Proof. vm_compute. repeat split; reflexivity. Qed.

Print Assumptions C16_bracketed_safe.
Print Assumptions C16_bracketed_sequences_safe.
Print Assumptions C16_fault_raises.
Print Assumptions C16_only_faults_fail.
Print Assumptions C16_history_independence.
Print Assumptions C16_run_skeleton_bracketed.
Print Assumptions C16_exec_queries_bracketed.
Print Assumptions C16_run_skeleton_never_leaks.
Print Assumptions C16_run_skeleton_self_initialising.
Print Assumptions C16_run_skeleton_restores_dataset_output.
Print Assumptions C16_run_skeleton_history_independent.
Print Assumptions C16_before_fix_leaks_iff.
Print Assumptions C16_before_fix_leaks_positions.
Print Assumptions C16_before_fix_bracketed_refuted.
Print Assumptions C16_before_fix_config_error_leaks.
Print Assumptions C16_before_fix_history_refuted_decimal.
Print Assumptions C16_before_fix_history_refuted_decimal_45.
Print Assumptions C16_before_fix_history_refuted_dataset_output.
